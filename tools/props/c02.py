"""C02 - every received request gets exactly one well-formed answer (spec/HttpExchange.tla).

1. TLC checks P_C02_* on the specification (every fault scenario x every interleaving of sozu, peers and time).
2. Spec self-test: each known way of breaking the property (a named deviation switch modelling a defect that was
   found and fixed) must make TLC report a violation - the formulas are not vacuous. Open deviations (none at
   present) are handled the same way and additionally switched on for conformance.
3. S->I: TLC prints, for every terminal state of every scenario, the outcome of every request; grouped per
   scenario this is the set of admitted joint outcomes + the time budget. harness/replay_exchange executes every
   scenario against a real worker (scripted backend, scripted client) and compares request by request.
4. I->S: harness/drive_exchange runs seeded random scripts (random byte offsets, protocol pairs, modes) and
   records what each observer saw; spec/Trace_HttpExchange.tla validates the traces with TLC; a canary trace
   (one status flipped) must be rejected.
"""
import hashlib
import json
import os
import random
import re

import vlib

PID = "C02"

CFG = """SPECIFICATION Spec
CONSTANTS
  Fronts <- BothProtos
  Backs <- BothProtos
  NReq = %(n)d
  Framings <- %(framings)s
  Siblings <- %(siblings)s
  Faults <- %(faults)s
  Timings <- %(timings)s
  Deviations = %(dev)s
  Emit = %(emit)s
%(checks)s
CHECK_DEADLOCK FALSE
"""
CHECKS = ("INVARIANTS TypeOK P_C02_StatusMatchesCause P_C02_RoutingOutcome P_C02_NoTruncation P_C02_Budget "
          "P_C02_NoHang P_C02_HealthyServed P_C02_AnsweredUnlessStarted P_C02_SiblingServed P_C02_CleanServed\n"
          "PROPERTIES P_C02_OneAnswer P_C02_OnceStarted P_C02_Isolation")

# deviation switch -> what it models (defects found by this check and fixed in /repo; kept as spec mutants)
SELF_TEST_DEVIATIONS = {
    "DefaultAfterHead": "a default answer written after the response head was forwarded (two answers)",
    "KeepAliveAfterCloseDelimited": "an unframed (close-delimited) body relayed to an HTTP/1 client on a connection that is kept alive",
    "NoAnswerOnTimeout": "a backend timeout before any response aborts the request without the 504",
    # classes of the coverage holes C02-22 / C02-12 and of cross findings 7, 8
    "GoawayKillsNamed": "a graceful GOAWAY of an h2c backend tears down the stream it names as being processed (off-by-one on last_stream_id)",
    "BackoffNotReset": "an established backend connection does not clear the back-off window: a backend that just served a request is unavailable",
    "LengthBodyCutByCloseCompletes": "Connection: close on a response with a Content-Length makes the backend's early close the end of the body (truncated body presented as complete)",
    "InterimSwallowsFinal": "the final response that arrives in one segment with a 1xx interim response is thrown away with it (103, then 504)",
    "InterimOnH2BackendAborts": "the final HEADERS of an h2c backend that follow a 1xx HEADERS abort the stream",
    "GoawayRefusedDropped": "a request refused by the backend's GOAWAY (above last_stream_id) after it was written is terminated without any answer",
}
# the instance on which each deviation is refuted (default: the single-request instance)
SELF_TEST_INSTANCE = {"BackoffNotReset": (3, "CoreFramings", "NoSiblings", "RecoveryFaults")}
# open finding (deviation) -> how its behaviour shows in a replayed scenario (reporting only: the verdict comes from the
# admitted sets, which the generator computes with the open deviations switched on)
def explained_by(scn, outs):
    for r, o in zip(scn["reqs"], outs):
        if r.get("interim", "none") != "none" and scn["back"] == "h1" and o[0] == "504":
            return "InterimSwallowsFinal"
        if r.get("interim", "none") != "none" and scn["back"] == "h2" and o == ["none", "abort"]:
            return "InterimOnH2BackendAborts"
    if any(r["fault"] == "goaway" for r in scn["reqs"]) and ["none", "abort"] in outs:
        return "GoawayRefusedDropped"
    return None


def tla_set(xs):
    return "{" + ", ".join('"%s"' % x for x in xs) + "}"


def write_cfg(wd, name, n, framings, siblings, faults, dev, emit, timings="BothTimings"):
    path = os.path.join(wd, name)
    with open(path, "w") as f:
        f.write(CFG % {"n": n, "framings": framings, "siblings": siblings, "faults": faults, "timings": timings,
                       "dev": tla_set(dev), "emit": "TRUE" if emit else "FALSE",
                       "checks": "INVARIANTS EmitState" if emit else CHECKS})
    return path


def scenario_key(o):
    return json.dumps([o["front"], o["back"], o["mode"], o["nbk"], o["timing"], o["reqs"]], sort_keys=True)


class Collector:
    """Groups the generator's terminal states per scenario: admitted joint outcomes + tick budget."""

    def __init__(self):
        self.by = {}

    def add(self, o):
        k = scenario_key(o)
        e = self.by.get(k)
        if e is None:
            e = {"front": o["front"], "back": o["back"], "mode": o["mode"], "nbk": o["nbk"], "timing": o["timing"], "reqs": o["reqs"],
                 "admit": set(), "ticks": [0] * len(o["reqs"])}
            self.by[k] = e
        e["admit"].add(json.dumps(o["out"]))
        e["ticks"] = [max(a, b) for a, b in zip(e["ticks"], o["ticks"])]


K_VARIANTS = {"midhdr": 3, "midbody": 3, "prehdr": 1, "posthdr": 1, "accept": 1, "between": 1, "none": 1}


def concretise(e, sid, k):
    """One harness scenario from an abstract one: k selects the byte offset inside the abstract position."""
    reqs = []
    between = False
    for r in e["reqs"]:
        fault, at, kk = r["fault"], r["at"], k
        route = r["route"]
        body = 3 if r["pace"] == "drip" else (2 if route == "a" else 1)
        if r["pace"] == "drip":
            fault, at = "drip", "none"
        if fault == "connstall":
            fault = "stall"          # the cut falls inside a frame: nothing can follow on the connection
            kk = [0, 1, 2][k % 3]
        elif fault in ("stall", "rststream") and e["back"] == "h2" and at == "midbody":
            kk = 3                   # stream-level on an h2c connection: the cut is a frame boundary
        if fault == "garbage" and at in ("posthdr", "midbody"):
            kk = k                   # odd k: the garbage arrives after sozu relayed the head
        off = None
        if fault == "garbage" and e["back"] == "h2" and at == "midhdr":
            off = 1 + 3 * (k % 3)    # inside the 9-byte frame header: inside a payload the bytes would be header data
        if at == "between":
            between = True
        framing = r["framing"]
        rq = {"route": route, "framing": framing, "body": body, "fault": fault, "at": at, "k": kk,
              "interim": r.get("interim", "none"), "lsid": r.get("lsid", "na"), "split": r.get("pace") == "split",
              "gap_ms": 2300 if r.get("gap") == "long" else 0}
        if off is not None:
            rq["off"] = off
        reqs.append(rq)
    mode = e["mode"]
    if mode == "seq" and between and len(reqs) > 1:
        mode = "seqgap"
    return {"id": sid, "front": e["front"], "back": e["back"], "mode": mode, "nbk": e["nbk"], "timing": e["timing"], "reqs": reqs,
            "expect": {"admit": sorted(json.loads(a) for a in e["admit"]), "ticks": e["ticks"]},
            "abstract": {"mode": e["mode"], "reqs": e["reqs"]}}


def stratum(e):
    p = [r for r in e["reqs"] if r["route"] == "a" and (r["fault"] != "none" or r["pace"] == "drip" or r.get("interim", "none") != "none")]
    s = [r for r in e["reqs"] if r not in p[:1]]
    pf = (p[0]["fault"], p[0]["at"], p[0]["pace"], p[0].get("lsid"), p[0].get("interim")) if p else ("-", "-", "-")
    sk = s[0]["route"] + s[0]["pace"] if s else "-"
    return (e["front"], e["back"], e["mode"], e["timing"], pf, sk)


def run(tier, replay=None):
    rep = vlib.Report(PID, tier)
    wd = vlib.workdir(PID)
    thorough = tier == "thorough"
    workers = 16 if thorough else 8
    bins = vlib.cargo_build(["replay_exchange", "drive_exchange"])
    devs = vlib.open_deviations(PID)
    rng = random.Random(vlib.seed())

    # ---- 1. design level --------------------------------------------------------------------
    inst = [("mc1.cfg", 1, "AllFramings", "AllSiblings", "AllFaults")]
    if thorough:
        inst.append(("mc2.cfg", 2, "AllFramings", "AllSiblings", "AllFaults"))
    else:
        inst.append(("mc2.cfg", 2, "CoreFramings", "CoreSiblings", "CoreFaults"))
    inst.append(("mc3.cfg", 3, "CoreFramings", "NoSiblings", "RecoveryFaults"))
    for name, n, fr, sb, fl in inst:
        tm = "BothTimings"
        r = vlib.tlc("MC_HttpExchange", write_cfg(wd, name, n, fr, sb, fl, [], False, tm), PID, workers=workers,
                     timeout=3000 if thorough else 600)
        rep.add_tlc(r)
        if r["violated"]:
            rep.violation("spec:" + r["violated"], "the specification itself violates %s" % r["violated"], r["out"])
    # ---- 2. the formulas can fail: every deviation switch breaks the property in the model ------
    for d in sorted(set(SELF_TEST_DEVIATIONS) | set(devs)):
        n_, fr_, sb_, fl_ = SELF_TEST_INSTANCE.get(d, (1, "AllFramings", "AllSiblings", "AllFaults"))
        rd = vlib.tlc("MC_HttpExchange", write_cfg(wd, "mc_dev.cfg", n_, fr_, sb_, fl_, [d], False),
                      PID, workers=workers, timeout=600)
        rep.add_tlc(rd)
        if not rd["violated"]:
            raise vlib.ToolError("deviation %s does not violate P_C02 in the model (vacuous formula?)" % d)
        vlib.log("deviation %s: TLC counterexample to %s as expected" % (d, rd["violated"]))

    # ---- 3. S->I -------------------------------------------------------------------------------
    scen_path = os.path.join(wd, "scenarios.ndjson")
    n_abstract = 0
    replay_trace = None
    if replay:
        # a saved violation record (scenario of the S->I leg, or the trace of a rejected run), or a scenario file
        scen_path = replay
        try:
            rec = json.load(open(replay))
        except ValueError:
            rec = None
        if isinstance(rec, dict) and rec.get("scenario"):
            scen_path = os.path.join(wd, "replay_scenario.ndjson")
            with open(scen_path, "w") as f:
                f.write(json.dumps(rec["scenario"]) + "\n")
        elif isinstance(rec, dict) and rec.get("run"):
            replay_trace = os.path.join(wd, "replay_trace.ndjson")
            with open(replay_trace, "w") as f:
                f.write(json.dumps(rec["run"]) + "\n")
            scen_path = None
        elif isinstance(rec, dict):
            raise vlib.ToolError("%s holds neither a scenario nor a recorded run" % replay)
    else:
        col = Collector()
        gens = [("gen1.cfg", 1, "AllFramings", "AllSiblings", "AllFaults")]
        gens.append(("gen2.cfg", 2, "AllFramings" if thorough else "CoreFramings",
                     "AllSiblings" if thorough else "CoreSiblings", "AllFaults" if thorough else "CoreFaults"))
        gens.append(("gen3.cfg", 3, "CoreFramings", "NoSiblings", "RecoveryFaults"))
        for name, n, fr, sb, fl in gens:
            tm = "BothTimings"
            g = vlib.tlc("MC_HttpExchange", write_cfg(wd, name, n, fr, sb, fl, devs, True, tm), PID, workers=workers,
                         timeout=3000, want_replay=True, replay_sink=col.add)
            rep.add_tlc(g)
            if g["violated"]:
                raise vlib.ToolError("generator run reported a violation: %s" % g["violated"])
        abstract = [col.by[k] for k in sorted(col.by)]
        n_abstract = len(abstract)
        if not abstract:
            raise vlib.ToolError("the generator produced no scenario")
        single = [e for e in abstract if len(e["reqs"]) != 2]     # single requests and the recovery triples: all of them
        pairs = [e for e in abstract if len(e["reqs"]) == 2]
        chosen = []
        if thorough:
            for e in abstract:
                nk = max(K_VARIANTS.get(r["at"], 1) for r in e["reqs"])
                for k in range(nk):
                    chosen.append((e, k))
        else:
            for e in single:
                chosen.append((e, rng.randrange(3)))
            # quick: a seeded sample of the two-request scenarios, at least one per stratum
            by = {}
            for e in pairs:
                by.setdefault(stratum(e), []).append(e)
            keys = sorted(by)
            rng.shuffle(keys)
            budget = 480
            for sk in keys[:budget]:
                chosen.append((rng.choice(by[sk]), rng.randrange(3)))
        with open(scen_path, "w") as f:
            for i, (e, k) in enumerate(chosen):
                f.write(json.dumps(concretise(e, i + 1, k)) + "\n")
        vlib.log("%d abstract scenarios, %d concrete scenarios to replay" % (n_abstract, len(chosen)))

    if scen_path is None:
        out = [{"kind": "summary", "requests": 0}]
    else:
        out = vlib.run_harness(bins["replay_exchange"],
                               ["--threads", "40" if thorough else "32", "--rigs", "6" if thorough else "4"],
                               stdin_path=scen_path, timeout=3000)
    summ = [o for o in out if o.get("kind") == "summary"]
    if not summ:
        raise vlib.ToolError("replay_exchange produced no summary")
    summ = summ[0]
    terrs = [o for o in out if o.get("kind") == "toolerror"]
    if terrs and not replay and len(terrs) <= 20:
        # the harness could not run a scenario (a scripted peer failed to set itself up on the loaded machine):
        # those scenarios are executed again, alone; a second failure is a tool error (exit 2)
        want = {o.get("id") for o in terrs}
        terr_path = os.path.join(wd, "toolerror_again.ndjson")
        with open(terr_path, "w") as f:
            for line in open(scen_path):
                if json.loads(line).get("id") in want:
                    f.write(line)
        out_t = vlib.run_harness(bins["replay_exchange"], ["--threads", "2", "--rigs", "1"], stdin_path=terr_path, timeout=3000)
        out = [o for o in out if o.get("kind") != "toolerror"] + [o for o in out_t if o.get("kind") != "summary"]
        summ["requests"] += sum(o.get("requests", 0) for o in out_t if o.get("kind") == "summary")
        vlib.log("%d scenario(s) could not be set up and were executed again alone" % len(terrs))
    for o in out:
        if o.get("kind") == "toolerror":
            raise vlib.ToolError("replay_exchange: scenario %s: %s" % (o.get("id"), o.get("why")))
    lates = [o for o in out if o.get("kind") == "late"]
    if lates:
        # an answer after the deadline but before the hang limit: slowness cannot be told from a defect here;
        # re-run those scenarios alone, and give up (exit 2) if they are late again
        late_path = os.path.join(wd, "late.ndjson")
        with open(late_path, "w") as f:
            for o in lates:
                f.write(json.dumps(o["scenario"]) + "\n")
        out2 = vlib.run_harness(bins["replay_exchange"], ["--threads", "2", "--rigs", "1"], stdin_path=late_path, timeout=3000)
        if any(o.get("kind") == "late" for o in out2):
            raise vlib.ToolError("%d scenario(s) answered after their deadline twice; the machine is too slow to tell" % len(lates))
        out += [o for o in out2 if o.get("kind") == "violation"]
    results = [o for o in out if o.get("kind") == "result"]
    # Confirmation: the machine is shared (tens of thousands of sockets in TIME_WAIT, starved threads); a scenario
    # that violated is executed again, alone, twice. It is reported when it violates again at least once; what
    # does not reproduce is counted in the evidence (unreproduced) and not reported. Defects of this property
    # found so far were all deterministic for their scenario.
    viols = [o for o in out if o.get("kind") == "violation"]
    # violations of a class an OPEN finding lists are deterministic for their scenario and are not re-executed (there are
    # hundreds per thorough run): confirmation is for the unlisted ones only, otherwise a one-off on the loaded machine
    # rides on the "systemic" rule below (seen once: a healthy backend answered 503 once in 47 000 scenarios)
    known_classes = {c for e in rep.findings if e.get("status") == "open" for c in e.get("classes", [])}
    listed_ids = {(v.get("scenario") or {}).get("id") for v in viols if v.get("scenario") and v["class"] in known_classes}
    bad_ids = sorted({(v.get("scenario") or {}).get("id") for v in viols
                      if v.get("scenario") and v["class"] not in known_classes})
    confirmed = set(listed_ids)
    sample_ids = bad_ids
    if len(bad_ids) > 12:
        # many scenarios violated: re-execute a dozen of them (one per violation class first)
        seen, first = set(), []
        for v in viols:
            i = (v.get("scenario") or {}).get("id")
            if i is not None and v["class"] not in seen and i not in first:
                seen.add(v["class"])
                first.append(i)
        sample_ids = (first + [i for i in bad_ids if i not in first])[:12]
    if bad_ids and not replay:
        by_id = {}
        for line in open(scen_path):
            o = json.loads(line)
            by_id[o["id"]] = o
        again_path = os.path.join(wd, "again.ndjson")
        n = 0
        with open(again_path, "w") as f:
            for rep_i in range(2):
                for i in sample_ids:
                    o = dict(by_id[i])
                    o["orig"] = i
                    o["id"] = 100000 * (rep_i + 1) + i
                    f.write(json.dumps(o) + "\n")
                    n += 1
        out3 = vlib.run_harness(bins["replay_exchange"], ["--threads", "6", "--rigs", "2"], stdin_path=again_path, timeout=3000)
        for o in out3:
            if o.get("kind") == "violation" and o.get("scenario"):
                confirmed.add(o["scenario"].get("orig"))
        n_conf = len([i for i in sample_ids if i in confirmed])
        vlib.log("%d unlisted scenario(s) violated (%d of listed classes), %d re-executed, %d confirmed" % (
            len(bad_ids), len(listed_ids), len(sample_ids), n_conf))
        if len(sample_ids) < len(bad_ids) and 2 * n_conf >= len(sample_ids):
            # systemic: what was not re-executed is reported as well
            confirmed |= set(bad_ids)
        rep.extra["unreproduced_violations"] = len([i for i in sample_ids if i not in confirmed])
        rep.extra["unreproduced_violation_classes"] = sorted({v["class"] for v in viols if (v.get("scenario") or {}).get("id") in sample_ids
                                                              and (v.get("scenario") or {}).get("id") not in confirmed})[:10]
    for v in viols:
        sc = v.get("scenario") or {}
        if sc and not replay and sc.get("id") not in confirmed:
            continue
        desc = "%s %s" % (v["class"], json.dumps(v.get("detail"))[:200])
        rep.violation(v["class"], desc, v, name="scn_%s_%s.json" % (sc.get("id", "x"), re.sub(r"[^A-Za-z0-9]+", "_", v["class"])[:40]))
    rep.cov["evaluations"] += summ["requests"]
    classes = set()
    if not replay:
        scn_by_id = {}
        for line in open(scen_path):
            x = json.loads(line)
            scn_by_id[x["id"]] = x
        for o in results:
            x = scn_by_id.get(o.get("id"))
            d = explained_by(x, o.get("outcome") or []) if x else None
            for e in rep.findings:
                if d and e.get("status") == "open" and e.get("deviation") == d:
                    rep.known_finding_seen(e["id"])
    for o in results:
        classes.add(json.dumps([o.get("sig"), o.get("outcome")]))
    rep.cov["traces_validated_against_impl"] += len(results)
    picked = []
    for needle in ("stall@midbody", "+", "close@between", "drip", "garbage@", "refuse@accept"):
        for o in results:
            if needle in (o.get("sig") or "") and o not in picked:
                picked.append(o)
                break
    for o in picked[:5]:
        rep.add_samples([{"scenario": o.get("sig"), "observed": o.get("outcome"),
                          "time_to_end_ms": [x.get("t_end_ms") for x in o.get("obs", [])]}], 1)

    # ---- 4. I->S ---------------------------------------------------------------------------------
    if replay and not replay_trace:
        rep.cov["rule"] = "replay of one saved scenario"
        rep.finish()
    n_runs = 400 if thorough else 120
    trace = os.path.join(wd, "trace.ndjson")
    if replay_trace:
        n_runs = 0
    dout = [{"kind": "summary", "runs": 1, "distinct": 1}] if replay_trace else vlib.run_harness(bins["drive_exchange"], ["--seed", str(vlib.seed()), "--runs", str(n_runs), "--out", trace,
                                                     "--threads", "32", "--rigs", "4"], timeout=3000)
    dsum = [o for o in dout if o.get("kind") == "summary"]
    if not dsum:
        raise vlib.ToolError("drive_exchange produced no summary")
    for v in dout:
        if v.get("kind") == "violation":
            rep.violation(v["class"], "%s %s" % (v["class"], json.dumps(v.get("detail"))[:200]), v,
                          name="drive_%s_%s.json" % (v.get("run", "x"), re.sub(r"[^A-Za-z0-9]+", "_", v["class"])[:40]))
    tcfg = os.path.join(wd, "trace.cfg")
    with open(tcfg, "w") as f:
        f.write("SPECIFICATION TraceSpec\nCONSTANTS\n  Fronts = {\"h1\", \"h2\"}\n  Backs = {\"h1\", \"h2\"}\n  NReq = 2\n"
                "  Framings = {\"cl\"}\n  Siblings = {}\n  Faults = {}\n  Timings = {\"bf\"}\n  Deviations = %s\n  Emit = FALSE\n"
                "INVARIANTS %s\n"
                "CONSTRAINT Track\nPOSTCONDITION TraceAccepted\nCHECK_DEADLOCK FALSE\n" % (tla_set(devs),
                    # with an open deviation switched on the search also walks through the deviating (property-violating)
                    # continuations the spec then allows: the status / answered invariants would fire on candidates the
                    # recorded run never took; the events themselves (status, completion, backend) still have to match
                    "TypeOK P_C02_NoTruncation" if devs else
                    "TypeOK P_C02_StatusMatchesCause P_C02_NoTruncation P_C02_AnsweredUnlessStarted"))
    if replay_trace:
        trace = replay_trace
    tv = vlib.tlc_trace("Trace_HttpExchange", tcfg, PID, trace, timeout=3000 if thorough else 900)
    rep.add_tlc(tv)
    # a rejected run is executed again (same script, 3 times, alone); rejected again -> violation, otherwise the
    # run is set aside as unreproduced and the rest of the trace is validated (at most 4 times)
    dropped = 0
    while not tv["accepted"] and not tv.get("violated") and dropped < 4 and not replay_trace:
        bad = first_unmatched(trace, tv.get("consumed"))
        if not bad.get("run"):
            break
        rtrace = os.path.join(wd, "retrace_%d.ndjson" % bad["run"])
        vlib.run_harness(bins["drive_exchange"], ["--seed", str(vlib.seed()), "--only", str(bad["run"]), "--repeat", "3",
                                                  "--out", rtrace, "--threads", "1", "--rigs", "1"], timeout=900)
        rv = vlib.tlc_trace("Trace_HttpExchange", tcfg, PID, rtrace, timeout=900)
        if not rv["accepted"]:
            trace, tv = rtrace, rv
            break
        dropped += 1
        vlib.log("run %s was rejected once and accepted 3 times on re-execution: set aside" % bad["run"])
        kept = os.path.join(wd, "trace_kept_%d.ndjson" % dropped)
        with open(kept, "w") as f:
            for line in open(trace):
                if json.loads(line).get("run") != bad["run"]:
                    f.write(line)
        trace = kept
        tv = vlib.tlc_trace("Trace_HttpExchange", tcfg, PID, trace, timeout=3000 if thorough else 900)
        rep.add_tlc(tv)
    rep.extra["unreproduced_trace_rejections"] = dropped
    if tv["accepted"]:
        rep.cov["traces_validated_against_impl"] += dsum[0]["runs"] - dropped
    else:
        bad = first_unmatched(trace, tv.get("consumed"))
        rep.violation("trace:" + (bad.get("class") or "rejected"),
                      "recorded run is not a behaviour of HttpExchange: %s (consumed %s of %s%s)" % (
                          json.dumps(bad.get("event"))[:160], tv.get("consumed"), tv.get("total"),
                          (", invariant " + tv["violated"]) if tv.get("violated") else ""),
                      {"trace": trace, "consumed": tv.get("consumed"), "run": bad.get("run_events"), "tlc": tv["out"][-3000:]},
                      name="trace_rejected.json")
    # canary: flip one observed status; the trace must be rejected
    if tv["accepted"] and not replay_trace:
        canary = os.path.join(wd, "canary.ndjson")
        if make_canary(trace, canary, rng):
            cv = vlib.tlc_trace("Trace_HttpExchange", tcfg, PID, canary, timeout=900)
            if cv["accepted"]:
                raise vlib.ToolError("canary trace (one status flipped) was accepted: the trace specification binds nothing")
            vlib.log("canary trace rejected as expected (consumed %s of %s)" % (cv.get("consumed"), cv.get("total")))
        else:
            raise vlib.ToolError("no event to corrupt for the canary")

    rep.cov["distinct_nontrivial"] = len(classes) + dsum[0].get("distinct", 0)
    rep.cov["exhaustive"] = bool(thorough and not replay)
    rep.cov["rule"] = ("S->I: one replay per (abstract fault scenario, concretisation k) - scenario = protocol pair x mode x per "
                       "request (routing outcome, framing, fault kind, abstract offset, pace); distinct_nontrivial = distinct "
                       "(scenario, observed joint outcome) pairs + distinct (script signature, outcome) pairs of the random runs. "
                       "quick: every single-request scenario (all faults, all framings) + a seeded sample of <=420 strata of the "
                       "two-request scenarios (core faults, content-length); thorough: every scenario x every concretisation.")
    rep.extra["abstract_scenarios"] = n_abstract
    rep.extra["replayed_scenarios"] = len(results)
    rep.extra["random_runs"] = dsum[0]["runs"]
    rep.extra["trace_events"] = tv.get("total")
    rep.assumptions += [
        "abstract fault offsets (before accept / before headers / mid headers / after headers / mid body / between requests) are concretised to 2-3 byte offsets each in S->I; the random runs of I->S use arbitrary byte offsets",
        "timeouts are 1 s (back, connect, request) and 2 s (front); a request is late only beyond spec ticks x 0.5 s + 6 s and a hang only 12 s later; late-but-answered scenarios are re-run alone and make the check exit 2, never 1",
        "the scripted HTTP/2 client never writes after its requests (no WINDOW_UPDATE): a client write racing sozu's close turns the close into a TCP RST that can destroy answers in flight - a kernel-level race outside the model",
        "where the property is silent (garbage from the backend, RST losing unread data) the specification admits what the code does as long as it is an error answer or an explicit abort",
    ]
    rep.finish()


def first_unmatched(trace, consumed):
    """The trace holds one line per run; `consumed` counts events over all runs."""
    try:
        lines = [json.loads(l) for l in open(trace)]
    except (OSError, ValueError):
        return {}
    if consumed is None:
        return {}
    acc = 0
    for rec in lines:
        n = sum(len(o) for o in rec["obs"])
        if acc + n > consumed:
            cls = "%s-%s:%s:%s" % (rec.get("front"), rec.get("back"), rec.get("mode"),
                                   "+".join("%s/%s@%s" % (r["route"], r["fault"], r["at"]) for r in rec["reqs"]))
            return {"run": rec.get("run"), "event": {"sig": rec.get("sig"), "consumed_in_run": consumed - acc, "of": n},
                    "run_events": rec, "class": cls}
        acc += n
    return {}


def make_canary(src, dst, rng):
    """Flip the status a client read for a request that only has one admissible answer: a routed request of a run
    without any fault (200 -> 502)."""
    lines = [json.loads(l) for l in open(src)]
    cands = []
    for i, rec in enumerate(lines):
        if any(r["fault"] != "none" for r in rec["reqs"]):
            continue
        for oi, o in enumerate(rec["obs"]):
            for ei, e in enumerate(o):
                if e.get("ev") == "C_Status" and e.get("status") == "200" and rec["reqs"][e["r"] - 1]["route"] in ("a", "b"):
                    cands.append((i, oi, ei))
    if not cands:
        return False
    i, oi, ei = rng.choice(cands)
    lines[i]["obs"][oi][ei]["status"] = "502"
    with open(dst, "w") as f:
        for rec in lines:
            f.write(json.dumps(rec) + "\n")
    return True
