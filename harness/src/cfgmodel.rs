//! Concretisation and projection between spec/ConfigState.tla and the real
//! `sozu_command_lib::state::ConfigState` (properties C05, C06, C07).
//!
//! * `Conc::request(cmd)` turns an abstract command record of the spec (JSON) into a real `Request`.
//!   The mapping model value -> concrete data depends on `variant` (IPv4/IPv6, spelling of the
//!   invalid values, filler for the fields the spec does not model).
//! * `Conc::project(state)` maps a real ConfigState onto the spec's `Proj(st)` record (sets as arrays).
//!   It is the only place where real state is abstracted; S->I comparison and I->S logging both use it.
//! * helpers for the C05 round trips and the C06 diff check, shared by replay_config and drive_config.

use std::collections::BTreeMap;
use std::io::{Read, Seek, SeekFrom};
use std::net::SocketAddr;
use std::panic::{AssertUnwindSafe, catch_unwind};

use serde_json::{Map, Value, json};
use sozu_command_lib::buffer::fixed::Buffer;
use sozu_command_lib::certificate::calculate_fingerprint;
use sozu_command_lib::parser::parse_several_requests;
use sozu_command_lib::proto::command::{
    ActivateListener, AddBackend, AddCertificate, AlpnProtocols, CertificateAndKey, Cluster, CustomHttpAnswers,
    DeactivateListener, Header, HealthCheckConfig, HstsConfig, HttpListenerConfig, HttpsListenerConfig,
    LoadBalancingParams, PathRule, RemoveBackend, RemoveCertificate, RemoveListener, ReplaceCertificate, Request,
    RequestHttpFrontend, RequestTcpFrontend, RequestUdpFrontend, SetHealthCheck, SocketAddress, TcpListenerConfig,
    UdpListenerConfig, UpdateHttpListenerConfig, UpdateHttpsListenerConfig, UpdateTcpListenerConfig,
    UpdateUdpListenerConfig, WorkerRequest, request::RequestType,
};
use sozu_command_lib::request::read_initial_state_from_file;
use sozu_command_lib::state::ConfigState;

use crate::util::panic_message;

pub struct CertData {
    pub pem: String,
    pub key: String,
    pub fp_hex: String,
    pub names: Vec<String>,
}

pub struct Conc {
    pub variant: u64,
    pub certs: BTreeMap<String, CertData>,
    addrs: Vec<(&'static str, SocketAddr)>,
    /// stored certificate text -> spelling token, for every (certificate, spelling) but the standard one
    spelled: BTreeMap<String, &'static str>,
}

/// The spellings of spec/ConfigState.tla (AltSpellings, BadSpellings): other ways of writing the same PEM text.
pub const ALT_SPELLINGS: [&str; 6] = ["old", "tru", "crlf", "lead", "bundle", "wrap"];
pub const BAD_SPELLINGS: [&str; 2] = ["noend", "indent"];

/// `pem` written another way. Derived from the text alone (re-labelling / re-wrapping), nothing is generated:
///   old / tru  the block is labelled `X509 CERTIFICATE` (OpenSSL's PEM_STRING_X509_OLD) / `TRUSTED CERTIFICATE`
///   crlf       CRLF line ends            lead    text before the block (`openssl x509 -text` style) and after it
///   bundle     a second block follows    wrap    the base64 body wrapped at 76 columns instead of 64
///   noend      the END line is missing   indent  the base64 lines are indented (neither is readable)
pub fn respell(pem: &str, sp: &str, other: &str) -> String {
    let relabel = |l: &str| pem.replace("-----BEGIN CERTIFICATE-----", &format!("-----BEGIN {l}-----"))
        .replace("-----END CERTIFICATE-----", &format!("-----END {l}-----"));
    let is_armour = |l: &str| l.starts_with("-----");
    match sp {
        "old" => relabel("X509 CERTIFICATE"),
        "tru" => relabel("TRUSTED CERTIFICATE"),
        "crlf" => pem.replace("\r\n", "\n").replace('\n', "\r\n"),
        "lead" => format!("Certificate:\n    Data:\n        Version: 3 (0x2)\n    Signature Algorithm: sha256WithRSAEncryption\nsubject=CN = spelled\n\n{pem}\nend of file, nothing follows\n"),
        "bundle" => format!("{}\n{}", pem.trim_end(), other),
        "wrap" => {
            let body: String = pem.lines().filter(|l| !is_armour(l)).map(|l| l.trim()).collect();
            let mut out = String::new();
            for l in pem.lines().filter(|l| l.starts_with("-----BEGIN")).take(1) { out.push_str(l); out.push('\n'); }
            for chunk in body.as_bytes().chunks(76) { out.push_str(std::str::from_utf8(chunk).unwrap()); out.push('\n'); }
            for l in pem.lines().filter(|l| l.starts_with("-----END")).take(1) { out.push_str(l); out.push('\n'); }
            out
        }
        "noend" => pem.lines().filter(|l| !l.starts_with("-----END")).map(|l| format!("{l}\n")).collect(),
        "indent" => pem.lines().map(|l| if is_armour(l) { format!("{l}\n") } else { format!("  {l}\n") }).collect(),
        _ => pem.to_string(),
    }
}

const OVERRIDE_NAME: &str = "override.example.com";
const XTRACE: [&str; 3] = ["x-trace.id_1", "!#$%&'*+-.^_`|~0aZ", "X"];

fn repo_dir() -> String {
    std::env::var("VERIF_REPO").unwrap_or_else(|_| "/repo".to_string())
}

fn s(v: &Value) -> &str {
    v.as_str().unwrap_or("")
}

impl Conc {
    pub fn new(variant: u64) -> Conc {
        let mut certs = BTreeMap::new();
        let assets = format!("{}/lib/assets", repo_dir());
        for (tok, c, k) in [
            ("k1", "certificate.pem", "key.pem"),
            ("k2", "cn-ne-san-cert.pem", "cn-ne-san-key.pem"),
            ("k3", "multi-sni-cert.pem", "multi-sni-key.pem"),
        ] {
            let pem = std::fs::read_to_string(format!("{assets}/{c}")).expect("certificate asset");
            let key = std::fs::read_to_string(format!("{assets}/{k}")).expect("key asset");
            let fp = calculate_fingerprint(pem.as_bytes()).expect("asset certificate must parse");
            let ck = CertificateAndKey { certificate: pem.clone(), key: key.clone(), ..Default::default() };
            let names = ck.get_overriding_names().expect("asset certificate names");
            certs.insert(tok.to_string(), CertData { pem, key, fp_hex: hex::encode(fp), names });
        }
        // PEM armour around bytes that are not a certificate: it has a fingerprint, no names
        let garbage = "-----BEGIN CERTIFICATE-----\nAAECAwQFBgcICQoLDA0ODxAREhMUFRYXGBkaGxwdHh8gISIjJCUmJygpKissLS4v\n-----END CERTIFICATE-----\n".to_string();
        let gfp = calculate_fingerprint(garbage.as_bytes()).expect("pem garbage must have a fingerprint");
        certs.insert("kp".into(), CertData { pem: garbage, key: "no key".into(), fp_hex: hex::encode(gfp), names: vec![] });
        certs.insert("kb".into(), CertData {
            pem: if variant % 2 == 0 { "this is not PEM".into() } else { String::new() },
            key: "no key".into(),
            fp_hex: "00".into(),
            names: vec![],
        });
        let v6 = variant % 2 == 1;
        let p = |v4: &str, v6s: &str| -> SocketAddr { (if v6 { v6s } else { v4 }).parse().unwrap() };
        let addrs = vec![
            ("A1", p("127.0.0.1:8080", "[::1]:8080")),
            ("A2", p("10.1.2.3:8443", "[2001:db8::2]:8443")),
            ("x1", p("10.0.0.1:9000", "[fd00::1]:9000")),
            ("x2", p("10.0.0.2:9000", "[fd00::2]:9000")),
        ];
        let mut spelled = BTreeMap::new();
        let other = certs["k3"].pem.clone();
        for (k, c) in &certs {
            for sp in ALT_SPELLINGS.iter().chain(BAD_SPELLINGS.iter()) {
                let text = respell(&c.pem, sp, &other);
                if k != "kb" && text != c.pem {
                    spelled.insert(text, *sp);
                }
            }
        }
        Conc { variant, certs, addrs, spelled }
    }

    /// the text of certificate `k` in spelling `sp` ("" / "std": as the asset has it)
    pub fn cert_text(&self, k: &str, sp: &str) -> String {
        // "kb" (no PEM block at all) has no spellings: next to a readable block it would be that block's leading text
        if k == "kb" { return self.certs[k].pem.clone(); }
        respell(&self.certs[k].pem, sp, &self.certs["k3"].pem)
    }
    /// the spelling a command should name for certificate `k`: None when the text comes out as the standard one
    pub fn effective_spelling<'a>(&self, k: &str, sp: &'a str) -> Option<&'a str> {
        if sp.is_empty() || sp == "std" || self.cert_text(k, sp) == self.certs[k].pem { None } else { Some(sp) }
    }
    /// spelling token of a stored certificate text (None: the standard spelling, or a text never sent)
    pub fn spelling_tok(&self, k: &str, text: &str) -> Option<String> {
        match self.certs.get(k) {
            Some(c) if c.pem == text => None,
            _ => Some(self.spelled.get(text).map(|s| s.to_string()).unwrap_or_else(|| format!("unknown-text:{}", text.len()))),
        }
    }

    /// bind an address token to a concrete address (worker legs use free local ports)
    pub fn set_addr(&mut self, tok: &'static str, a: SocketAddr) {
        self.addrs.retain(|(t, _)| *t != tok);
        self.addrs.push((tok, a));
    }

    // ---------------------------------------------------------------- tokens
    pub fn addr(&self, tok: &str) -> SocketAddr {
        self.addrs.iter().find(|(t, _)| *t == tok).map(|(_, a)| *a).unwrap_or_else(|| tok.parse().expect("address token"))
    }
    pub fn saddr(&self, tok: &Value) -> SocketAddress {
        self.addr(s(tok)).into()
    }
    pub fn addr_tok(&self, a: &SocketAddr) -> String {
        self.addrs.iter().find(|(_, x)| x == a).map(|(t, _)| t.to_string()).unwrap_or_else(|| a.to_string())
    }
    fn cluster(&self, tok: &str) -> String {
        match tok { "c1" => "cluster_1".into(), "c2" => "cluster-2".into(), o => o.into() }
    }
    fn cluster_tok(&self, c: &str) -> String {
        match c { "cluster_1" => "c1".into(), "cluster-2" => "c2".into(), o => o.into() }
    }
    fn backend(&self, tok: &str) -> String {
        match tok { "b1" => "backend-1".into(), "b2" => "backend-2".into(), o => o.into() }
    }
    fn backend_tok(&self, b: &str) -> String {
        match b { "backend-1" => "b1".into(), "backend-2" => "b2".into(), o => o.into() }
    }
    fn host(&self, tok: &str) -> String {
        match tok { "h1" => "a.example.com".into(), "h2" => "b.example.com".into(), o => o.into() }
    }
    fn host_tok(&self, h: &str) -> String {
        match h { "a.example.com" => "h1".into(), "b.example.com" => "h2".into(), o => o.into() }
    }
    fn tags(&self, tok: &str) -> BTreeMap<String, String> {
        match tok {
            "t1" => [("owner".to_string(), "team-a".to_string()), ("env".to_string(), "prod".to_string())].into_iter().collect(),
            _ => BTreeMap::new(),
        }
    }
    fn tags_tok(&self, t: &BTreeMap<String, String>) -> String {
        if t.is_empty() { "t0".into() } else if *t == self.tags("t1") { "t1".into() } else { format!("{t:?}") }
    }
    fn sid(&self, tok: &str) -> Option<String> {
        match tok {
            "none" => None,
            "X-Id" => Some("X-Sozu-Corr".into()),
            // valid names at the edge of the token grammar the patch validator applies, one per variant
            "X-Trace" => Some(XTRACE[(self.variant % 3) as usize].into()),
            "bad header" => Some(["bad header", "bad:header", "bad\r\nheader"][(self.variant % 3) as usize].into()),
            o => Some(o.into()),
        }
    }
    fn sid_tok(&self, v: &Option<String>) -> String {
        match v.as_deref() {
            None => "none".into(),
            Some("X-Sozu-Corr") => "X-Id".into(),
            Some(x) if XTRACE.contains(&x) => "X-Trace".into(),
            Some(o) => o.into(),
        }
    }
    fn answer(&self, tok: &str) -> Option<String> {
        if tok == "-" { None } else { Some(format!("HTTP/1.1 404 Not Found\r\nX-Answer: {tok}\r\n\r\n")) }
    }
    fn answer_tok(&self, v: &Option<String>) -> String {
        match v {
            None => "-".into(),
            Some(a) => a.strip_prefix("HTTP/1.1 404 Not Found\r\nX-Answer: ").and_then(|r| r.strip_suffix("\r\n\r\n")).unwrap_or(a).to_string(),
        }
    }
    fn ltype(&self, tok: &str) -> i32 {
        match tok { "http" => 0, "https" => 1, "tcp" => 2, "udp" => 3, _ => 9 + (self.variant % 5) as i32 }
    }
    fn names(&self, toks: &Value) -> Vec<String> {
        let mut out = Vec::new();
        for t in toks.as_array().map(|a| a.as_slice()).unwrap_or(&[]) {
            match s(t) {
                "ov" => out.push(OVERRIDE_NAME.to_string()),
                k if self.certs.contains_key(k) => out.extend(self.certs[k].names.iter().cloned()),
                o => out.push(o.to_string()),
            }
        }
        out
    }
    fn names_tok(&self, names: &[String]) -> Value {
        if names.is_empty() {
            return json!([]);
        }
        if names.len() == 1 && names[0] == OVERRIDE_NAME {
            return json!(["ov"]);
        }
        for (k, c) in &self.certs {
            if !c.names.is_empty() && c.names == names {
                return json!([k]);
            }
        }
        json!(names)
    }
    fn fp_hex(&self, tok: &str) -> String {
        match tok {
            "nothex" => ["zz-not-hex", "abc", "0x12"][(self.variant % 3) as usize].to_string(),
            k if self.certs.contains_key(k) => self.certs[k].fp_hex.clone(),
            o => o.to_string(),
        }
    }
    fn fp_tok(&self, hexfp: &str) -> String {
        self.certs.iter().find(|(_, c)| c.fp_hex == hexfp).map(|(k, _)| k.clone()).unwrap_or_else(|| hexfp.to_string())
    }
    fn cert(&self, k: &str, names: &Value, sp: &str) -> CertificateAndKey {
        let c = &self.certs[k];
        CertificateAndKey {
            certificate: self.cert_text(k, sp),
            certificate_chain: if self.variant % 2 == 1 && k == "k1" { vec![c.pem.clone()] } else { vec![] },
            // the key is opaque to ConfigState; it travels with the text in the same dress
            key: match sp { "crlf" => c.key.replace('\n', "\r\n"), "lead" => format!("Private-Key: (2048 bit)\n{}", c.key), _ => c.key.clone() },
            versions: if self.variant % 3 == 2 { vec![4, 5] } else { vec![] },
            names: self.names(names),
        }
    }

    // ------------------------------------------------------------- listeners
    fn answers(&self, present: bool, a404: &str, a503: &str) -> Option<CustomHttpAnswers> {
        if !present {
            return None;
        }
        Some(CustomHttpAnswers { answer_404: self.answer(a404), answer_503: self.answer(a503), ..Default::default() })
    }

    pub fn http_listener(&self, v: &Value) -> HttpListenerConfig {
        let fill = self.variant % 2 == 1;
        HttpListenerConfig {
            address: self.saddr(&v["a"]),
            public_address: if fill { Some("192.0.2.1:80".parse::<SocketAddr>().unwrap().into()) } else { None },
            expect_proxy: v["exp"].as_bool().unwrap(),
            sticky_name: "SOZUBALANCEID".into(),
            front_timeout: v["ft"].as_u64().unwrap() as u32,
            active: v["active"].as_bool().unwrap(),
            http_answers: self.answers(v["ansP"].as_bool().unwrap(), s(&v["a404"]), s(&v["a503"])),
            h2_max_ping_per_window: match v["knob"].as_u64().unwrap() { 0 => None, n => Some(n as u32) },
            h2_stream_shrink_ratio: match v["shr"].as_u64().unwrap() { 0 => None, n => Some(n as u32) },
            sozu_id_header: self.sid(s(&v["sid"])),
            answers: if fill { [("503".to_string(), "custom".to_string())].into_iter().collect() } else { BTreeMap::new() },
            h2_max_header_fields: if fill { Some(128) } else { None },
            elide_x_real_ip: if fill { Some(true) } else { None },
            ..Default::default()
        }
    }
    pub fn https_listener(&self, v: &Value) -> HttpsListenerConfig {
        let fill = self.variant % 2 == 1;
        HttpsListenerConfig {
            address: self.saddr(&v["a"]),
            expect_proxy: v["exp"].as_bool().unwrap(),
            sticky_name: "SOZUBALANCEID".into(),
            front_timeout: v["ft"].as_u64().unwrap() as u32,
            active: v["active"].as_bool().unwrap(),
            http_answers: self.answers(v["ansP"].as_bool().unwrap(), s(&v["a404"]), s(&v["a503"])),
            h2_max_ping_per_window: match v["knob"].as_u64().unwrap() { 0 => None, n => Some(n as u32) },
            h2_stream_shrink_ratio: match v["shr"].as_u64().unwrap() { 0 => None, n => Some(n as u32) },
            sozu_id_header: self.sid(s(&v["sid"])),
            alpn_protocols: v["alpn"].as_array().unwrap().iter().map(|x| s(x).to_string()).collect(),
            strict_sni_binding: match s(&v["sni"]) { "true" => Some(true), "false" => Some(false), _ => None },
            versions: if fill { vec![4, 5] } else { vec![] },
            cipher_list: if fill { vec!["TLS13_AES_128_GCM_SHA256".into()] } else { vec![] },
            send_tls13_tickets: if fill { 2 } else { 0 },
            ..Default::default()
        }
    }
    pub fn tcp_listener(&self, v: &Value) -> TcpListenerConfig {
        TcpListenerConfig {
            address: self.saddr(&v["a"]),
            expect_proxy: v["exp"].as_bool().unwrap(),
            front_timeout: v["ft"].as_u64().unwrap() as u32,
            active: v["active"].as_bool().unwrap(),
            back_timeout: 30 + (self.variant % 2) as u32,
            ..Default::default()
        }
    }
    pub fn udp_listener(&self, v: &Value) -> UdpListenerConfig {
        UdpListenerConfig {
            address: self.saddr(&v["a"]),
            front_timeout: v["ft"].as_u64().unwrap() as u32,
            max_flows: v["mf"].as_u64().unwrap() as u32,
            active: v["active"].as_bool().unwrap(),
            ..Default::default()
        }
    }

    fn patch_answers(&self, p: &Value) -> Option<CustomHttpAnswers> {
        let a = p.get("ans")?;
        Some(CustomHttpAnswers {
            answer_404: a.get("a404").and_then(|t| self.answer(s(t))),
            answer_503: a.get("a503").and_then(|t| self.answer(s(t))),
            ..Default::default()
        })
    }

    // ------------------------------------------------------------- requests
    pub fn http_front(&self, f: &Value) -> RequestHttpFrontend {
        let rich = s(&f["rd"]) == "perm";
        RequestHttpFrontend {
            cluster_id: match s(&f["cl"]) { "deny" => None, c => Some(self.cluster(c)) },
            address: self.saddr(&f["a"]),
            hostname: self.host(s(&f["h"])),
            path: PathRule {
                kind: match s(&f["pk"]) { "prefix" => 0, "regex" => 1, "equals" => 2, _ => 9 },
                value: s(&f["pv"]).to_string(),
            },
            method: match s(&f["m"]) { "none" => None, m => Some(m.to_string()) },
            position: match s(&f["pos"]) { "pre" => 0, "post" => 1, "tree" => 2, _ => 7 + (self.variant % 3) as i32 },
            tags: self.tags(s(&f["tg"])),
            redirect: if rich { Some(1) } else { None },
            redirect_scheme: if rich { Some(2) } else { None },
            redirect_template: if rich { Some("https://%host/%path".into()) } else { None },
            required_auth: if rich { Some(true) } else { None },
            rewrite_host: if rich && self.variant % 2 == 1 { Some("rewritten.example.com".into()) } else { None },
            rewrite_path: None,
            rewrite_port: if rich { Some(8443) } else { None },
            headers: if rich { vec![Header { position: 2, key: "X-Added".into(), val: "1".into() }] } else { vec![] },
            hsts: if rich { Some(HstsConfig { enabled: Some(true), max_age: Some(31536000), ..Default::default() }) } else { None },
        }
    }

    pub fn cluster_value(&self, v: &Value) -> Cluster {
        let fill = self.variant % 2 == 1;
        Cluster {
            cluster_id: self.cluster(s(&v["c"])),
            sticky_session: v["sticky"].as_bool().unwrap(),
            https_redirect: fill,
            load_balancing: match s(&v["lb"]) { "rr" => 0, "rnd" => 1, _ => 99 },
            health_check: self.health_check(s(&v["hc"])),
            answer_503: if fill { Some("custom 503".into()) } else { None },
            authorized_hashes: if fill { vec!["abcd".into()] } else { vec![] },
            http2: if fill { Some(true) } else { None },
            ..Default::default()
        }
    }
    fn health_check(&self, tok: &str) -> Option<HealthCheckConfig> {
        match tok {
            "none" => None,
            "h1" => Some(HealthCheckConfig { uri: "/health".into(), ..Default::default() }),
            // valid configurations at the edge of what validate_health_check_config lets through, one per variant
            "h2" => Some(match self.variant % 3 {
                0 => HealthCheckConfig { uri: "/ready".into(), interval: 7, expected_status: 204, ..Default::default() },
                1 => HealthCheckConfig { uri: "/ready?probe=1&sp=%20#frag".into(), interval: 1, timeout: 1, healthy_threshold: 1,
                                         unhealthy_threshold: 1, expected_status: 0 },
                _ => HealthCheckConfig { uri: "/ready\t;\u{e9}\u{7f}".into(), interval: u32::MAX, timeout: u32::MAX,
                                         healthy_threshold: u32::MAX, unhealthy_threshold: u32::MAX, expected_status: u32::MAX },
            }),
            _ => Some(match self.variant % 3 {
                0 => HealthCheckConfig { uri: "no-leading-slash".into(), ..Default::default() },
                1 => HealthCheckConfig { uri: "/x".into(), interval: 0, ..Default::default() },
                _ => HealthCheckConfig { uri: "/x\r\nHost: evil".into(), ..Default::default() },
            }),
        }
    }
    fn health_check_tok(&self, h: &Option<HealthCheckConfig>) -> String {
        match h {
            None => "none".into(),
            Some(c) if c.uri == "/health" => "h1".into(),
            Some(c) if c.uri.starts_with("/ready") => "h2".into(),
            Some(c) => format!("hc:{}", c.uri),
        }
    }

    /// abstract command record of the spec -> real Request
    pub fn request(&self, c: &Value) -> Request {
        let verb = s(&c["verb"]);
        let rt = match verb {
            "AddHttpListener" => RequestType::AddHttpListener(self.http_listener(&c["v"])),
            "AddHttpsListener" => RequestType::AddHttpsListener(self.https_listener(&c["v"])),
            "AddTcpListener" => RequestType::AddTcpListener(self.tcp_listener(&c["v"])),
            "AddUdpListener" => RequestType::AddUdpListener(self.udp_listener(&c["v"])),
            "RemoveListener" => RequestType::RemoveListener(RemoveListener { address: self.saddr(&c["a"]), proxy: self.ltype(s(&c["k"])) }),
            "ActivateListener" => RequestType::ActivateListener(ActivateListener {
                address: self.saddr(&c["a"]), proxy: self.ltype(s(&c["k"])), from_scm: false }),
            "DeactivateListener" => RequestType::DeactivateListener(DeactivateListener {
                address: self.saddr(&c["a"]), proxy: self.ltype(s(&c["k"])), to_scm: false }),
            "UpdateHttpListener" => {
                let p = &c["p"];
                RequestType::UpdateHttpListener(UpdateHttpListenerConfig {
                    address: self.saddr(&c["a"]),
                    // filler written before the validated fields: a partial application shows up in full equality
                    back_timeout: Some(31 + (self.variant % 7) as u32),
                    sticky_name: Some("PATCHED".into()),
                    front_timeout: p.get("ft").map(|x| x.as_u64().unwrap() as u32),
                    expect_proxy: p.get("exp").and_then(|x| x.as_bool()),
                    h2_max_ping_per_window: p.get("knob").map(|x| x.as_u64().unwrap() as u32),
                    h2_stream_shrink_ratio: p.get("shr").map(|x| x.as_u64().unwrap() as u32),
                    sozu_id_header: p.get("sid").map(|x| self.sid(s(x)).unwrap_or_default()),
                    http_answers: self.patch_answers(p),
                    ..Default::default()
                })
            }
            "UpdateHttpsListener" => {
                let p = &c["p"];
                RequestType::UpdateHttpsListener(UpdateHttpsListenerConfig {
                    address: self.saddr(&c["a"]),
                    back_timeout: Some(31 + (self.variant % 7) as u32),
                    sticky_name: Some("PATCHED".into()),
                    disable_http11: Some(false),
                    front_timeout: p.get("ft").map(|x| x.as_u64().unwrap() as u32),
                    expect_proxy: p.get("exp").and_then(|x| x.as_bool()),
                    h2_max_ping_per_window: p.get("knob").map(|x| x.as_u64().unwrap() as u32),
                    h2_stream_shrink_ratio: p.get("shr").map(|x| x.as_u64().unwrap() as u32),
                    sozu_id_header: p.get("sid").map(|x| self.sid(s(x)).unwrap_or_default()),
                    http_answers: self.patch_answers(p),
                    alpn_protocols: p.get("alpn").map(|x| AlpnProtocols {
                        values: x.as_array().unwrap().iter().map(|y| s(y).to_string()).collect() }),
                    strict_sni_binding: p.get("sni").map(|x| s(x) == "true"),
                    ..Default::default()
                })
            }
            "UpdateTcpListener" => {
                let p = &c["p"];
                RequestType::UpdateTcpListener(UpdateTcpListenerConfig {
                    address: self.saddr(&c["a"]),
                    front_timeout: p.get("ft").map(|x| x.as_u64().unwrap() as u32),
                    expect_proxy: p.get("exp").and_then(|x| x.as_bool()),
                    connect_timeout: Some(4),
                    ..Default::default()
                })
            }
            "UpdateUdpListener" => {
                let p = &c["p"];
                RequestType::UpdateUdpListener(UpdateUdpListenerConfig {
                    address: self.saddr(&c["a"]),
                    front_timeout: p.get("ft").map(|x| x.as_u64().unwrap() as u32),
                    max_flows: p.get("mf").map(|x| x.as_u64().unwrap() as u32),
                    ..Default::default()
                })
            }
            "AddCluster" => RequestType::AddCluster(self.cluster_value(&c["v"])),
            "RemoveCluster" => RequestType::RemoveCluster(self.cluster(s(&c["c"]))),
            "SetHealthCheck" => RequestType::SetHealthCheck(SetHealthCheck {
                cluster_id: self.cluster(s(&c["c"])),
                config: self.health_check(s(&c["hc"])).unwrap(),
            }),
            "RemoveHealthCheck" => RequestType::RemoveHealthCheck(self.cluster(s(&c["c"]))),
            "AddBackend" => {
                let rich = c["w"].as_u64().unwrap() == 1;
                RequestType::AddBackend(AddBackend {
                    cluster_id: self.cluster(s(&c["c"])),
                    backend_id: self.backend(s(&c["b"])),
                    address: self.saddr(&c["x"]),
                    sticky_id: if rich { Some("sticky-1".into()) } else { None },
                    load_balancing_parameters: if rich { Some(LoadBalancingParams { weight: 5 }) } else { None },
                    backup: if rich { Some(true) } else { None },
                })
            }
            "RemoveBackend" => RequestType::RemoveBackend(RemoveBackend {
                cluster_id: self.cluster(s(&c["c"])), backend_id: self.backend(s(&c["b"])), address: self.saddr(&c["x"]) }),
            "AddHttpFrontend" => RequestType::AddHttpFrontend(self.http_front(&c["f"])),
            "AddHttpsFrontend" => RequestType::AddHttpsFrontend(self.http_front(&c["f"])),
            "RemoveHttpFrontend" => RequestType::RemoveHttpFrontend(self.http_front(&c["f"])),
            "RemoveHttpsFrontend" => RequestType::RemoveHttpsFrontend(self.http_front(&c["f"])),
            "AddCertificate" => RequestType::AddCertificate(AddCertificate {
                address: self.saddr(&c["a"]),
                certificate: self.cert(s(&c["k"]), &c["n"], s(&c["sp"])),
                expired_at: if self.variant % 2 == 1 { Some(1_900_000_000) } else { None },
            }),
            "RemoveCertificate" => RequestType::RemoveCertificate(RemoveCertificate {
                address: self.saddr(&c["a"]), fingerprint: self.fp_hex(s(&c["fp"])) }),
            "ReplaceCertificate" => RequestType::ReplaceCertificate(ReplaceCertificate {
                address: self.saddr(&c["a"]),
                new_certificate: self.cert(s(&c["k"]), &c["n"], s(&c["sp"])),
                old_fingerprint: self.fp_hex(s(&c["old"])),
                new_expired_at: None,
            }),
            "AddTcpFrontend" => RequestType::AddTcpFrontend(RequestTcpFrontend {
                cluster_id: self.cluster(s(&c["c"])), address: self.saddr(&c["a"]), tags: self.tags(s(&c["t"])) }),
            "RemoveTcpFrontend" => RequestType::RemoveTcpFrontend(RequestTcpFrontend {
                cluster_id: self.cluster(s(&c["c"])), address: self.saddr(&c["a"]), tags: self.tags(s(&c["t"])) }),
            "AddUdpFrontend" => RequestType::AddUdpFrontend(RequestUdpFrontend {
                cluster_id: self.cluster(s(&c["c"])), address: self.saddr(&c["a"]), tags: self.tags(s(&c["t"])) }),
            "RemoveUdpFrontend" => RequestType::RemoveUdpFrontend(RequestUdpFrontend {
                cluster_id: self.cluster(s(&c["c"])), address: self.saddr(&c["a"]), tags: self.tags(s(&c["t"])) }),
            other => panic!("unknown verb in spec command: {other}"),
        };
        rt.into()
    }

    // ------------------------------------------------------------ projection
    fn listener_rec(&self, k: &str, a: &SocketAddr) -> Map<String, Value> {
        let mut m = Map::new();
        m.insert("k".into(), json!(k));
        m.insert("a".into(), json!(self.addr_tok(a)));
        for (f, v) in [("sid", json!("none")), ("knob", json!(0)), ("shr", json!(0)), ("ansP", json!(false)),
                       ("a404", json!("-")), ("a503", json!("-")), ("alpn", json!([])), ("sni", json!("none")),
                       ("mf", json!(0)), ("exp", json!(false))] {
            m.insert(f.into(), v);
        }
        m
    }

    /// real ConfigState -> the spec's Proj(st) (sets as arrays, canonical order)
    pub fn project(&self, st: &ConfigState) -> Value {
        let mut lst = Vec::new();
        for (a, l) in &st.http_listeners {
            let mut m = self.listener_rec("http", a);
            m.insert("active".into(), json!(l.active));
            m.insert("ft".into(), json!(l.front_timeout));
            m.insert("exp".into(), json!(l.expect_proxy));
            m.insert("sid".into(), json!(self.sid_tok(&l.sozu_id_header)));
            m.insert("knob".into(), json!(l.h2_max_ping_per_window.unwrap_or(0)));
            m.insert("shr".into(), json!(l.h2_stream_shrink_ratio.unwrap_or(0)));
            if let Some(ans) = &l.http_answers {
                m.insert("ansP".into(), json!(true));
                m.insert("a404".into(), json!(self.answer_tok(&ans.answer_404)));
                m.insert("a503".into(), json!(self.answer_tok(&ans.answer_503)));
            }
            lst.push(Value::Object(m));
        }
        for (a, l) in &st.https_listeners {
            let mut m = self.listener_rec("https", a);
            m.insert("active".into(), json!(l.active));
            m.insert("ft".into(), json!(l.front_timeout));
            m.insert("exp".into(), json!(l.expect_proxy));
            m.insert("sid".into(), json!(self.sid_tok(&l.sozu_id_header)));
            m.insert("knob".into(), json!(l.h2_max_ping_per_window.unwrap_or(0)));
            m.insert("shr".into(), json!(l.h2_stream_shrink_ratio.unwrap_or(0)));
            if let Some(ans) = &l.http_answers {
                m.insert("ansP".into(), json!(true));
                m.insert("a404".into(), json!(self.answer_tok(&ans.answer_404)));
                m.insert("a503".into(), json!(self.answer_tok(&ans.answer_503)));
            }
            m.insert("alpn".into(), json!(l.alpn_protocols));
            m.insert("sni".into(), json!(match l.strict_sni_binding { None => "none", Some(true) => "true", Some(false) => "false" }));
            lst.push(Value::Object(m));
        }
        for (a, l) in &st.tcp_listeners {
            let mut m = self.listener_rec("tcp", a);
            m.insert("active".into(), json!(l.active));
            m.insert("ft".into(), json!(l.front_timeout));
            m.insert("exp".into(), json!(l.expect_proxy));
            lst.push(Value::Object(m));
        }
        for (a, l) in &st.udp_listeners {
            let mut m = self.listener_rec("udp", a);
            m.insert("active".into(), json!(l.active));
            m.insert("ft".into(), json!(l.front_timeout));
            m.insert("mf".into(), json!(l.max_flows));
            lst.push(Value::Object(m));
        }
        let clu: Vec<Value> = st.clusters.iter().map(|(id, c)| json!({
            "c": self.cluster_tok(id),
            "sticky": c.sticky_session,
            "lb": match c.load_balancing { 0 => "rr".to_string(), 1 => "rnd".to_string(), 99 => "bad".to_string(), n => n.to_string() },
            "hc": self.health_check_tok(&c.health_check),
            // the key a value is filed under must be the value's own id
            "keyok": *id == c.cluster_id,
        })).map(|mut v| { if v["keyok"] == json!(true) { v.as_object_mut().unwrap().remove("keyok"); } v }).collect();
        let mut bke = Vec::new();
        let mut bbk = Vec::new();
        for (cid, list) in &st.backends {
            bbk.push(json!(self.cluster_tok(cid)));
            for b in list {
                let rich = b.sticky_id.as_deref() == Some("sticky-1")
                    && b.load_balancing_parameters == Some(LoadBalancingParams { weight: 5 }) && b.backup == Some(true);
                let plain = b.sticky_id.is_none() && b.load_balancing_parameters.is_none() && b.backup.is_none();
                let mut v = json!({"c": self.cluster_tok(&b.cluster_id), "b": self.backend_tok(&b.backend_id), "x": self.addr_tok(&b.address),
                    "w": if rich { json!(1) } else if plain { json!(0) } else { json!(format!("{:?}/{:?}/{:?}", b.sticky_id, b.load_balancing_parameters, b.backup)) }});
                if *cid != b.cluster_id {
                    v["bucket"] = json!(self.cluster_tok(cid));
                }
                bke.push(v);
            }
        }
        let mut hfr = Vec::new();
        for (proto, map) in [("http", &st.http_fronts), ("https", &st.https_fronts)] {
            for (key, f) in map {
                let req: RequestHttpFrontend = f.clone().into();
                let rich = f.redirect == Some(1);
                let mut v = json!({
                    "p": proto, "a": self.addr_tok(&f.address), "h": self.host_tok(&f.hostname),
                    "pk": match f.path.kind { 0 => "prefix".to_string(), 1 => "regex".to_string(), 2 => "equals".to_string(), n => n.to_string() },
                    "pv": f.path.value, "m": f.method.clone().unwrap_or_else(|| "none".into()),
                    "cl": match &f.cluster_id { None => "deny".to_string(), Some(c) => self.cluster_tok(c) },
                    "pos": format!("{:?}", f.position).to_lowercase(),
                    "tg": self.tags_tok(&f.tags.clone().unwrap_or_default()),
                    "rd": if rich { "perm".to_string() } else if f.redirect.is_none() { "none".to_string() } else { format!("{:?}", f.redirect) },
                });
                if *key != req.to_string() {
                    v["key"] = json!(key);
                }
                hfr.push(v);
            }
        }
        let mut crt = Vec::new();
        let mut cbk = Vec::new();
        for (a, certs) in &st.certificates {
            cbk.push(json!(self.addr_tok(a)));
            for (fp, c) in certs {
                let k = self.fp_tok(&fp.to_string());
                let mut v = json!({"a": self.addr_tok(a), "k": k, "n": self.names_tok(&c.names)});
                // the text is stored as it was written: its spelling is part of the certificate (absent = standard)
                if let Some(sp) = self.spelling_tok(&k, &c.certificate) {
                    v["sp"] = json!(sp);
                }
                // the entry must be filed under the fingerprint of its own certificate
                match calculate_fingerprint(c.certificate.as_bytes()) {
                    Ok(real) if hex::encode(&real) == fp.to_string() => {}
                    _ => { v["fp_mismatch"] = json!(true); }
                }
                crt.push(v);
            }
        }
        let mut tfr = Vec::new();
        let mut tbk = Vec::new();
        for (cid, list) in &st.tcp_fronts {
            tbk.push(json!({"p": "tcp", "c": self.cluster_tok(cid)}));
            for f in list {
                tfr.push(json!({"p": "tcp", "c": self.cluster_tok(&f.cluster_id), "a": self.addr_tok(&f.address), "t": self.tags_tok(&f.tags)}));
            }
        }
        for (cid, list) in &st.udp_fronts {
            tbk.push(json!({"p": "udp", "c": self.cluster_tok(cid)}));
            for f in list {
                tfr.push(json!({"p": "udp", "c": self.cluster_tok(&f.cluster_id), "a": self.addr_tok(&f.address), "t": self.tags_tok(&f.tags)}));
            }
        }
        canon_state(&json!({"lst": lst, "clu": clu, "bke": bke, "bbk": bbk, "hfr": hfr, "crt": crt, "cbk": cbk, "tfr": tfr, "tbk": tbk}))
    }
}

// ---------------------------------------------------------------------------
// canonical JSON

pub fn canon_str(v: &Value) -> String {
    match v {
        Value::Object(m) => {
            let mut keys: Vec<&String> = m.keys().collect();
            keys.sort();
            let parts: Vec<String> = keys.iter().map(|k| format!("{}:{}", serde_json::to_string(k).unwrap(), canon_str(&m[*k]))).collect();
            format!("{{{}}}", parts.join(","))
        }
        Value::Array(a) => format!("[{}]", a.iter().map(canon_str).collect::<Vec<_>>().join(",")),
        other => other.to_string(),
    }
}

pub const STATE_FIELDS: [&str; 9] = ["lst", "clu", "bke", "bbk", "hfr", "crt", "cbk", "tfr", "tbk"];

/// sort the set-valued fields of a projected state (as multisets: duplicates are kept and visible)
pub fn canon_state(v: &Value) -> Value {
    let mut out = Map::new();
    for f in STATE_FIELDS {
        let mut items: Vec<Value> = v.get(f).and_then(|x| x.as_array()).cloned().unwrap_or_default();
        items.sort_by_key(canon_str);
        out.insert(f.to_string(), Value::Array(items));
    }
    Value::Object(out)
}

/// the spec's Delta(s, t) applied to a canonical projected state: the named base maps are replaced, the
/// bucket fields are recomputed from them exactly as Proj does
pub fn apply_delta(pre: &Value, delta: &Value) -> Value {
    let mut m = pre.as_object().unwrap().clone();
    if let Some(d) = delta.as_object() {
        for (k, v) in d {
            m.insert(k.clone(), v.clone());
        }
    }
    let uniq = |items: Vec<Value>| -> Vec<Value> {
        let mut seen = std::collections::BTreeMap::new();
        for i in items {
            seen.insert(canon_str(&i), i);
        }
        seen.into_values().collect()
    };
    let arr = |m: &Map<String, Value>, f: &str| -> Vec<Value> { m.get(f).and_then(|x| x.as_array()).cloned().unwrap_or_default() };
    let bbk = uniq(arr(&m, "bke").iter().map(|b| b["c"].clone()).collect());
    let cbk = uniq(arr(&m, "crt").iter().map(|b| b["a"].clone()).collect());
    let tbk = uniq(arr(&m, "tfr").iter().map(|b| json!({"p": b["p"], "c": b["c"]})).collect());
    m.insert("bbk".into(), Value::Array(bbk));
    m.insert("cbk".into(), Value::Array(cbk));
    m.insert("tbk".into(), Value::Array(tbk));
    canon_state(&Value::Object(m))
}

/// {verb: count} of a request list; the spec's Sig (an empty function arrives as [])
pub fn verb_counts(reqs: &[Request]) -> BTreeMap<String, u64> {
    let mut m = BTreeMap::new();
    for r in reqs {
        *m.entry(r.short_name().to_string()).or_insert(0) += 1;
    }
    m
}
pub fn sig_of(v: &Value) -> BTreeMap<String, u64> {
    v.as_object().map(|o| o.iter().map(|(k, n)| (k.clone(), n.as_u64().unwrap_or(0))).collect()).unwrap_or_default()
}

// ---------------------------------------------------------------------------
// real-state helpers

/// the configuration proper: everything but the request census
pub fn cfg_of(st: &ConfigState) -> ConfigState {
    let mut c = st.clone();
    c.request_counts.clear();
    c
}

/// ... with empty buckets dropped (C06 compares modulo empty buckets)
pub fn norm_of(st: &ConfigState) -> ConfigState {
    let mut c = cfg_of(st);
    c.backends.retain(|_, v| !v.is_empty());
    c.tcp_fronts.retain(|_, v| !v.is_empty());
    c.udp_fronts.retain(|_, v| !v.is_empty());
    c.certificates.retain(|_, v| !v.is_empty());
    c
}

/// which maps differ between two configurations (for messages)
pub fn differing_maps(a: &ConfigState, b: &ConfigState) -> Vec<&'static str> {
    let mut v = Vec::new();
    if a.clusters != b.clusters { v.push("clusters"); }
    if a.backends != b.backends { v.push("backends"); }
    if a.http_listeners != b.http_listeners { v.push("http_listeners"); }
    if a.https_listeners != b.https_listeners { v.push("https_listeners"); }
    if a.tcp_listeners != b.tcp_listeners { v.push("tcp_listeners"); }
    if a.udp_listeners != b.udp_listeners { v.push("udp_listeners"); }
    if a.http_fronts != b.http_fronts { v.push("http_fronts"); }
    if a.https_fronts != b.https_fronts { v.push("https_fronts"); }
    if a.tcp_fronts != b.tcp_fronts { v.push("tcp_fronts"); }
    if a.udp_fronts != b.udp_fronts { v.push("udp_fronts"); }
    if a.certificates != b.certificates { v.push("certificates"); }
    if a.request_counts != b.request_counts { v.push("request_counts"); }
    v
}

/// dispatch with the panic caught: Ok(true) accepted, Ok(false) rejected, Err(panic message)
pub fn dispatch(st: &mut ConfigState, r: &Request) -> Result<bool, String> {
    match catch_unwind(AssertUnwindSafe(|| st.dispatch(r).is_ok())) {
        Ok(b) => Ok(b),
        Err(e) => Err(panic_message(e)),
    }
}

pub fn replay_on_empty(reqs: &[Request]) -> Result<(ConfigState, usize), String> {
    let mut st = ConfigState::new();
    let mut rejected = 0;
    for r in reqs {
        if !dispatch(&mut st, r)? {
            rejected += 1;
        }
    }
    Ok((st, rejected))
}

/// One C05 problem: (class suffix, human detail)
pub type Problem = (String, String);

fn check_replay(path: &str, reqs: &[Request], orig: &ConfigState, out: &mut Vec<Problem>) {
    match replay_on_empty(reqs) {
        Err(p) => out.push((format!("{path}:panic"), format!("replay panicked: {p}"))),
        Ok((st, rejected)) => {
            if rejected > 0 {
                out.push((format!("{path}:rejected"), format!("{rejected} of {} generated requests were rejected by an empty instance", reqs.len())));
            }
            if cfg_of(&st) != cfg_of(orig) {
                out.push((format!("{path}:differs"), format!("replayed configuration differs in {:?}", differing_maps(&cfg_of(&st), &cfg_of(orig)))));
            }
        }
    }
}

/// Reorder the generated requests the way another HashMap iteration order could: certificates come from a
/// map of maps (any order), tcp/udp frontends from a map of per-cluster lists (the clusters in any order, the
/// list of one cluster in its own order).
pub fn shuffle_hash_groups(reqs: &[Request], rnd: &mut dyn FnMut(usize) -> usize) -> Vec<Request> {
    let mut v = reqs.to_vec();
    let mut i = 0;
    while i < v.len() {
        let name = v[i].short_name().to_string();
        let mut j = i;
        while j < v.len() && v[j].short_name() == name {
            j += 1;
        }
        match name.as_str() {
            "AddCertificate" => {
                for k in (i + 1..j).rev() {
                    let o = i + rnd(k - i + 1);
                    v.swap(k, o);
                }
            }
            "AddTcpFrontend" | "AddUdpFrontend" => {
                let cluster_of = |r: &Request| -> String {
                    match &r.request_type {
                        Some(RequestType::AddTcpFrontend(f)) => f.cluster_id.clone(),
                        Some(RequestType::AddUdpFrontend(f)) => f.cluster_id.clone(),
                        _ => String::new(),
                    }
                };
                let mut groups: Vec<(String, Vec<Request>)> = Vec::new();
                for r in &v[i..j] {
                    let c = cluster_of(r);
                    match groups.iter_mut().find(|(k, _)| *k == c) {
                        Some((_, g)) => g.push(r.clone()),
                        None => groups.push((c, vec![r.clone()])),
                    }
                }
                for k in (1..groups.len()).rev() {
                    let o = rnd(k + 1);
                    groups.swap(k, o);
                }
                let flat: Vec<Request> = groups.into_iter().flat_map(|(_, g)| g).collect();
                v.splice(i..j, flat);
            }
            _ => {}
        }
        i = j;
    }
    v
}

/// All save/replay paths of C05 on the real code. `files`: also the two file encodings.
pub fn c05_round_trips(st: &ConfigState, files: bool, rnd: &mut dyn FnMut(usize) -> usize) -> (Vec<Problem>, Option<Vec<Request>>) {
    let mut out = Vec::new();
    // 1. in-memory requests (worker bootstrap)
    let init = match catch_unwind(AssertUnwindSafe(|| st.produce_initial_state())) {
        Ok(i) => i,
        Err(e) => {
            out.push(("generate:panic".into(), format!("produce_initial_state panicked: {}", panic_message(e))));
            return (out, None);
        }
    };
    let reqs: Vec<Request> = init.requests.iter().map(|w| w.content.clone()).collect();
    check_replay("memory", &reqs, st, &mut out);
    let shuffled = shuffle_hash_groups(&reqs, rnd);
    if shuffled != reqs {
        check_replay("memory-permuted", &shuffled, st, &mut out);
    }
    // 2. JSON of the whole state (upgrade hand-off)
    match serde_json::to_string(st) {
        Err(e) => out.push(("json:serialize".into(), e.to_string())),
        Ok(js) => match serde_json::from_str::<ConfigState>(&js) {
            Err(e) => out.push(("json:deserialize".into(), e.to_string())),
            Ok(back) => {
                if back != *st {
                    out.push(("json:differs".into(), format!("JSON round trip differs in {:?}", differing_maps(&back, st))));
                }
            }
        },
    }
    if files {
        // 3. protobuf bootstrap blob
        let r = catch_unwind(AssertUnwindSafe(|| -> Result<Vec<Request>, String> {
            let mut f = tempfile::tempfile().map_err(|e| e.to_string())?;
            st.write_initial_state_to_file(&mut f).map_err(|e| e.to_string())?;
            f.seek(SeekFrom::Start(0)).map_err(|e| e.to_string())?;
            let init = read_initial_state_from_file(&mut f).map_err(|e| e.to_string())?;
            Ok(init.requests.into_iter().map(|w| w.content).collect())
        }));
        match r {
            Err(e) => out.push(("protobuf:panic".into(), panic_message(e))),
            Ok(Err(e)) => out.push(("protobuf:io".into(), e)),
            Ok(Ok(rq)) => check_replay("protobuf", &rq, st, &mut out),
        }
        // 4. saved state file, read back with the master's 200 000 byte window loop
        let r = catch_unwind(AssertUnwindSafe(|| -> Result<Vec<Request>, String> {
            let mut f = tempfile::tempfile().map_err(|e| e.to_string())?;
            let n = st.write_requests_to_file(&mut f).map_err(|e| e.to_string())?;
            f.seek(SeekFrom::Start(0)).map_err(|e| e.to_string())?;
            let rq = read_state_file(&mut f)?;
            if rq.len() != n {
                return Err(format!("{n} requests written, {} read back", rq.len()));
            }
            Ok(rq)
        }));
        match r {
            Err(e) => out.push(("statefile:panic".into(), panic_message(e))),
            Ok(Err(e)) => out.push(("statefile:io".into(), e)),
            Ok(Ok(rq)) => check_replay("statefile", &rq, st, &mut out),
        }
    }
    (out, Some(reqs))
}

/// the loop of bin/src/command/requests.rs::load_state, minus the fan-out
pub fn read_state_file<R: Read>(file: &mut R) -> Result<Vec<Request>, String> {
    let mut buffer = Buffer::with_capacity(200000);
    let mut out = Vec::new();
    loop {
        let previous = buffer.available_data();
        match file.read(buffer.space()) {
            Ok(n) => { buffer.fill(n); }
            Err(e) => return Err(format!("read: {e}")),
        }
        if buffer.available_data() == 0 {
            return Ok(out);
        }
        let mut offset = 0usize;
        match parse_several_requests::<WorkerRequest>(buffer.data()) {
            Ok((rest, requests)) => {
                if !rest.is_empty() && previous == buffer.available_data() {
                    return Err("Error consuming load state message".into());
                }
                offset = buffer.data().len() - rest.len();
                out.extend(requests.into_iter().map(|w| w.content));
            }
            Err(e) => {
                // nom::Err::Incomplete: read more, unless the window is already full
                if format!("{e:?}").starts_with("Incomplete") {
                    if buffer.available_data() == buffer.capacity() {
                        return Err("message too big, stopping parsing".into());
                    }
                } else {
                    return Err(format!("saved state parse error: {e:?}"));
                }
            }
        }
        buffer.consume(offset);
    }
}

/// C06 for one ordered pair on the real code. Returns problems and the emitted requests.
pub fn c06_pair(a: &ConfigState, b: &ConfigState) -> (Vec<Problem>, Option<Vec<Request>>) {
    let mut out = Vec::new();
    let d = match catch_unwind(AssertUnwindSafe(|| a.diff(b))) {
        Ok(d) => d,
        Err(e) => {
            out.push(("diff:panic".into(), format!("diff panicked: {}", panic_message(e))));
            return (out, None);
        }
    };
    let mut cur = a.clone();
    for (i, r) in d.iter().enumerate() {
        match dispatch(&mut cur, r) {
            Err(p) => { out.push(("apply:panic".into(), format!("request #{i} {} panicked: {p}", r.short_name()))); return (out, Some(d)); }
            Ok(false) => out.push(("apply:rejected".into(), format!("request #{i} {} of the difference was rejected", r.short_name()))),
            Ok(true) => {}
        }
    }
    if norm_of(&cur) != norm_of(b) {
        out.push(("target:differs".into(), format!("after applying the difference the configuration differs from the target in {:?}",
            differing_maps(&norm_of(&cur), &norm_of(b)))));
    }
    (out, Some(d))
}

pub fn c06_self(a: &ConfigState) -> Vec<Problem> {
    match catch_unwind(AssertUnwindSafe(|| a.diff(a))) {
        Err(e) => vec![("selfdiff:panic".into(), panic_message(e))],
        Ok(d) if !d.is_empty() => vec![("selfdiff:nonempty".into(), format!("diff(a, a) has {} requests: {:?}", d.len(), verb_counts(&d)))],
        Ok(_) => vec![],
    }
}

pub struct Rng(pub u64);
impl Rng {
    pub fn next(&mut self, n: usize) -> usize {
        self.0 ^= self.0 << 13;
        self.0 ^= self.0 >> 7;
        self.0 ^= self.0 << 17;
        if n == 0 { 0 } else { (self.0 % n as u64) as usize }
    }
}

