//! I->S for spec/Sozu.tla: seeded random operation sequences on the REAL composed system
//! (vh::sozukit: real CommandHub + real worker threads over real channels), recorded as an ndjson trace
//! that TLC validates against spec/Trace_Sozu.tla.
//!
//! One sequential client per run sends, through the hub's unix command socket, commands from the
//! C07/C08 universe (listeners add / activate / deactivate / remove / patch, clusters, backends,
//! http / https / tcp frontends on addresses with and without a listener, certificates good and
//! bad, commands the main process refuses, commands only the workers refuse), SaveState to the run's
//! state file, LoadState of it; the environment kills workers (channel closed, hub has noticed),
//! registers late workers (bootstrapped from the hub's current state) and, at the end of some runs, a
//! mute worker (every fan-out then fails by time-out). After every step the observable state is
//! recorded: ListWorkers run states, QueryClusterById / QueryClustersHashes answers of the main
//! process and of every worker, and the complete configuration a scratch SaveState writes.
//!
//! stdout: {"kind":"violation"} lines for what needs no spec to be wrong (hub / worker thread died,
//! unreadable state file, rig errors), {"kind":"summary"}.

use std::collections::BTreeMap;
use std::io::Write;
use std::sync::atomic::{AtomicUsize, Ordering};
use std::sync::{Arc, Mutex};
use std::time::{Duration, Instant};

use serde_json::{Value, json};
use sozu_command_lib::proto::command::request::RequestType;
use vh::cfgmodel::Rng;
use vh::sozukit::*;

fn ldef(k: &str, a: &str) -> Value {
    if k == "https" {
        // what ListenerBuilder::new_https(..).to_tls(None) projects to (see sozukit::concretise)
        return json!({"k": k, "a": a, "active": false, "ft": 60, "exp": false, "sid": "none", "knob": 0, "shr": 0,
            "ansP": true, "a404": "-", "a503": "-", "alpn": ["h2", "http/1.1"], "sni": "none", "mf": 0});
    }
    json!({"k": k, "a": a, "active": false, "ft": if k == "udp" { 30 } else { 60 }, "exp": false, "sid": "none", "knob": 0, "shr": 0,
        "ansP": false, "a404": "-", "a503": "-", "alpn": [], "sni": "none", "mf": 0})
}

fn front(p: &str, a: &str, cl: &str, pos: &str) -> Value {
    json!({"p": p, "a": a, "h": "h1", "pk": "prefix", "pv": "/", "m": "none", "cl": cl, "pos": pos, "tg": "t0", "rd": "none"})
}

/// (weight, command)
fn universe() -> Vec<(u32, Value)> {
    let mut u: Vec<(u32, Value)> = Vec::new();
    let listeners = [("http", "A1"), ("tcp", "A2"), ("https", "A3")];
    for (k, a) in listeners {
        let verb = match k { "http" => "AddHttpListener", "tcp" => "AddTcpListener", _ => "AddHttpsListener" };
        u.push((6, json!({"verb": verb, "v": ldef(k, a)})));
        u.push((5, json!({"verb": "ActivateListener", "k": k, "a": a})));
        u.push((3, json!({"verb": "DeactivateListener", "k": k, "a": a})));
        u.push((2, json!({"verb": "RemoveListener", "k": k, "a": a})));
    }
    // a listener kind that is never there, an unknown listener type
    u.push((1, json!({"verb": "ActivateListener", "k": "http", "a": "A4"})));
    u.push((1, json!({"verb": "RemoveListener", "k": "tcp", "a": "A4"})));
    u.push((1, json!({"verb": "RemoveListener", "k": "bad", "a": "A1"})));
    for p in [json!({"ft": 77}), json!({"ft": 77, "sid": "bad header"}), json!({"ft": 78, "knob": 0}), json!({"sid": "X-Id"})] {
        u.push((1, json!({"verb": "UpdateHttpListener", "a": "A1", "p": p})));
    }
    u.push((1, json!({"verb": "UpdateTcpListener", "a": "A2", "p": {"ft": 77}})));
    u.push((1, json!({"verb": "UpdateTcpListener", "a": "A1", "p": {"ft": 77}})));
    for c in ["c1", "c2"] {
        u.push((6, json!({"verb": "AddCluster", "v": {"c": c, "sticky": false, "lb": "rr", "hc": "none"}})));
        u.push((2, json!({"verb": "AddCluster", "v": {"c": c, "sticky": true, "lb": "rnd", "hc": "h1"}})));
        u.push((1, json!({"verb": "AddCluster", "v": {"c": c, "sticky": false, "lb": "rr", "hc": "hbad"}})));
        u.push((2, json!({"verb": "RemoveCluster", "c": c})));
        u.push((1, json!({"verb": "SetHealthCheck", "c": c, "hc": "h2"})));
        u.push((1, json!({"verb": "SetHealthCheck", "c": c, "hc": "hbad"})));
        u.push((1, json!({"verb": "RemoveHealthCheck", "c": c})));
        for (b, x) in [("b1", "x1"), ("b1", "x2")] {
            u.push((3, json!({"verb": "AddBackend", "c": c, "b": b, "x": x, "w": 0})));
            u.push((2, json!({"verb": "RemoveBackend", "c": c, "b": b, "x": x})));
        }
        u.push((3, json!({"verb": "AddTcpFrontend", "c": c, "a": "A2", "t": "t0"})));
        u.push((1, json!({"verb": "AddTcpFrontend", "c": c, "a": "A4", "t": "t0"})));
        u.push((2, json!({"verb": "RemoveTcpFrontend", "c": c, "a": "A2", "t": "t0"})));
        for (p, a) in [("http", "A1"), ("http", "A4"), ("https", "A3"), ("https", "A1")] {
            let (add, rem) = if p == "http" { ("AddHttpFrontend", "RemoveHttpFrontend") } else { ("AddHttpsFrontend", "RemoveHttpsFrontend") };
            u.push((3, json!({"verb": add, "f": front(p, a, c, "tree")})));
            u.push((2, json!({"verb": rem, "f": front(p, a, c, "tree")})));
        }
    }
    u.push((1, json!({"verb": "AddHttpFrontend", "f": front("http", "A1", "c1", "bad")})));
    for a in ["A3", "A1"] {
        for (k, n) in [("k1", json!([])), ("k2", json!(["ov"])), ("kp", json!(["ov"])), ("kb", json!([]))] {
            u.push((2, json!({"verb": "AddCertificate", "a": a, "k": k, "n": n})));
        }
        for fp in ["k1", "k2", "nothex"] {
            u.push((1, json!({"verb": "RemoveCertificate", "a": a, "fp": fp})));
        }
        for (old, k) in [("k1", "k2"), ("k1", "kb"), ("k1", "kp"), ("k2", "k1")] {
            u.push((1, json!({"verb": "ReplaceCertificate", "a": a, "old": old, "k": k, "n": if k == "kp" || k == "k2" { json!(["ov"]) } else { json!([]) }})));
        }
    }
    u
}

fn pick<'a>(u: &'a [(u32, Value)], rng: &mut Rng) -> &'a Value {
    let total: u32 = u.iter().map(|x| x.0).sum();
    let mut r = rng.next(total as usize) as u32;
    for (w, c) in u {
        if r < *w {
            return c;
        }
        r -= *w;
    }
    &u[0].1
}

struct RunOut {
    events: Vec<Value>,
    violations: Vec<(String, Value)>,
    ops: usize,
    failures: usize,
    oks: usize,
    faults: usize,
    verbs: BTreeMap<String, (u64, u64)>,
}

fn one_run(run: usize, seed: u64, steps: usize, index: u64, mute_timeout_s: u32, certs: bool) -> RunOut {
    let mut out = RunOut { events: Vec::new(), violations: Vec::new(), ops: 0, failures: 0, oks: 0, faults: 0, verbs: BTreeMap::new() };
    let mut rng = Rng((seed.wrapping_mul(7919) + run as u64).wrapping_mul(0x9E3779B97F4A7C15) | 1);
    let conc = conc_for(index);
    let uni: Vec<(u32, Value)> = universe()
        .into_iter()
        .filter(|(_, c)| certs || !c["verb"].as_str().unwrap_or("").contains("Certificate"))
        .collect();
    let n_init = 1 + rng.next(3);
    let kinds = vec![Kind::Real; n_init];
    let with_mute = rng.next(6) == 0;
    // A time-out is only ever expected once the mute worker is there: the other runs get a worker time-out no
    // loaded machine can reach (a lost answer still shows, as a failure after that time).
    let timeout_s = if with_mute { mute_timeout_s } else { 12 };
    let mut rig = match Rig::start(&kinds, timeout_s) {
        Ok(r) => r,
        Err(e) => {
            out.violations.push(("rig:start".into(), json!({"error": e})));
            return out;
        }
    };
    let deadline = Duration::from_secs(timeout_s as u64 + 4);
    let save_path = rig.dir().join("saved.json").to_string_lossy().to_string();
    out.events.push(json!({"ev": "reset", "run": run, "init": (0..n_init).map(|i| i.to_string()).collect::<Vec<_>>()}));
    let mut next_real = n_init as u32;
    let total_steps = steps + if with_mute { 3 } else { 0 };
    let cert_tokens: Vec<&str> = if certs { vec!["k1", "k2", "kp"] } else { vec![] };
    'steps: for step in 0..total_steps {
        let mut hang = false;
        if with_mute && step == steps {
            // from here on every fan-out waits for the time-out
            match rig.start_worker_id(7, Kind::Mute) {
                Ok(idx) => {
                    out.faults += 1;
                    out.events.push(json!({"ev": "start", "run": run, "w": "7", "boot": rig.workers[idx].boot_requests}));
                }
                Err(e) => {
                    out.violations.push(("hub:start-worker".into(), json!({"error": e})));
                    break 'steps;
                }
            }
        } else {
            let alive: Vec<usize> = (0..rig.workers.len()).filter(|i| !rig.workers[*i].killed && rig.workers[*i].kind == Kind::Real).collect();
            let r = rng.next(100);
            if r < 4 && !alive.is_empty() && step < steps {
                let idx = alive[rng.next(alive.len())];
                let id = rig.workers[idx].id;
                if let Err(e) = rig.kill_worker(idx, true) {
                    out.violations.push(("hub:close-not-noticed".into(), json!({"worker": id, "error": e})));
                    break 'steps;
                }
                out.faults += 1;
                out.events.push(json!({"ev": "die", "run": run, "w": id.to_string()}));
            } else if r < 9 && next_real < 5 && step < steps {
                let id = next_real;
                next_real += 1;
                match rig.start_worker_id(id, Kind::Real) {
                    Ok(idx) => {
                        out.faults += 1;
                        out.events.push(json!({"ev": "start", "run": run, "w": id.to_string(), "boot": rig.workers[idx].boot_requests}));
                    }
                    Err(e) => {
                        out.violations.push(("hub:start-worker".into(), json!({"error": e})));
                        break 'steps;
                    }
                }
            } else {
                let mut saved_file: Option<Value> = None;
                let (op, o) = if r < 15 {
                    let (o, proj, pb) = rig.save_state(&conc, &save_path, deadline);
                    for p in pb {
                        out.violations.push(("save:unreadable".into(), json!({"problem": p})));
                    }
                    saved_file = proj;
                    (json!({"kind": "save"}), o)
                } else if r < 21 && !rig.has_live_mute() {
                    (json!({"kind": "load"}), rig.request(RequestType::LoadState(save_path.clone()), deadline))
                } else {
                    let c = pick(&uni, &mut rng).clone();
                    let req = concretise(&conc, &c);
                    (json!({"kind": "cmd", "c": c}), rig.request(req.request_type.unwrap(), deadline))
                };
                out.ops += 1;
                let verb = if op["kind"] == "cmd" { op["c"]["verb"].as_str().unwrap_or("?").to_string() } else { op["kind"].as_str().unwrap().to_string() };
                let e = out.verbs.entry(verb.clone()).or_insert((0, 0));
                match o.verdict.as_str() {
                    "ok" => { out.oks += 1; e.0 += 1; }
                    "failure" => { out.failures += 1; e.1 += 1; }
                    "hang" => hang = true,
                    other => {
                        out.violations.push((format!("client:{verb}"), json!({"verdict": other, "message": o.message})));
                        break 'steps;
                    }
                }
                // a save event carries the parsed content of the file that was written
                out.events.push(json!({"ev": "op", "run": run, "op": op, "verdict": o.verdict, "msg": o.message.chars().take(120).collect::<String>(),
                    "hasfile": saved_file.is_some(), "file": saved_file.unwrap_or(json!({}))}));
            }
        }
        if let Some(f) = rig.hub_finished() {
            out.violations.push(("hub-exit".into(), json!({"fate": format!("{f:?}")})));
            break 'steps;
        }
        for (id, how) in rig.unexpected_exits() {
            out.violations.push(("worker-exit".into(), json!({"worker": id, "how": how, "after": out.events.last()})));
        }
        if hang {
            break 'steps;
        }
        let queries = !rig.has_live_mute();
        let obs = observe_with(&mut rig, &conc, &cert_tokens, deadline, queries);
        for p in &obs.problems {
            out.violations.push(("observe:problem".into(), json!({"problem": p, "after": out.events.last()})));
        }
        out.events.push(json!({"ev": "view", "run": run, "hv": obs.hv, "queried": queries, "views": obs.views, "heq": obs.hash_eq,
            "hasfull": obs.main_full.is_some(), "full": obs.main_full.clone().unwrap_or(json!({}))}));
    }
    match rig.teardown(Duration::from_secs(5)) {
        Some(Ok(_)) => {}
        Some(Err(e)) => out.violations.push(("hub-panic".into(), json!({"panic": e}))),
        None => out.violations.push(("hub-did-not-stop".into(), json!({}))),
    }
    out
}

fn main() {
    vh::util::quiet_panics();
    let args: Vec<String> = std::env::args().collect();
    let (mut seed, mut runs, mut steps, mut threads, mut out_path, mut index_base, mut timeout_s, mut certs) =
        (1u64, 8usize, 40usize, 8usize, String::from("/dev/null"), 0u64, 2u32, true);
    let mut i = 1;
    while i < args.len() {
        match args[i].as_str() {
            "--seed" => { seed = args[i + 1].parse().unwrap_or(1); i += 1; }
            "--runs" => { runs = args[i + 1].parse().unwrap(); i += 1; }
            "--steps" => { steps = args[i + 1].parse().unwrap(); i += 1; }
            "--threads" => { threads = args[i + 1].parse().unwrap(); i += 1; }
            "--out" => { out_path = args[i + 1].clone(); i += 1; }
            "--index-base" => { index_base = args[i + 1].parse().unwrap(); i += 1; }
            "--timeout" => { timeout_s = args[i + 1].parse().unwrap(); i += 1; }
            "--no-certs" => certs = false,
            _ => {}
        }
        i += 1;
    }
    let t0 = Instant::now();
    let next = Arc::new(AtomicUsize::new(0));
    let results: Arc<Mutex<Vec<(usize, RunOut)>>> = Arc::new(Mutex::new(Vec::new()));
    let mut hs = Vec::new();
    for _ in 0..threads.max(1) {
        let (next, results) = (next.clone(), results.clone());
        hs.push(std::thread::spawn(move || {
            loop {
                let r = next.fetch_add(1, Ordering::SeqCst);
                if r >= runs {
                    break;
                }
                let o = one_run(r, seed, steps, index_base + r as u64, timeout_s, certs);
                results.lock().unwrap().push((r, o));
            }
        }));
    }
    for h in hs {
        let _ = h.join();
    }
    let mut results = std::mem::take(&mut *results.lock().unwrap());
    results.sort_by_key(|(r, _)| *r);
    let mut f = std::io::BufWriter::new(std::fs::File::create(&out_path).expect("trace file"));
    let (mut n, mut ops, mut oks, mut failures, mut faults, mut nviol) = (0usize, 0usize, 0usize, 0usize, 0usize, 0usize);
    let mut verbs: BTreeMap<String, (u64, u64)> = BTreeMap::new();
    let mut classes: BTreeMap<String, u64> = BTreeMap::new();
    for (run, r) in &results {
        for e in &r.events {
            let mut e = e.clone();
            e["n"] = json!(n);
            writeln!(f, "{e}").unwrap();
            n += 1;
        }
        ops += r.ops;
        oks += r.oks;
        failures += r.failures;
        faults += r.faults;
        for (v, (a, b)) in &r.verbs {
            let e = verbs.entry(v.clone()).or_insert((0, 0));
            e.0 += a;
            e.1 += b;
        }
        for (class, detail) in &r.violations {
            nviol += 1;
            let c = classes.entry(class.clone()).or_insert(0);
            *c += 1;
            if *c <= 2 {
                vh::util::emit(&json!({"kind": "violation", "class": class, "run": run, "detail": detail}));
            }
        }
    }
    f.flush().unwrap();
    vh::util::emit(&json!({"kind": "summary", "runs": results.len(), "events": n, "ops": ops, "ok": oks, "failure": failures, "faults": faults,
        "violations": nviol, "classes": classes, "verbs_ok_failure": verbs, "wall_s": t0.elapsed().as_secs_f64()}));
}
