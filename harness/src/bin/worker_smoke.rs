//! Smoke test of vh::worker: start a worker, add listener/cluster/frontend/backend, proxy one request, soft stop.
use std::io::{Read, Write};
use std::net::{TcpListener, TcpStream};
use std::time::Duration;

use sozu_command_lib::proto::command::{SoftStop, request::RequestType};
use vh::worker::{Worker, free_addr, ok};

fn main() {
    let t = Duration::from_secs(3);
    let mut w = Worker::start_empty("smoke");
    let front = free_addr();
    let back = free_addr();
    assert!(w.add_http_listener(front, t));
    assert!(ok(&w.request(RequestType::AddCluster(Worker::default_cluster("c1")), t)));
    assert!(ok(&w.request(RequestType::AddHttpFrontend(Worker::http_frontend("c1", front, "localhost", "/")), t)));
    assert!(ok(&w.request(RequestType::AddBackend(Worker::backend("c1", "b1", back)), t)));
    let listener = TcpListener::bind(back).unwrap();
    let h = std::thread::spawn(move || {
        let (mut s, _) = listener.accept().unwrap();
        let mut buf = [0u8; 4096];
        let n = s.read(&mut buf).unwrap();
        let req = String::from_utf8_lossy(&buf[..n]).to_string();
        s.write_all(b"HTTP/1.1 200 OK\r\nContent-Length: 5\r\n\r\nhello").unwrap();
        req
    });
    let mut c = TcpStream::connect(front).unwrap();
    c.set_read_timeout(Some(t)).unwrap();
    c.write_all(b"GET /x HTTP/1.1\r\nHost: localhost\r\n\r\n").unwrap();
    let mut buf = [0u8; 4096];
    let n = c.read(&mut buf).unwrap();
    let resp = String::from_utf8_lossy(&buf[..n]).to_string();
    let req = h.join().unwrap();
    eprintln!("backend saw: {req:?}");
    eprintln!("client got: {resp:?}");
    drop(c);
    let r = w.request(RequestType::SoftStop(SoftStop {}), Duration::from_secs(5));
    eprintln!("soft stop: {:?}", r.map(|r| r.status));
    eprintln!("join: {:?}", w.join_within(Duration::from_secs(5)));
    println!("{{\"kind\":\"summary\",\"ok\":true}}");
}
