//! S->I replayer for spec/Router.tla (property C04).
//!
//! stdin: ndjson. First line {"universe":[front...],"requests":[req...]}; then one line per
//! spec state {"pre":[ids],"tree":[ids],"post":[ids],"table":[{"adm":[ids],"code":id}...]}.
//! For every state the replayer enumerates add/remove histories that the spec says reach that
//! state (every insertion order of the tree members, detours through extra frontends, removal
//! and re-insertion, duplicate insertions, removal of absent frontends), executes each on a
//! fresh real `sozu_lib::router::Router` and probes every request after the history.
//!
//! Verdict per probe: the served frontend must be in the spec's admissible set `adm`, and must
//! be the same for every history of the state (order independence). An answer equal to the
//! spec's `code` prediction but outside `adm` can only happen with a deviation switched on
//! in the spec (open known finding) and is reported with class "dev:<names>".
//!
//! stdout: ndjson results: {"kind":"violation",...} lines and a final {"kind":"summary",...}.

use std::collections::BTreeMap;
use std::io::{BufRead, BufReader};
use std::panic::{AssertUnwindSafe, catch_unwind};
use std::sync::atomic::{AtomicU64, Ordering};
use std::sync::{Arc, Mutex};

use serde_json::{Value, json};
use sozu_command_lib::proto::command::{PathRule, PathRuleKind, RulePosition};
use sozu_command_lib::response::HttpFrontend;
use sozu_lib::protocol::kawa_h1::parser::Method;
use sozu_lib::router::Router;

#[derive(Clone, Debug)]
struct Front {
    idx: usize,
    pos: String,
    host: String,
    path_kind: String,
    path: String,
    method: Option<String>,
}

fn concat(v: &Value, sep: &str) -> String {
    v.as_array().map(|a| a.iter().map(|s| s.as_str().unwrap_or("")).collect::<Vec<_>>().join(sep)).unwrap_or_default()
}

fn parse_front(idx: usize, v: &Value, variant: u64) -> Front {
    let hk = v["host"]["kind"].as_str().unwrap();
    let labels = concat(&v["host"]["labels"], ".");
    let host = match hk {
        "any" => "*".to_string(),
        "exact" => labels,
        "wild" => format!("*.{labels}"),
        "regex" => format!("/[xy]/.{labels}"),
        _ => panic!("host kind"),
    };
    let pk = v["path"]["kind"].as_str().unwrap().to_string();
    let path = match pk.as_str() {
        "regex" => if variant % 2 == 0 { "^/a.*$".to_string() } else { "\\A/a[/b]*\\z".to_string() },
        _ => concat(&v["path"]["p"], ""),
    };
    let method = match v["method"].as_str().unwrap() {
        "any" => None,
        m => Some(if variant % 3 == 1 { m.to_lowercase() } else { m.to_string() }),
    };
    Front { idx, pos: v["pos"].as_str().unwrap().to_string(), host, path_kind: pk, path, method }
}

fn to_http_front(f: &Front, cluster: String) -> HttpFrontend {
    HttpFrontend {
        cluster_id: Some(cluster),
        address: "127.0.0.1:8080".parse().unwrap(),
        hostname: f.host.clone(),
        path: PathRule {
            kind: match f.path_kind.as_str() {
                "prefix" => PathRuleKind::Prefix as i32,
                "equals" => PathRuleKind::Equals as i32,
                _ => PathRuleKind::Regex as i32,
            },
            value: f.path.clone(),
        },
        method: f.method.clone(),
        position: match f.pos.as_str() {
            "pre" => RulePosition::Pre,
            "post" => RulePosition::Post,
            _ => RulePosition::Tree,
        },
        tags: None,
        redirect: None,
        redirect_scheme: None,
        redirect_template: None,
        rewrite_host: None,
        rewrite_path: None,
        rewrite_port: None,
        required_auth: None,
        headers: Vec::new(),
        hsts: None,
    }
}

#[derive(Clone, Debug)]
enum Op {
    Add(usize),
    Remove(usize),
    AddDup(usize),     // same identity, different cluster: must be rejected and change nothing
    RemoveAbsent(usize),
}

fn op_json(op: &Op) -> Value {
    match op {
        Op::Add(i) => json!({"op":"add","front":i}),
        Op::Remove(i) => json!({"op":"remove","front":i}),
        Op::AddDup(i) => json!({"op":"add_dup","front":i}),
        Op::RemoveAbsent(i) => json!({"op":"remove_absent","front":i}),
    }
}

struct Ctx {
    fronts: Vec<Front>,
    reqs: Vec<(String, String, Method)>,
    deviations: String,
}

/// Run one history; returns Ok(answers per request as front idx, 0 = not found) or Err(description)
fn run_history(ctx: &Ctx, ops: &[Op]) -> Result<Vec<usize>, String> {
    let r = catch_unwind(AssertUnwindSafe(|| {
        let mut router = Router::new();
        for op in ops {
            match op {
                Op::Add(i) => {
                    let f = &ctx.fronts[*i - 1];
                    if let Err(e) = router.add_http_front(&to_http_front(f, format!("c{}", f.idx))) {
                        return Err(format!("add of absent frontend {} rejected: {e}", f.idx));
                    }
                }
                Op::AddDup(i) => {
                    let f = &ctx.fronts[*i - 1];
                    if router.add_http_front(&to_http_front(f, format!("dup{}", f.idx))).is_ok() {
                        return Err(format!("duplicate identity {} accepted", f.idx));
                    }
                }
                Op::Remove(i) => {
                    let f = &ctx.fronts[*i - 1];
                    if let Err(e) = router.remove_http_front(&to_http_front(f, format!("c{}", f.idx))) {
                        return Err(format!("remove of present frontend {} rejected: {e}", f.idx));
                    }
                }
                Op::RemoveAbsent(i) => {
                    let f = &ctx.fronts[*i - 1];
                    let _ = router.remove_http_front(&to_http_front(f, format!("c{}", f.idx)));
                }
            }
        }
        let mut out = Vec::with_capacity(ctx.reqs.len());
        for (h, p, m) in &ctx.reqs {
            match router.lookup(h, p, m) {
                Ok(rr) => {
                    let c = rr.cluster_id.unwrap_or_default();
                    match c.strip_prefix('c').and_then(|s| s.parse::<usize>().ok()) {
                        Some(i) => out.push(i),
                        None => return Err(format!("lookup returned foreign cluster {c:?}")),
                    }
                }
                Err(_) => out.push(0),
            }
        }
        Ok(out)
    }));
    match r {
        Ok(x) => x,
        Err(e) => Err(format!("panic: {}", vh::util::panic_message(e))),
    }
}

fn permutations(items: &[usize]) -> Vec<Vec<usize>> {
    if items.len() <= 1 {
        return vec![items.to_vec()];
    }
    let mut out = Vec::new();
    for i in 0..items.len() {
        let mut rest = items.to_vec();
        let x = rest.remove(i);
        for mut p in permutations(&rest) {
            p.insert(0, x);
            out.push(p);
        }
    }
    out
}

fn main() {
    vh::util::quiet_panics();
    let args: Vec<String> = std::env::args().collect();
    let mut seed: u64 = 1;
    let mut detours: usize = 6;
    let mut threads: usize = 8;
    let mut deviations = String::new();
    let mut i = 1;
    while i < args.len() {
        match args[i].as_str() {
            "--seed" => { seed = args[i + 1].parse().unwrap_or(1); i += 1; }
            "--detours" => { detours = args[i + 1].parse().unwrap(); i += 1; }
            "--threads" => { threads = args[i + 1].parse().unwrap(); i += 1; }
            "--deviations" => { deviations = args[i + 1].clone(); i += 1; }
            _ => {}
        }
        i += 1;
    }
    let stdin = BufReader::new(std::io::stdin());
    let mut lines = stdin.lines();
    let first: Value = serde_json::from_str(&lines.next().expect("universe line").unwrap()).unwrap();
    let fronts: Vec<Front> = first["universe"].as_array().unwrap().iter().enumerate()
        .map(|(i, v)| parse_front(i + 1, v, seed)).collect();
    let reqs: Vec<(String, String, Method)> = first["requests"].as_array().unwrap().iter().map(|r| {
        (concat(&r["host"], "."), concat(&r["path"], ""), Method::new(r["method"].as_str().unwrap().as_bytes()))
    }).collect();
    let ctx = Arc::new(Ctx { fronts, reqs, deviations });
    let (tx, rx) = std::sync::mpsc::sync_channel::<(usize, String)>(256);
    let rx = Arc::new(Mutex::new(rx));
    let n_states = Arc::new(AtomicU64::new(0));
    let n_hist = Arc::new(AtomicU64::new(0));
    let n_probe = Arc::new(AtomicU64::new(0));
    let n_dev = Arc::new(AtomicU64::new(0));
    let n_multi_adm = Arc::new(AtomicU64::new(0));
    let violations: Arc<Mutex<Vec<Value>>> = Arc::new(Mutex::new(Vec::new()));
    let samples: Arc<Mutex<Vec<Value>>> = Arc::new(Mutex::new(Vec::new()));
    let classes: Arc<Mutex<BTreeMap<String, u64>>> = Arc::new(Mutex::new(BTreeMap::new()));

    let mut handles = Vec::new();
    for _t in 0..threads {
        let (ctx, rx, n_states, n_hist, n_probe, n_dev, n_multi_adm, violations, samples, classes) = (
            ctx.clone(), rx.clone(), n_states.clone(), n_hist.clone(), n_probe.clone(), n_dev.clone(),
            n_multi_adm.clone(), violations.clone(), samples.clone(), classes.clone());
        handles.push(std::thread::spawn(move || {
            loop {
                let msg = { rx.lock().unwrap().recv() };
                let (k, line) = match msg { Ok(m) => m, Err(_) => break };
                n_states.fetch_add(1, Ordering::Relaxed);
                let st: Value = serde_json::from_str(&line).unwrap();
                let st = &st;
                let ids = |key: &str| -> Vec<usize> {
                    st[key].as_array().unwrap().iter().map(|x| x.as_u64().unwrap() as usize).collect()
                };
                let (pre, tree, post) = (ids("pre"), ids("tree"), ids("post"));
                let table = st["table"].as_array().unwrap();
                let nfronts = ctx.fronts.len();
                // simple deterministic pseudo-random stream per state
                let mut rng = seed.wrapping_mul(0x9E3779B97F4A7C15).wrapping_add(k as u64 * 7919 + 13);
                let mut rnd = |n: usize| -> usize {
                    rng ^= rng << 13; rng ^= rng >> 7; rng ^= rng << 17;
                    (rng % (n as u64)) as usize
                };
                let present: Vec<usize> = pre.iter().chain(tree.iter()).chain(post.iter()).cloned().collect();
                let same_identity = |a: usize, b: usize| -> bool {
                    let (x, y) = (&ctx.fronts[a - 1], &ctx.fronts[b - 1]);
                    x.pos == y.pos && x.host == y.host && x.path_kind == y.path_kind && x.path == y.path && x.method == y.method
                };
                let mut histories: Vec<Vec<Op>> = Vec::new();
                for perm in permutations(&tree) {
                    // base: tree members in this order, pre/post in their fixed order, three interleavings
                    let adds_tree: Vec<Op> = perm.iter().map(|i| Op::Add(*i)).collect();
                    let adds_pre: Vec<Op> = pre.iter().map(|i| Op::Add(*i)).collect();
                    let adds_post: Vec<Op> = post.iter().map(|i| Op::Add(*i)).collect();
                    let base: Vec<Op> = adds_pre.iter().chain(adds_tree.iter()).chain(adds_post.iter()).cloned().collect();
                    histories.push(base.clone());
                    if !pre.is_empty() || !post.is_empty() {
                        histories.push(adds_post.iter().chain(adds_tree.iter()).chain(adds_pre.iter()).cloned().collect());
                    }
                    // detours through extra fronts
                    for _ in 0..detours {
                        let e = 1 + rnd(nfronts);
                        if present.iter().any(|p| same_identity(*p, e)) { continue; }
                        let at = rnd(base.len() + 1);
                        let rm_at = at + 1 + rnd(base.len() - at + 1);
                        let mut h = base.clone();
                        h.insert(at, Op::Add(e));
                        h.insert(rm_at, Op::Remove(e));
                        histories.push(h);
                    }
                    // remove a tree member and re-add it (changes internal order)
                    for (pi, m) in perm.iter().enumerate() {
                        let mut h = base.clone();
                        let at = pre.len() + pi + 1 + rnd(base.len() - pre.len() - pi);
                        h.insert(at, Op::Remove(*m));
                        h.insert(at + 1, Op::Add(*m));
                        histories.push(h);
                    }
                    // duplicate add and removal of an absent front
                    if !present.is_empty() {
                        let d = present[rnd(present.len())];
                        let mut h = base.clone();
                        h.push(Op::AddDup(d));
                        histories.push(h);
                    }
                    let e = 1 + rnd(nfronts);
                    if !present.iter().any(|p| same_identity(*p, e)) {
                        let mut h = base.clone();
                        h.push(Op::RemoveAbsent(e));
                        histories.push(h);
                    }
                }
                let mut first_answers: Option<Vec<usize>> = None;
                for h in &histories {
                    n_hist.fetch_add(1, Ordering::Relaxed);
                    let res = run_history(&ctx, h);
                    let mut report = |class: String, detail: Value| {
                        *classes.lock().unwrap().entry(class.clone()).or_insert(0) += 1;
                        let mut v = violations.lock().unwrap();
                        if v.len() < 200 {
                            v.push(json!({"kind":"violation","class":class,"state":{"pre":pre,"tree":tree,"post":post},
                                "history": h.iter().map(op_json).collect::<Vec<_>>(),
                                "fronts": present.iter().chain(h.iter().filter_map(|o| match o { Op::Add(i)|Op::Remove(i)|Op::AddDup(i)|Op::RemoveAbsent(i) => Some(i)})).map(|i| (i.to_string(), format!("{:?}", ctx.fronts[*i-1]))).collect::<BTreeMap<_,_>>(),
                                "detail": detail}));
                        }
                    };
                    match res {
                        Err(e) => {
                            let class = if e.starts_with("panic") { "panic" } else if e.starts_with("duplicate") { "dup-accepted" } else { "op-result" };
                            report(class.to_string(), json!({"error": e}));
                        }
                        Ok(ans) => {
                            n_probe.fetch_add(ans.len() as u64, Ordering::Relaxed);
                            for (ri, got) in ans.iter().enumerate() {
                                let adm: Vec<usize> = table[ri]["adm"].as_array().unwrap().iter().map(|x| x.as_u64().unwrap() as usize).collect();
                                let code = table[ri]["code"].as_u64().unwrap() as usize;
                                if adm.len() > 1 { n_multi_adm.fetch_add(1, Ordering::Relaxed); }
                                let req = &ctx.reqs[ri];
                                if !adm.contains(got) {
                                    if *got == code && !ctx.deviations.is_empty() {
                                        n_dev.fetch_add(1, Ordering::Relaxed);
                                        *classes.lock().unwrap().entry(format!("dev:{}", ctx.deviations)).or_insert(0) += 1;
                                    } else {
                                        report("not-admissible".to_string(), json!({"request": format!("{:?} {} {}", req.2, req.0, req.1), "got": got, "admissible": adm, "code_prediction": code}));
                                    }
                                } else if let Some(fa) = &first_answers {
                                    if fa[ri] != *got {
                                        report("order-dependence".to_string(), json!({"request": format!("{:?} {} {}", req.2, req.0, req.1), "got": got, "other_history_got": fa[ri], "admissible": adm}));
                                    }
                                }
                            }
                            if first_answers.is_none() {
                                first_answers = Some(ans);
                            }
                        }
                    }
                }
                if k % 997 == 3 {
                    let mut s = samples.lock().unwrap();
                    if s.len() < 4 {
                        if let Some(h) = histories.last() {
                            s.push(json!({"state": {"pre":pre,"tree":tree,"post":post},
                                "history": h.iter().map(|o| match o {
                                    Op::Add(i) => format!("add {:?}", ctx.fronts[*i-1]),
                                    Op::Remove(i) => format!("remove #{i}"),
                                    Op::AddDup(i) => format!("add-duplicate #{i}"),
                                    Op::RemoveAbsent(i) => format!("remove-absent #{i}")}).collect::<Vec<_>>(),
                                "n_histories_for_state": histories.len()}));
                        }
                    }
                }
            }
        }));
    }
    for (k, l) in lines.enumerate() {
        let l = l.unwrap();
        if l.trim().is_empty() { continue; }
        tx.send((k, l)).unwrap();
    }
    drop(tx);
    for h in handles { h.join().unwrap(); }
    for v in violations.lock().unwrap().iter() { vh::util::emit(v); }
    vh::util::emit(&json!({"kind":"summary","states": n_states.load(Ordering::SeqCst), "histories": n_hist.load(Ordering::SeqCst),
        "probes": n_probe.load(Ordering::SeqCst), "deviation_explained": n_dev.load(Ordering::SeqCst),
        "probes_with_several_admissible": n_multi_adm.load(Ordering::SeqCst),
        "classes": *classes.lock().unwrap(), "samples": *samples.lock().unwrap()}));
}
