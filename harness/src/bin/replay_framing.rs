//! S->I replayer for spec/HttpFraming.tla (property C03: client and backend agree on request
//! boundaries - no smuggling).
//!
//! stdin: ndjson, one line per TLC-generated case
//!   {"id":n,"front":"h1"|"h2","toks":[...token names...],"adm":[...outcome classes...],
//!    "code":"<outcome class>","fwd":{method,target,host,framing,bodyLen} | null}
//! Every case is concretised to bytes (H1) or frames (H2) - several spellings per token, seeded
//! segmentation of the byte stream across writes - and sent to a live frontend of a REAL sozu worker
//! (vh::worker), followed on the same connection (H1 keep-alive / pipelining) or on the next stream
//! (H2) by a fixed SENTINEL request. Recording backends log the raw bytes of every backend
//! connection; the harness's own strict RFC 9112 reader (module `strict`, no leniency) - or, for
//! h2c backends, its own frame/HPACK reader - splits them into requests.
//!
//! Oracle (from the spec, see HttpFraming.tla):
//!   * outcome class observed (reject:400 / reject:rst / reject:goaway / reject:close / forward)
//!     must be in `adm`;
//!   * Reject  => the backends saw nothing of the probe (a truncated, never-completed head/body on a
//!     connection that is then closed is reported separately as class "partial-then-close", which
//!     the spec admits only for body-time rejections);
//!   * Forward => the strict reading of everything the backends received is exactly
//!     [v', sentinel], v' = the spec's normalised (method, target, host, framing, bodyLen), the
//!     probe on the cluster its host routes to; never an extra request, never unparsable bytes,
//!     never a header line the client did not send as a header line.
//!
//! stdout: ndjson: {"kind":"violation",...}* then {"kind":"summary",...}.
//!
//! `--explore`: stdin lines are raw probes {"front":"h1","raw":"GET / ..."} or
//! {"front":"h2","headers":[[n,v]..],"data":[...],"trailers":[[n,v]..]|null,...}; prints what client and backends saw.

use std::collections::BTreeMap;
use std::io::{BufRead, BufReader, Read, Write};
use std::net::{SocketAddr, TcpListener, TcpStream};
use std::sync::atomic::{AtomicBool, AtomicU64, Ordering};
use std::sync::{Arc, Mutex};
use std::time::{Duration, Instant};

use serde_json::{Value, json};
use sozu_command_lib::config::ListenerBuilder;
use sozu_command_lib::proto::command::{
    ActivateListener, AddCertificate, CertificateAndKey, Cluster, ListenerType, request::RequestType,
};
use vh::h2::{self, Frame, H2Conn};
use vh::worker::{LOCAL_CERT, LOCAL_KEY, Worker, free_addr, ok};

// =====================================================================================
// strict HTTP/1.1 request reader (RFC 9112, no leniency)
// =====================================================================================
mod strict {
    #[derive(Clone, Debug, PartialEq)]
    pub struct Req {
        pub method: String,
        pub target: String,
        pub version: String,
        pub headers: Vec<(String, String)>,
        pub host: Option<String>,
        /// "none" | "cl" | "chunked"
        pub framing: &'static str,
        pub body: Vec<u8>,
        pub trailers: Vec<(String, String)>,
        /// number of chunks (chunked only)
        pub chunks: usize,
    }

    #[derive(Clone, Debug, PartialEq)]
    pub enum Tail {
        /// the byte stream ends exactly at a message boundary
        Clean,
        /// a message is incomplete (more bytes needed); what part was being read
        Partial(&'static str),
        /// not a well-formed / unambiguous HTTP/1.1 message stream; reason
        Error(String),
    }

    pub fn is_tchar(b: u8) -> bool {
        matches!(b, b'!' | b'#' | b'$' | b'%' | b'&' | b'\'' | b'*' | b'+' | b'-' | b'.' | b'^' | b'_' | b'`' | b'|' | b'~'
            | b'0'..=b'9' | b'A'..=b'Z' | b'a'..=b'z')
    }

    /// find CRLF-terminated line starting at `pos`; Err(reason) on bare LF / bare CR / forbidden bytes
    fn line(buf: &[u8], pos: usize) -> Result<Option<(usize, usize)>, String> {
        let mut i = pos;
        while i < buf.len() {
            match buf[i] {
                b'\r' => {
                    if i + 1 >= buf.len() { return Ok(None); }
                    if buf[i + 1] == b'\n' { return Ok(Some((i, i + 2))); }
                    return Err("bare CR".into());
                }
                b'\n' => return Err("bare LF".into()),
                0 => return Err("NUL byte".into()),
                _ => i += 1,
            }
        }
        Ok(None)
    }

    fn lower(s: &[u8]) -> String { String::from_utf8_lossy(s).to_ascii_lowercase() }

    fn field_value_ok(v: &[u8]) -> bool {
        v.iter().all(|&b| b == b'\t' || b == b' ' || (0x21..=0x7e).contains(&b) || b >= 0x80)
    }

    fn trim_ows(v: &[u8]) -> &[u8] {
        let mut s = 0; let mut e = v.len();
        while s < e && (v[s] == b' ' || v[s] == b'\t') { s += 1; }
        while e > s && (v[e - 1] == b' ' || v[e - 1] == b'\t') { e -= 1; }
        &v[s..e]
    }

    fn field_line(l: &[u8]) -> Result<(String, String), String> {
        if l[0] == b' ' || l[0] == b'\t' { return Err("obs-fold / leading whitespace in field line".into()); }
        let colon = l.iter().position(|&b| b == b':').ok_or_else(|| "field line without colon".to_string())?;
        let name = &l[..colon];
        if name.is_empty() || !name.iter().all(|&b| is_tchar(b)) {
            return Err(format!("invalid field name {:?}", String::from_utf8_lossy(name)));
        }
        let val = trim_ows(&l[colon + 1..]);
        if !field_value_ok(val) { return Err(format!("forbidden byte in value of {}", String::from_utf8_lossy(name))); }
        Ok((lower(name), String::from_utf8_lossy(val).to_string()))
    }

    /// Split a byte stream into requests. Returns the complete requests and the state of the tail.
    pub fn read_all(buf: &[u8]) -> (Vec<Req>, Tail) {
        let mut out = Vec::new();
        let mut pos = 0;
        loop {
            if pos == buf.len() { return (out, Tail::Clean); }
            match read_one(buf, pos) {
                Ok(Some((req, next))) => { out.push(req); pos = next; }
                Ok(None) => return (out, Tail::Partial(partial_where(buf, pos))),
                Err(e) => return (out, Tail::Error(e)),
            }
        }
    }

    /// Number of bytes the complete requests of `buf` occupy (where a pending, incomplete message starts).
    pub fn consumed(buf: &[u8]) -> usize {
        let mut pos = 0;
        while pos < buf.len() { match read_one(buf, pos) { Ok(Some((_, next))) => pos = next, _ => break } }
        pos
    }

    /// The method of the pending message at `pos`, if its head is complete (and well-formed as far as `read_one` got:
    /// the caller only asks when the tail is `Partial("body")`).
    pub fn pending_method(buf: &[u8], pos: usize) -> Option<String> {
        let rest = &buf[pos..];
        if !rest.windows(4).any(|w| w == b"\r\n\r\n") { return None; }
        let sp = rest.iter().position(|&b| b == b' ')?;
        Some(String::from_utf8_lossy(&rest[..sp]).to_string())
    }

    fn partial_where(buf: &[u8], pos: usize) -> &'static str {
        // head complete?
        let rest = &buf[pos..];
        if rest.windows(4).any(|w| w == b"\r\n\r\n") { "body" } else { "head" }
    }

    fn read_one(buf: &[u8], start: usize) -> Result<Option<(Req, usize)>, String> {
        // request line
        let Some((e, mut pos)) = line(buf, start)? else { return Ok(None) };
        let rl = &buf[start..e];
        if rl.is_empty() { return Err("empty line where a request line was expected".into()); }
        let parts: Vec<&[u8]> = rl.split(|&b| b == b' ').collect();
        if parts.len() != 3 { return Err(format!("request line is not 'method SP target SP version': {:?}", String::from_utf8_lossy(rl))); }
        let (m, t, v) = (parts[0], parts[1], parts[2]);
        if m.is_empty() || !m.iter().all(|&b| is_tchar(b)) { return Err(format!("invalid method {:?}", String::from_utf8_lossy(m))); }
        if t.is_empty() || !t.iter().all(|&b| (0x21..=0x7e).contains(&b)) { return Err(format!("invalid request-target {:?}", String::from_utf8_lossy(t))); }
        if v != b"HTTP/1.1" && v != b"HTTP/1.0" { return Err(format!("invalid version {:?}", String::from_utf8_lossy(v))); }
        // RFC 9112 3.2: origin-form / absolute-form for every method but CONNECT, authority-form (host:port) for CONNECT and
        // only for CONNECT, asterisk-form only for OPTIONS. The method token is case-sensitive (RFC 9110 9.1).
        let form = if t == b"*" { "asterisk" } else if t[0] == b'/' { "origin" }
            else if t.windows(3).any(|w| w == b"://") { "absolute" }
            else if !t.contains(&b'/') && t.rsplit(|&b| b == b':').next().is_some_and(|p| !p.is_empty() && p.len() < t.len() && p.iter().all(u8::is_ascii_digit)) { "authority" }
            else { "none" };
        let form_ok = match form { "asterisk" => m == b"OPTIONS", "authority" => m == b"CONNECT", "origin" | "absolute" => m != b"CONNECT", _ => false };
        if !form_ok { return Err(format!("request-target {:?} ({form}-form) is not allowed with method {:?}", String::from_utf8_lossy(t), String::from_utf8_lossy(m))); }
        // header section
        let mut headers = Vec::new();
        loop {
            let Some((e, next)) = line(buf, pos)? else { return Ok(None) };
            let l = &buf[pos..e];
            pos = next;
            if l.is_empty() { break; }
            headers.push(field_line(l)?);
        }
        // Host
        let hosts: Vec<&String> = headers.iter().filter(|(n, _)| n == "host").map(|(_, v)| v).collect();
        if hosts.len() > 1 { return Err("more than one Host field".into()); }
        if hosts.is_empty() && v == b"HTTP/1.1" { return Err("HTTP/1.1 request without Host".into()); }
        let host = hosts.first().map(|s| s.to_string());
        // framing (RFC 9112 section 6.3, strict: every MAY-reject is a reject)
        let cls: Vec<&String> = headers.iter().filter(|(n, _)| n == "content-length").map(|(_, v)| v).collect();
        let tes: Vec<&String> = headers.iter().filter(|(n, _)| n == "transfer-encoding").map(|(_, v)| v).collect();
        if !tes.is_empty() && !cls.is_empty() { return Err("both Transfer-Encoding and Content-Length".into()); }
        if cls.len() > 1 { return Err("more than one Content-Length field".into()); }
        let mut req = Req {
            method: String::from_utf8_lossy(m).to_string(), target: String::from_utf8_lossy(t).to_string(),
            version: String::from_utf8_lossy(v).to_string(), headers: headers.clone(), host, framing: "none",
            body: Vec::new(), trailers: Vec::new(), chunks: 0,
        };
        if !tes.is_empty() {
            if v == b"HTTP/1.0" { return Err("Transfer-Encoding in an HTTP/1.0 request".into()); }
            // RFC 9112 6.1/6.3: the field lines combine into one list; every element a token, chunked exactly once and last
            let joined = tes.iter().map(|s| s.as_str()).collect::<Vec<_>>().join(",");
            let codings: Vec<String> = joined.split(',').map(|c| c.trim_matches(|x| x == ' ' || x == '\t').to_ascii_lowercase()).collect();
            if codings.iter().any(|c| c.is_empty() || !c.bytes().all(is_tchar)) { return Err(format!("malformed Transfer-Encoding list {joined:?}")); }
            if codings.last().map(|c| c.as_str()) != Some("chunked") || codings.iter().filter(|c| *c == "chunked").count() != 1 {
                return Err(format!("Transfer-Encoding: chunked is not the final (and only once applied) coding: {joined:?}"));
            }
            req.framing = "chunked";
            loop {
                // chunk-size [ chunk-ext ] CRLF
                let Some((e, next)) = line(buf, pos)? else { return Ok(None) };
                let l = &buf[pos..e];
                let hexlen = l.iter().take_while(|b| b.is_ascii_hexdigit()).count();
                if hexlen == 0 { return Err(format!("chunk size line does not start with HEXDIG: {:?}", String::from_utf8_lossy(l))); }
                if hexlen > 15 { return Err("chunk size too large".into()); }
                let ext = &l[hexlen..];
                if !ext.is_empty() {
                    // chunk-ext = *( BWS ";" BWS chunk-ext-name [ BWS "=" BWS chunk-ext-val ] ); strict: no BWS
                    if ext[0] != b';' || !ext.iter().all(|&b| (0x21..=0x7e).contains(&b)) {
                        return Err(format!("malformed chunk extension {:?}", String::from_utf8_lossy(ext)));
                    }
                }
                let size = usize::from_str_radix(std::str::from_utf8(&l[..hexlen]).unwrap(), 16).unwrap();
                pos = next;
                if size == 0 { break; }
                if buf.len() < pos + size + 2 { return Ok(None); }
                req.body.extend_from_slice(&buf[pos..pos + size]);
                req.chunks += 1;
                if &buf[pos + size..pos + size + 2] != b"\r\n" { return Err("chunk data not followed by CRLF".into()); }
                pos += size + 2;
            }
            // trailer section
            loop {
                let Some((e, next)) = line(buf, pos)? else { return Ok(None) };
                let l = &buf[pos..e];
                pos = next;
                if l.is_empty() { break; }
                req.trailers.push(field_line(l)?);
            }
        } else if let Some(cl) = cls.first() {
            if cl.is_empty() || !cl.bytes().all(|b| b.is_ascii_digit()) || cl.len() > 15 { return Err(format!("invalid Content-Length {cl:?}")); }
            let n: usize = cl.parse().unwrap();
            req.framing = "cl";
            if buf.len() < pos + n { return Ok(None); }
            req.body.extend_from_slice(&buf[pos..pos + n]);
            pos += n;
        }
        Ok(Some((req, pos)))
    }
}

// =====================================================================================
// recording backends
// =====================================================================================

#[derive(Clone, Debug)]
struct ConnLog {
    epoch: u64,
    bytes: Vec<u8>,
    /// sozu closed (EOF / reset seen)
    closed: bool,
    /// the backend itself answered 400 + closed (strict reader error)
    backend_rejected: Option<String>,
    /// the backend answered a HEAD request as soon as its head was complete, before the body sozu announced had arrived
    early_head_answers: usize,
    /// interim responses (100 Continue / 103 Early Hints) the backend sent on this connection
    interims_sent: usize,
    /// h2c only: decoded requests
    h2reqs: Vec<Value>,
    h2errors: Vec<String>,
}

/// What the environment of a lane's current probe does besides answering (set by the lane before the probe is sent):
/// `interim`: 0, or the status (100 / 103) of an interim response the backends send of their own accord as soon as they hold a
/// request head (`Expect: 100-continue` is answered with `100 Continue` whatever this says);
/// `hold`: the backends keep their final answers back while this is set (at most 1.5 s).
#[derive(Default)]
struct LaneCtl {
    interim: AtomicU64,
    hold: AtomicBool,
}
impl LaneCtl {
    fn wait_release(&self) {
        let t0 = Instant::now();
        while self.hold.load(Ordering::SeqCst) && t0.elapsed() < Duration::from_millis(1500) { std::thread::sleep(Duration::from_micros(500)); }
    }
}

struct Backend {
    addr: SocketAddr,
    logs: Arc<Mutex<Vec<ConnLog>>>,
    /// highest barrier number seen (see `barrier`)
    barrier_seen: Arc<AtomicU64>,
}

const BARRIER: &[u8] = b"BARRIER ";

/// Connections are accepted in FIFO order and get their log entry (with the lane's current epoch) in the
/// accept loop. A marker connection opened by the harness itself therefore proves, once its marker was read,
/// that every connection sozu opened before it has been attributed to the current probe.
fn barrier(b: &Backend, n: u64) -> bool {
    let Ok(mut s) = TcpStream::connect_timeout(&b.addr, Duration::from_secs(2)) else { return false };
    let _ = s.write_all(format!("BARRIER {n}\n").as_bytes());
    let deadline = Instant::now() + Duration::from_secs(3);
    while b.barrier_seen.load(Ordering::SeqCst) < n {
        if Instant::now() >= deadline { return false; }
        std::thread::sleep(Duration::from_micros(300));
    }
    true
}

fn spawn_backend(kind: &'static str, tag: String, epoch: Arc<AtomicU64>, ctl: Arc<LaneCtl>, stop: Arc<AtomicBool>) -> Backend {
    let listener = loop {
        let a = free_addr();
        if let Ok(l) = TcpListener::bind(a) { break l; }
    };
    let addr = listener.local_addr().unwrap();
    let logs: Arc<Mutex<Vec<ConnLog>>> = Arc::new(Mutex::new(Vec::new()));
    let logs2 = logs.clone();
    let barrier_seen = Arc::new(AtomicU64::new(0));
    let barrier_seen2 = barrier_seen.clone();
    std::thread::spawn(move || {
        for s in listener.incoming() {
            if stop.load(Ordering::Relaxed) { break; }
            let Ok(s) = s else { continue };
            let idx = {
                let mut l = logs2.lock().unwrap();
                l.push(ConnLog { epoch: epoch.load(Ordering::SeqCst), bytes: Vec::new(), closed: false, backend_rejected: None, early_head_answers: 0, interims_sent: 0, h2reqs: Vec::new(), h2errors: Vec::new() });
                l.len() - 1
            };
            let logs3 = logs2.clone();
            let tag = tag.clone();
            let bs = barrier_seen2.clone();
            let ctl = ctl.clone();
            std::thread::spawn(move || {
                // marker connection of the harness?
                let mut peek = [0u8; 8];
                s.set_read_timeout(Some(Duration::from_secs(20))).ok();
                let mut got = 0;
                while got < 8 {
                    match s.peek(&mut peek) { Ok(0) | Err(_) => break, Ok(n) => { got = n; if n < 8 && peek[..n] != BARRIER[..n] { break; } if n < 8 { std::thread::sleep(Duration::from_micros(200)); } } }
                }
                if got >= 8 && &peek[..8] == BARRIER {
                    let mut line = Vec::new();
                    let mut b = [0u8; 64];
                    while !line.contains(&b'\n') { match (&s).read(&mut b) { Ok(0) | Err(_) => break, Ok(n) => line.extend_from_slice(&b[..n]) } }
                    let n: u64 = String::from_utf8_lossy(&line[8..]).trim().parse().unwrap_or(0);
                    { let mut l = logs3.lock().unwrap(); l[idx].epoch = u64::MAX; l[idx].closed = true; }
                    bs.fetch_max(n, Ordering::SeqCst);
                    return;
                }
                if kind == "h2c" { serve_h2c(s, idx, logs3, tag, ctl) } else { serve_h1(s, idx, logs3, tag, ctl) }
            });
        }
    });
    Backend { addr, logs, barrier_seen }
}

fn interim_bytes(status: u64) -> &'static [u8] {
    if status == 103 { b"HTTP/1.1 103 Early Hints\r\nLink: </s.css>; rel=preload\r\n\r\n" } else { b"HTTP/1.1 100 Continue\r\n\r\n" }
}

fn serve_h1(mut s: TcpStream, idx: usize, logs: Arc<Mutex<Vec<ConnLog>>>, tag: String, ctl: Arc<LaneCtl>) {
    s.set_read_timeout(Some(Duration::from_secs(20))).ok();
    s.set_nodelay(true).ok();
    let mut answered = 0usize;
    // index of the request that was already answered from its head (HEAD with an announced body still on its way)
    let mut early_for: Option<usize> = None;
    // index of the request an interim response was already sent for
    let mut interim_for: Option<usize> = None;
    let mut buf = [0u8; 16384];
    loop {
        match s.read(&mut buf) {
            Ok(0) | Err(_) => { logs.lock().unwrap()[idx].closed = true; return; }
            Ok(n) => {
                let all = { let mut l = logs.lock().unwrap(); l[idx].bytes.extend_from_slice(&buf[..n]); l[idx].bytes.clone() };
                let (reqs, tail) = strict::read_all(&all);
                while answered < reqs.len() {
                    if early_for == Some(answered) { early_for = None; answered += 1; continue; }
                    let body = format!("{tag}:{}", reqs[answered].target);
                    let probe_req = reqs[answered].target != "/sentinel" && reqs[answered].target != "/late" && reqs[answered].method != "HEAD";
                    // an interim response of the backend's own accord also precedes the answer to a request that arrived whole
                    let im = ctl.interim.load(Ordering::SeqCst);
                    // (only with C03_INTERIM_WHOLE set: when `100 Continue` and the final answer reach sozu in ONE read it relays the
                    //  interim response and never the answer - the bytes behind the 1xx head stay unparsed in the buffer until the
                    //  next readable event, which never comes. A response-side matter - every request gets its answer, C02 -
                    //  reported to the coordinator. In the interim cases the final answer always comes after the client has seen
                    //  the interim response and sent the rest of the request.)
                    if im != 0 && probe_req && interim_for != Some(answered) && std::env::var("C03_INTERIM_WHOLE").is_ok() {
                        if s.write_all(interim_bytes(im)).is_err() { logs.lock().unwrap()[idx].closed = true; return; }
                        interim_for = Some(answered);
                        logs.lock().unwrap()[idx].interims_sent += 1;
                    }
                    // the environment may keep the final answer back (trailers held back by the client: see `late`)
                    if probe_req { ctl.wait_release(); }
                    // The RESPONSE side must stay in step whatever the request method is (C03 is about the request side):
                    //  * HEAD (exactly that token: methods are case-sensitive, RFC 9110 9.1) is answered from the head - the
                    //    Content-Length of the GET representation, no content (RFC 9110 9.3.2);
                    //  * CONNECT is refused (405, normally framed): this origin server is no tunnel end point, the connection
                    //    stays an HTTP connection and the next request on it is read as a request;
                    //  * anything else, known or not: 200 with a Content-Length body.
                    let resp = match reqs[answered].method.as_str() {
                        "HEAD" => format!("HTTP/1.1 200 OK\r\nContent-Length: {}\r\nX-Backend: {tag}\r\nX-No-Content: 1\r\n\r\n", body.len()),
                        "CONNECT" => format!("HTTP/1.1 405 Method Not Allowed\r\nContent-Length: {}\r\nAllow: GET, HEAD, POST, OPTIONS\r\nX-Backend: {tag}\r\n\r\n{body}", body.len()),
                        _ => format!("HTTP/1.1 200 OK\r\nContent-Length: {}\r\nX-Backend: {tag}\r\n\r\n{body}", body.len()),
                    };
                    if s.write_all(resp.as_bytes()).is_err() { logs.lock().unwrap()[idx].closed = true; return; }
                    answered += 1;
                }
                // A HEAD request is answered from its head, as origin servers do: the answer does not depend on the content
                // the request announces. The connection stays in use: the announced content is still read (it belongs to
                // this request), and whatever follows it is the next request. If sozu believes the message ended earlier
                // (or later) than its framing says, the next request it writes on this connection is misread here.
                // INTERIM response: the head of a request is complete, its content is still to come. `Expect: 100-continue` is
                // answered with `100 Continue` (RFC 9110 10.1.1); the lane's environment may ask for an interim response of the
                // backend's own accord (100 / 103). The connection stays in step: the content the head announces is read next.
                if tail == strict::Tail::Partial("body") && interim_for != Some(reqs.len()) {
                    let pos = strict::consumed(&all);
                    let head_end = all[pos..].windows(4).position(|w| w == b"\r\n\r\n").map(|p| pos + p).unwrap_or(all.len());
                    let head = String::from_utf8_lossy(&all[pos..head_end]).to_ascii_lowercase();
                    let expects = head.split("\r\n").skip(1).any(|l| l.starts_with("expect:") && l.contains("100-continue"));
                    let im = ctl.interim.load(Ordering::SeqCst);
                    let target = head.split(' ').nth(1).unwrap_or("");
                    if (expects || im != 0) && target != "/sentinel" && target != "/late" && !head.starts_with("head ") {
                        if s.write_all(interim_bytes(if expects { 100 } else { im })).is_err() { logs.lock().unwrap()[idx].closed = true; return; }
                        interim_for = Some(reqs.len());
                        logs.lock().unwrap()[idx].interims_sent += 1;
                    }
                }
                if tail == strict::Tail::Partial("body") && early_for.is_none() {
                    let pos = strict::consumed(&all);
                    if strict::pending_method(&all, pos).as_deref() == Some("HEAD") {
                        let target = String::from_utf8_lossy(all[pos..].split(|&b| b == b' ').nth(1).unwrap_or(b"")).to_string();
                        let body = format!("{tag}:{target}");
                        let resp = format!("HTTP/1.1 200 OK\r\nContent-Length: {}\r\nX-Backend: {tag}\r\nX-No-Content: 1\r\n\r\n", body.len());
                        if s.write_all(resp.as_bytes()).is_err() { logs.lock().unwrap()[idx].closed = true; return; }
                        early_for = Some(reqs.len());
                        logs.lock().unwrap()[idx].early_head_answers += 1;
                    }
                }
                if let strict::Tail::Error(e) = tail {
                    // what a strict origin server does: 400 and close
                    logs.lock().unwrap()[idx].backend_rejected = Some(e);
                    let _ = s.write_all(b"HTTP/1.1 400 Bad Request\r\nContent-Length: 0\r\nConnection: close\r\nX-Backend-Reject: 1\r\n\r\n");
                    let _ = s.shutdown(std::net::Shutdown::Write);
                    // keep draining so that later bytes are still logged
                    loop {
                        match s.read(&mut buf) {
                            Ok(0) | Err(_) => break,
                            Ok(n) => logs.lock().unwrap()[idx].bytes.extend_from_slice(&buf[..n]),
                        }
                    }
                    logs.lock().unwrap()[idx].closed = true;
                    return;
                }
            }
        }
    }
}

/// h2c (prior knowledge) recording server: decodes every request sozu sends, checks RFC 9113 section 8 on
/// the forwarded header list itself, answers 200.
fn serve_h2c(s: TcpStream, idx: usize, logs: Arc<Mutex<Vec<ConnLog>>>, tag: String, ctl: Arc<LaneCtl>) {
    s.set_nodelay(true).ok();
    let mut c = H2Conn::new(s);
    if !c.read_client_preface(Duration::from_secs(20)) {
        let mut l = logs.lock().unwrap();
        l[idx].bytes = c.fb.buf.clone();
        l[idx].closed = true;
        if !c.fb.buf.is_empty() { l[idx].h2errors.push("no h2 client preface".into()); }
        return;
    }
    c.send(&Frame::settings(&[]));
    struct St { headers: Vec<(Vec<u8>, Vec<u8>)>, block: Vec<u8>, data: usize, trailers: Option<Vec<(Vec<u8>, Vec<u8>)>>, got_headers: bool, done: bool }
    let mut streams: BTreeMap<u32, St> = BTreeMap::new();
    let mut cont: Option<(u32, bool)> = None;
    loop {
        let Some(f) = c.read_frame(Duration::from_secs(20)) else {
            logs.lock().unwrap()[idx].closed = true;
            return;
        };
        let mut finished: Option<u32> = None;
        match f.ty {
            h2::SETTINGS => { if f.flags & h2::FLAG_ACK == 0 { c.send(&Frame::settings_ack()); } }
            h2::PING => { if f.flags & h2::FLAG_ACK == 0 { let mut d = [0u8; 8]; d.copy_from_slice(&f.payload[..8]); c.send(&Frame::ping(d, true)); } }
            h2::HEADERS | h2::CONTINUATION => {
                let st = streams.entry(f.sid).or_insert(St { headers: vec![], block: vec![], data: 0, trailers: None, got_headers: false, done: false });
                let mut payload = &f.payload[..];
                let mut es = cont.map(|c| c.1).unwrap_or(false);
                if f.ty == h2::HEADERS {
                    if f.flags & h2::FLAG_PADDED != 0 { let p = payload[0] as usize; payload = &payload[1..payload.len() - p]; }
                    if f.flags & h2::FLAG_PRIORITY != 0 { payload = &payload[5..]; }
                    es = f.flags & h2::FLAG_END_STREAM != 0;
                }
                st.block.extend_from_slice(payload);
                if f.end_headers() {
                    cont = None;
                    let block = std::mem::take(&mut st.block);
                    match c.hp.decode(&block) {
                        Ok(h) => {
                            if !st.got_headers {
                                // INTERIM response (see serve_h1): HEADERS :status 100 / 103 without END_STREAM, as soon as the
                                // request head is there and its content is still to come
                                let get = |n: &[u8]| h.iter().find(|(k, _)| k == n).map(|(_, v)| lossy(v)).unwrap_or_default();
                                let expects = get(b"expect").to_ascii_lowercase().contains("100-continue");
                                let im = ctl.interim.load(Ordering::SeqCst);
                                let path = get(b":path");
                                // (only with C03_H2C_INTERIM set: sozu takes the final response HEADERS that follow a 1xx HEADERS frame of
                                //  an HTTP/2 backend for something else and answers RST_STREAM(INTERNAL_ERROR) / 502 - or, on an H1
                                //  frontend, relays "HTTP/1.1 100 FromH2" with Transfer-Encoding: chunked and nothing after it. A
                                //  response-side matter (C02's subject), reported to the coordinator; the interim dimension is
                                //  exercised with HTTP/1.1 backends.)
                                if !es && (expects || im != 0) && std::env::var("C03_H2C_INTERIM").is_ok() && path != "/sentinel" && path != "/late" && get(b":method") != "HEAD" {
                                    let code = if expects { "100".to_string() } else { im.to_string() };
                                    let blk = c.hp.encode(&[(b":status", code.as_bytes())]);
                                    c.send(&Frame::headers(f.sid, blk, true, false));
                                    logs.lock().unwrap()[idx].interims_sent += 1;
                                }
                                st.headers = h; st.got_headers = true;
                            } else { st.trailers = Some(h); }
                        }
                        Err(e) => logs.lock().unwrap()[idx].h2errors.push(format!("hpack: {e}")),
                    }
                    if es { st.done = true; finished = Some(f.sid); }
                } else {
                    cont = Some((f.sid, es));
                }
            }
            h2::DATA => {
                if let Some(st) = streams.get_mut(&f.sid) {
                    st.data += f.data_bytes().map(|d| d.len()).unwrap_or(0);
                    let n = f.payload.len() as u32;
                    if n > 0 { c.send(&Frame::window_update(0, n)); if !f.end_stream() { c.send(&Frame::window_update(f.sid, n)); } }
                    if f.end_stream() { st.done = true; finished = Some(f.sid); }
                } else {
                    logs.lock().unwrap()[idx].h2errors.push(format!("DATA on unknown stream {}", f.sid));
                }
            }
            h2::RST_STREAM => {
                if let Some(st) = streams.get(&f.sid) {
                    if !st.done {
                        let v = h2_req_json(f.sid, st.headers.clone(), st.data, st.trailers.clone(), false);
                        logs.lock().unwrap()[idx].h2reqs.push(v);
                    }
                }
                streams.remove(&f.sid);
            }
            h2::GOAWAY => {}
            _ => {}
        }
        if let Some(sid) = finished {
            let st = streams.remove(&sid).unwrap();
            let v = h2_req_json(sid, st.headers, st.data, st.trailers, true);
            let path = v["path"].as_str().unwrap_or("").to_string();
            let method = v["method"].as_str().unwrap_or("").to_string();
            logs.lock().unwrap()[idx].h2reqs.push(v);
            let body = format!("{tag}:{path}");
            // HEAD is answered without DATA, CONNECT is refused (405): see serve_h1
            let status: &[u8] = if method == "CONNECT" { b"405" } else { b"200" };
            if method == "HEAD" {
                // (no content-length on the answer to HEAD unless C03_H2C_HEAD_CL is set: sozu refuses a HEADERS frame that
                //  carries END_STREAM and a non-zero content-length unless the status is 1xx/204/304 - pkawa's body_exempt
                //  does not know HEAD - and answers 502. A response-side matter, reported to the coordinator; not C03's subject.)
                let blk = if std::env::var("C03_H2C_HEAD_CL").is_ok() {
                    c.hp.encode(&[(b":status", status), (b"content-length", body.len().to_string().as_bytes()), (b"x-backend", tag.as_bytes())])
                } else { c.hp.encode(&[(b":status", status), (b"x-backend", tag.as_bytes())]) };
                c.send(&Frame::headers(sid, blk, true, true));
            } else {
                let blk = c.hp.encode(&[(b":status", status), (b"content-length", body.len().to_string().as_bytes()), (b"x-backend", tag.as_bytes())]);
                c.send(&Frame::headers(sid, blk, true, false));
                c.send(&Frame::data(sid, body.into_bytes(), true));
            }
        }
    }
}

fn lossy(b: &[u8]) -> String { b.iter().map(|&c| c as char).collect() }

/// RFC 9113 section 8 checks on a header list as received by an h2c backend.
fn h2_req_json(sid: u32, headers: Vec<(Vec<u8>, Vec<u8>)>, data: usize, trailers: Option<Vec<(Vec<u8>, Vec<u8>)>>, complete: bool) -> Value {
    let mut errs: Vec<String> = Vec::new();
    let mut seen_regular = false;
    let mut pseudo: BTreeMap<String, String> = BTreeMap::new();
    let mut cl: Vec<String> = Vec::new();
    let mut names = Vec::new();
    let mut host = None;
    for (k, v) in &headers {
        let ks = lossy(k);
        names.push(ks.clone());
        if k.first() == Some(&b':') {
            if seen_regular { errs.push(format!("pseudo-header {ks} after a regular field")); }
            if !matches!(ks.as_str(), ":method" | ":scheme" | ":authority" | ":path") { errs.push(format!("unknown pseudo-header {ks}")); }
            if pseudo.insert(ks.clone(), lossy(v)).is_some() { errs.push(format!("duplicate pseudo-header {ks}")); }
        } else {
            seen_regular = true;
            if k.is_empty() || !k.iter().all(|&b| strict::is_tchar(b) && !b.is_ascii_uppercase()) { errs.push(format!("invalid field name {ks:?}")); }
            if matches!(ks.as_str(), "connection" | "keep-alive" | "proxy-connection" | "transfer-encoding" | "upgrade") { errs.push(format!("connection-specific field {ks}")); }
            if ks == "te" && !v.eq_ignore_ascii_case(b"trailers") { errs.push("te other than trailers".into()); }
            if ks == "content-length" { cl.push(lossy(v)); }
            if ks == "host" { host = Some(lossy(v)); }
        }
        if v.iter().any(|&b| b == 0 || b == b'\r' || b == b'\n') { errs.push(format!("forbidden byte in value of {ks}")); }
        if v.first().is_some_and(|&b| b == b' ' || b == b'\t') || v.last().is_some_and(|&b| b == b' ' || b == b'\t') { errs.push(format!("leading/trailing whitespace in value of {ks}")); }
    }
    if pseudo.get(":method").map(|m| m.as_str()) == Some("CONNECT") {
        // RFC 9113 8.5: :scheme and :path MUST be omitted, :authority names the tunnel destination
        for p in [":scheme", ":path"] { if pseudo.contains_key(p) { errs.push(format!("CONNECT request with {p} (malformed, RFC 9113 8.5)")); } }
        if !pseudo.contains_key(":authority") { errs.push("CONNECT request without :authority".into()); }
    } else {
        for p in [":method", ":scheme", ":path"] { if !pseudo.contains_key(p) { errs.push(format!("missing {p}")); } }
        if pseudo.get(":path").is_some_and(|p| p == "*") && pseudo.get(":method").map(|m| m.as_str()) != Some("OPTIONS") { errs.push(":path * with a method other than OPTIONS".into()); }
    }
    if pseudo.get(":method").is_some_and(|m| m.is_empty() || !m.bytes().all(strict::is_tchar)) { errs.push("method is not a token".into()); }
    if let (Some(h), Some(a)) = (&host, pseudo.get(":authority")) { if !h.eq_ignore_ascii_case(a) { errs.push("host differs from :authority".into()); } }
    if cl.len() > 1 { errs.push("more than one content-length".into()); }
    let mut framing = "h2";
    if let Some(c) = cl.first() {
        framing = "h2+cl";
        if c.is_empty() || !c.bytes().all(|b| b.is_ascii_digit()) { errs.push(format!("invalid content-length {c:?}")); }
        else if complete && c.parse::<usize>().ok() != Some(data) { errs.push(format!("content-length {c} but {data} DATA bytes")); }
    }
    let mut tnames = Vec::new();
    if let Some(t) = &trailers {
        for (k, v) in t {
            let ks = lossy(k);
            if k.first() == Some(&b':') { errs.push(format!("pseudo-header {ks} in trailers")); }
            if v.iter().any(|&b| b == 0 || b == b'\r' || b == b'\n') { errs.push(format!("forbidden byte in trailer value of {ks}")); }
            tnames.push(ks);
        }
    }
    json!({"sid": sid, "method": pseudo.get(":method"), "path": pseudo.get(":path"), "authority": pseudo.get(":authority").or(host.as_ref()),
           "scheme": pseudo.get(":scheme"), "framing": framing, "body_len": data, "names": names, "trailers": tnames, "complete": complete, "errors": errs})
}

// =====================================================================================
// lanes: one pair of clusters (A = model host "h", B = model host "h2") per lane, own backends
// =====================================================================================

struct Lane {
    k: usize,
    epoch: Arc<AtomicU64>,
    ctl: Arc<LaneCtl>,
    host_a: String,
    host_b: String,
    back_a: Backend,
    back_b: Backend,
}

struct Env {
    front_h1: SocketAddr,
    front_h2: SocketAddr,
    backend_kind: &'static str,
}

fn bytes_of(s: &str) -> Vec<u8> { s.chars().map(|c| c as u32 as u8).collect() }

// ---- client observations ---------------------------------------------------------------

#[derive(Debug, Clone, Default)]
struct ClientObs {
    /// H1: status codes of the responses read, in order. H2: per stream outcome strings.
    statuses: Vec<String>,
    closed: bool,
    timed_out: bool,
    raw: String,
    /// which backend tag answered each response (X-Backend)
    answered_by: Vec<String>,
    /// interim (1xx) responses relayed to the client (H1: on the connection; H2: on the probe's stream)
    interims: usize,
    /// `late` probes: the backend held the head and all the DATA when the trailer frame was sent
    held: bool,
}

/// Minimal response splitter for what comes back on the H1 client connection.
fn split_responses(buf: &[u8]) -> (Vec<(u16, String, usize)>, usize) {
    let mut out = Vec::new();
    let mut pos = 0;
    loop {
        let rest = &buf[pos..];
        let Some(he) = rest.windows(4).position(|w| w == b"\r\n\r\n") else { return (out, pos) };
        let head = String::from_utf8_lossy(&rest[..he]).to_string();
        let mut lines = head.split("\r\n");
        let sl = lines.next().unwrap_or("");
        let code: u16 = sl.split(' ').nth(1).and_then(|c| c.parse().ok()).unwrap_or(0);
        let mut cl = 0usize;
        let mut by = String::new();
        let mut no_content = false;
        for l in lines {
            let ll = l.to_ascii_lowercase();
            if let Some(v) = ll.strip_prefix("content-length:") { cl = v.trim().parse().unwrap_or(0); }
            if let Some(v) = ll.strip_prefix("x-backend:") { by = v.trim().to_string(); }
            if ll.starts_with("x-backend-reject:") { by = "backend-reject".into(); }
            // the recording backend marks its answers to HEAD (Content-Length of the representation, no content)
            if ll.starts_with("x-no-content:") { no_content = true; }
        }
        if no_content || (100..200).contains(&code) { cl = 0; }
        if rest.len() < he + 4 + cl { return (out, pos); }
        out.push((code, by, he + 4 + cl));
        pos += he + 4 + cl;
    }
}

/// H1 client: writes `segments` (each a separate write, tiny pause between), in `pipelined` mode the
/// sentinel is the last segment(s); otherwise the sentinel is sent after the first response arrived
/// (or after `wait` without one).
/// `after_first`: the rest of the probe (the body its head announces), sent once the first answer arrived - a backend that
/// answers from the request head - or after a short wait without one; then the sentinel (non-pipelined mode only).
/// `interim_wait`: the rest of the probe is sent as soon as ANY response head arrived - an interim `100 Continue` / `103` relayed
/// by sozu, or a final answer - or after 300 ms without one (interim responses are never counted as answers).
#[allow(clippy::too_many_arguments)]
fn h1_client(addr: SocketAddr, probe_segments: &[Vec<u8>], after_first: &[u8], sentinel: &[u8], pipelined: bool, expect: usize, wait: Duration, interim_wait: bool) -> ClientObs {
    let mut obs = ClientObs::default();
    let Ok(mut s) = TcpStream::connect_timeout(&addr, Duration::from_secs(2)) else { obs.closed = true; obs.raw = "connect failed".into(); return obs; };
    s.set_nodelay(true).ok();
    let mut got: Vec<u8> = Vec::new();
    let mut buf = [0u8; 16384];
    let mut write_err = false;
    for (i, seg) in probe_segments.iter().enumerate() {
        if seg.is_empty() { continue; }
        if s.write_all(seg).is_err() { write_err = true; break; }
        if i + 1 < probe_segments.len() { std::thread::sleep(Duration::from_micros(700)); }
    }
    let is_final = |r: &(u16, String, usize)| !(100..200).contains(&r.0);
    let mut read_some = |s: &mut TcpStream, got: &mut Vec<u8>, until: Instant, want: usize, obs: &mut ClientObs| {
        loop {
            // want == 0: any response head, interim or final
            let rs = split_responses(got).0;
            if (want == 0 && !rs.is_empty()) || (want > 0 && rs.iter().filter(|r| is_final(r)).count() >= want) { return; }
            let now = Instant::now();
            if now >= until { obs.timed_out = true; return; }
            s.set_read_timeout(Some((until - now).max(Duration::from_millis(1)))).ok();
            match s.read(&mut buf) {
                Ok(0) => { obs.closed = true; return; }
                Ok(n) => got.extend_from_slice(&buf[..n]),
                Err(e) if e.kind() == std::io::ErrorKind::WouldBlock || e.kind() == std::io::ErrorKind::TimedOut => { obs.timed_out = true; return; }
                Err(_) => { obs.closed = true; return; }
            }
        }
    };
    if pipelined {
        if !write_err { let _ = s.write_all(sentinel); }
        read_some(&mut s, &mut got, Instant::now() + wait, expect, &mut obs);
    } else if !after_first.is_empty() {
        if interim_wait { read_some(&mut s, &mut got, Instant::now() + Duration::from_millis(300), 0, &mut obs); }
        else { read_some(&mut s, &mut got, Instant::now() + Duration::from_millis(150), 1, &mut obs); }
        if !obs.closed {
            obs.timed_out = false;
            // (a pause: the answer has been relayed; does sozu still know that the announced body is to come?)
            std::thread::sleep(Duration::from_millis(5));
            let _ = s.write_all(after_first);
            std::thread::sleep(Duration::from_millis(5));
            let _ = s.write_all(sentinel);
            read_some(&mut s, &mut got, Instant::now() + wait, expect, &mut obs);
        }
    } else {
        read_some(&mut s, &mut got, Instant::now() + wait, 1, &mut obs);
        if !obs.closed {
            obs.timed_out = false;
            let _ = s.write_all(sentinel);
            read_some(&mut s, &mut got, Instant::now() + wait, expect, &mut obs);
        }
    }
    // after the expected number of responses, see whether the connection gets closed / more arrives
    if !obs.closed && !obs.timed_out {
        s.set_read_timeout(Some(Duration::from_millis(30))).ok();
        match s.read(&mut buf) {
            Ok(0) => obs.closed = true,
            Ok(n) => got.extend_from_slice(&buf[..n]),
            Err(_) => {}
        }
    }
    let (rs, _) = split_responses(&got);
    for (code, by, _) in rs {
        if (100..200).contains(&code) { obs.interims += 1; continue; }
        obs.statuses.push(code.to_string()); obs.answered_by.push(by);
    }
    obs.raw = lossy(&got[..got.len().min(600)]);
    obs
}

/// One H2 probe: header list for stream 1 (+ optional CONTINUATION split), DATA frames, optional trailers;
/// then the sentinel on stream 3.
#[derive(Clone, Debug, Default)]
struct H2Probe {
    headers: Vec<(Vec<u8>, Vec<u8>)>,
    end_stream_on_headers: bool,
    /// (payload, end_stream)
    data: Vec<(Vec<u8>, bool)>,
    /// trailer field list and its END_STREAM flag
    trailers: Option<(Vec<(Vec<u8>, Vec<u8>)>, bool)>,
    split_continuation: bool,
    pad_data: bool,
    /// pause between frames of the probe (lets sozu forward the head before the body arrives)
    gap_ms: u64,
    /// the sentinel's HEADERS go between the probe's HEADERS and its first DATA / trailer frame (a gap on either side):
    /// if the backend answered the probe from its head meanwhile, is the backend connection - on which the probe's request
    /// is still incomplete - handed to the sentinel?
    sentinel_mid: bool,
    /// explore mode only: after the HEADERS (and a gap) the client abandons the stream with RST_STREAM(CANCEL) instead of
    /// sending DATA; the sentinel follows after another gap
    rst_mid: bool,
    /// `interim` cases: DATA / trailers are sent once an interim (1xx) response head arrived on the probe's stream
    wait_interim: bool,
    /// `late` cases: the trailer frame is held back until a backend holds the head and the DATA (the backends keep their
    /// answer back until the trailers were sent)
    late_trailers: bool,
}

/// Frames read on the client connection, whenever they are read (while the probe is still being sent, or after)
#[derive(Default)]
struct H2Seen {
    out: BTreeMap<u32, String>,
    by: BTreeMap<u32, String>,
    goaway: Option<u32>,
    log: String,
    /// interim (1xx) response heads per stream
    interims: BTreeMap<u32, usize>,
    late_sent: bool,
}

fn h2_on_frame(c: &mut H2Conn<h2::TlsStream>, st: &mut H2Seen, f: &Frame) {
    match f.ty {
        h2::SETTINGS => { if f.flags & h2::FLAG_ACK == 0 { c.send(&Frame::settings_ack()); } }
        h2::HEADERS => {
            match c.hp.decode(&f.payload) {
                Ok(h) => {
                    let status = h.iter().find(|(k, _)| k == b":status").map(|(_, v)| lossy(v)).unwrap_or_default();
                    st.log.push_str(&format!("[HEADERS sid={} status={} es={}]", f.sid, status, f.end_stream()));
                    // an interim response (RFC 9110 15.2) is not the answer: the final response follows on the same stream
                    if status.len() == 3 && status.starts_with('1') && !f.end_stream() { *st.interims.entry(f.sid).or_insert(0) += 1; return; }
                    if let Some((_, v)) = h.iter().find(|(k, _)| k == b"x-backend") { st.by.insert(f.sid, lossy(v)); }
                    if h.iter().any(|(k, _)| k == b"x-backend-reject") { st.by.insert(f.sid, "backend-reject".into()); }
                    if f.end_stream() { st.out.insert(f.sid, status); } else { st.out.entry(f.sid).or_insert(format!("~{status}")); }
                }
                Err(e) => st.log.push_str(&format!("[HEADERS sid={} undecodable {e}]", f.sid)),
            }
        }
        h2::DATA => {
            st.log.push_str(&format!("[DATA sid={} len={} es={}]", f.sid, f.payload.len(), f.end_stream()));
            if f.end_stream() { if let Some(s) = st.out.get_mut(&f.sid) { if let Some(x) = s.strip_prefix('~') { *s = x.to_string(); } } }
        }
        h2::RST_STREAM => { let code = f.u32_at(0).unwrap_or(999); st.log.push_str(&format!("[RST sid={} code={}]", f.sid, code)); st.out.insert(f.sid, format!("rst:{code}")); }
        h2::GOAWAY => { let code = f.u32_at(4).unwrap_or(999); let last = f.u32_at(0).unwrap_or(0) & 0x7fff_ffff; st.log.push_str(&format!("[GOAWAY last={last} code={code}]")); st.goaway = Some(code);
            for sid in [1u32, 3u32, 5u32] { if sid > last && (sid < 5 || st.late_sent) { st.out.entry(sid).or_insert(format!("goaway:{code}")); } } }
        h2::WINDOW_UPDATE | h2::PING => {}
        t => st.log.push_str(&format!("[frame ty={t} sid={}]", f.sid)),
    }
}

/// Does a backend connection of the lane's current probe hold a complete request head followed by at least `n` more bytes?
fn backend_holds(lane: &Lane, epoch: u64, n: usize) -> bool {
    [&lane.back_a, &lane.back_b].iter().any(|b| b.logs.lock().unwrap().iter().any(|c| c.epoch == epoch
        && c.bytes.windows(4).position(|w| w == b"\r\n\r\n").is_some_and(|p| c.bytes.len() >= p + 4 + n)))
}

/// `late`: a further request (stream 5) sent once the probe's stream and the sentinel's were both answered by a backend:
/// by then the backend connection that carried the probe is back in sozu's pool, so the late request is written on a
/// connection whose peer may still be waiting for (or have been sent more than) the content the probe announced.
/// `pace`: the lane and the epoch of the probe - what `wait_interim` / `late_trailers` look at (backend logs) and act on (hold).
#[allow(clippy::too_many_arguments)]
fn h2_client(addr: SocketAddr, probe: &H2Probe, sentinel_headers: &[(Vec<u8>, Vec<u8>)], late: Option<&[(Vec<u8>, Vec<u8>)]>, sentinel_first: bool, wait: Duration, pace: Option<(&Lane, u64)>) -> ClientObs {
    let mut obs = ClientObs::default();
    let mut c = match h2::h2_tls_client(addr, "localhost", Duration::from_secs(3)) {
        Ok(c) => c,
        Err(e) => { obs.closed = true; obs.raw = format!("tls: {e}"); return obs; }
    };
    c.client_preface(&[]);
    let mut st = H2Seen::default();
    let mut held = false;
    let mut send_probe = |c: &mut H2Conn<h2::TlsStream>, st: &mut H2Seen, sid: u32, mid: Option<u32>| {
        let block = c.hp.encode_owned(&probe.headers);
        if probe.split_continuation && block.len() > 2 {
            let cut = block.len() / 2;
            c.send(&Frame::headers(sid, block[..cut].to_vec(), false, probe.end_stream_on_headers));
            c.send(&Frame::continuation(sid, block[cut..].to_vec(), true));
        } else {
            c.send(&Frame::headers(sid, block, true, probe.end_stream_on_headers));
        }
        if probe.rst_mid {
            std::thread::sleep(Duration::from_millis(probe.gap_ms.max(25)));
            c.send(&Frame::rst(sid, 8));
            std::thread::sleep(Duration::from_millis(probe.gap_ms.max(25)));
            return;
        }
        if let Some(ssid) = mid {
            std::thread::sleep(Duration::from_millis(probe.gap_ms.max(25)));
            let block = c.hp.encode_owned(sentinel_headers);
            c.send(&Frame::headers(ssid, block, true, true));
            std::thread::sleep(Duration::from_millis(probe.gap_ms.max(25)));
        }
        // The DATA (and trailers) go out only once an interim response of the backend was relayed on this stream - an event, not
        // a pause - or the stream was refused, or 400 ms passed without either (no backend reached: a head sozu refuses).
        if probe.wait_interim && !probe.end_stream_on_headers {
            let until = Instant::now() + Duration::from_millis(400);
            while st.interims.get(&sid).is_none() && !st.out.contains_key(&sid) && st.goaway.is_none() && !c.eof {
                let now = Instant::now();
                if now >= until { break; }
                if let Some(f) = c.read_frame(until - now) { h2_on_frame(c, st, &f); }
            }
        }
        for (d, es) in &probe.data {
            if probe.gap_ms > 0 { std::thread::sleep(Duration::from_millis(probe.gap_ms)); }
            if probe.pad_data { c.send(&Frame::data_padded(sid, d, 3, *es)); } else { c.send(&Frame::data(sid, d.clone(), *es)); }
        }
        if let Some((t, es)) = &probe.trailers {
            if probe.gap_ms > 0 { std::thread::sleep(Duration::from_millis(probe.gap_ms)); }
            // The trailer frame is held back until a backend HOLDS the head and all the DATA (an event read from the backend's
            // log; 300 ms at most: a request sozu refused never gets there): whatever sozu queued for the backend has left its
            // queue when the trailers are handled. The backends keep their answer back meanwhile (`hold`), so the exchange is
            // still open on both sides; they are released a moment after the trailers went out.
            if probe.late_trailers {
                if let Some((lane, epoch)) = pace {
                    let total: usize = probe.data.iter().map(|(d, _)| d.len()).sum();
                    let until = Instant::now() + Duration::from_millis(300);
                    while Instant::now() < until {
                        if backend_holds(lane, epoch, total) { held = true; break; }
                        std::thread::sleep(Duration::from_micros(500));
                    }
                    if held { std::thread::sleep(Duration::from_millis(3)); }
                }
            }
            let block = c.hp.encode_owned(t);
            c.send(&Frame::headers(sid, block, true, *es));
            if probe.late_trailers {
                if let Some((lane, _)) = pace {
                    std::thread::sleep(Duration::from_millis(40));
                    lane.ctl.hold.store(false, Ordering::SeqCst);
                }
            }
        }
    };
    let send_sentinel = |c: &mut H2Conn<h2::TlsStream>, sid: u32| {
        let block = c.hp.encode_owned(sentinel_headers);
        c.send(&Frame::headers(sid, block, true, true));
    };
    let (psid, ssid) = if sentinel_first { (3u32, 1u32) } else { (1u32, 3u32) };
    let mid = probe.sentinel_mid && !sentinel_first && !probe.end_stream_on_headers;
    if sentinel_first { send_sentinel(&mut c, ssid); send_probe(&mut c, &mut st, psid, None); }
    else if mid { send_probe(&mut c, &mut st, psid, Some(ssid)); }
    else { send_probe(&mut c, &mut st, psid, None); send_sentinel(&mut c, ssid); }
    if let Some((lane, _)) = pace { lane.ctl.hold.store(false, Ordering::SeqCst); }
    // outcome per stream
    let mut deadline = Instant::now() + wait;
    if probe.rst_mid { st.out.insert(psid, "cancel".into()); }
    loop {
        let both = |st: &H2Seen| st.out.get(&1).is_some_and(|s| !s.starts_with('~')) && st.out.get(&3).is_some_and(|s| !s.starts_with('~'));
        if !both(&st) {
            let now = Instant::now();
            if now >= deadline { if !st.late_sent { obs.timed_out = true; } break; }
            let Some(f) = c.read_frame(deadline - now) else {
                if c.eof { obs.closed = true; break; }
                continue;
            };
            h2_on_frame(&mut c, &mut st, &f);
        }
        // a stream whose headers arrived without END_STREAM completes on DATA+ES (handled in h2_on_frame)
        if both(&st) {
            if st.late_sent {
                if st.out.get(&5).is_some_and(|s| !s.starts_with('~')) { break; }
                let now = Instant::now();
                if now >= deadline { break; }
                match c.read_frame(deadline - now) { Some(f) => h2_on_frame(&mut c, &mut st, &f), None => if c.eof { obs.closed = true; break; } }
                continue;
            }
            // both answered by a backend (not reset / refused by sozu), connection alive: the late request
            let served = |sid: u32| st.by.get(&sid).is_some_and(|b| !b.is_empty());
            match late {
                Some(h) if st.goaway.is_none() && served(psid) && served(ssid) => {
                    let block = c.hp.encode_owned(h);
                    c.send(&Frame::headers(5, block, true, true));
                    st.late_sent = true;
                    deadline = Instant::now() + wait.min(Duration::from_millis(1500));
                }
                _ => break,
            }
        }
    }
    let fin = |sid: u32| -> String {
        match st.out.get(&sid) {
            Some(s) => s.clone(),
            None => if let Some(c) = st.goaway { format!("goaway:{c}") } else if obs.closed { "closed".into() } else { "none".into() },
        }
    };
    obs.statuses = vec![fin(psid), fin(ssid)];
    obs.answered_by = vec![st.by.get(&psid).cloned().unwrap_or_default(), st.by.get(&ssid).cloned().unwrap_or_default()];
    if st.late_sent { obs.statuses.push(fin(5)); obs.answered_by.push(st.by.get(&5).cloned().unwrap_or_default()); }
    obs.interims = st.interims.get(&psid).copied().unwrap_or(0);
    obs.held = held;
    obs.raw = st.log;
    obs
}

// ---- backend observation -------------------------------------------------------------------

#[derive(Debug, Clone)]
struct SeenReq {
    cluster: &'static str,
    conn: usize,
    method: String,
    target: String,
    host: String,
    framing: String,
    body_len: usize,
    body: Vec<u8>,
    names: Vec<String>,
    trailers: Vec<String>,
    complete: bool,
    errors: Vec<String>,
    chunks: usize,
    /// number of `Sozu-Id` fields: sozu appends one to every request IT understood as a request
    sozu_ids: usize,
}

#[derive(Debug, Clone, Default)]
struct BackObs {
    reqs: Vec<SeenReq>,
    /// per connection anomalies: (cluster, conn, kind, detail)
    anomalies: Vec<(String, usize, String, String)>,
    raw: Vec<(String, usize, String, bool)>,
    open_conns: usize,
    /// HEAD requests a backend answered from the head, before the content they announced was there
    early_heads: usize,
    /// interim responses the backends sent
    interims: usize,
}

fn collect_backend(lane: &Lane, epoch: u64, kind: &str, settle: Duration) -> BackObs {
    // every connection sozu opened so far is attributed (FIFO accept + marker connection) ...
    let ba = barrier(&lane.back_a, epoch);
    let bb = barrier(&lane.back_b, epoch);
    // ... then wait until every connection of this epoch was closed by sozu (deterministic end of the probe)
    let deadline = Instant::now() + settle;
    loop {
        let open = [&lane.back_a, &lane.back_b].iter().map(|b| b.logs.lock().unwrap().iter().filter(|c| c.epoch == epoch && !c.closed).count()).sum::<usize>();
        if open == 0 || Instant::now() >= deadline { break; }
        std::thread::sleep(Duration::from_millis(2));
    }
    let mut obs = BackObs::default();
    if !ba || !bb { obs.anomalies.push(("-".into(), 0, "harness-barrier-timeout".into(), String::new())); }
    for (cl, b) in [("A", &lane.back_a), ("B", &lane.back_b)] {
        let logs = b.logs.lock().unwrap();
        for (ci, c) in logs.iter().enumerate() {
            if c.epoch != epoch { continue; }
            if !c.closed { obs.open_conns += 1; }
            obs.early_heads += c.early_head_answers;
            obs.interims += c.interims_sent;
            obs.raw.push((cl.to_string(), ci, lossy(&c.bytes[..c.bytes.len().min(1500)]), c.closed));
            if kind == "h2c" {
                for e in &c.h2errors { obs.anomalies.push((cl.into(), ci, "h2-error".into(), e.clone())); }
                for r in &c.h2reqs {
                    let errs: Vec<String> = r["errors"].as_array().unwrap().iter().map(|e| e.as_str().unwrap().to_string()).collect();
                    obs.reqs.push(SeenReq { cluster: cl, conn: ci, method: r["method"].as_str().unwrap_or("").into(), target: r["path"].as_str().unwrap_or("").into(),
                        host: r["authority"].as_str().unwrap_or("").into(), framing: r["framing"].as_str().unwrap().into(), body_len: r["body_len"].as_u64().unwrap() as usize, body: vec![],
                        names: r["names"].as_array().unwrap().iter().map(|e| e.as_str().unwrap().to_string()).collect(),
                        trailers: r["trailers"].as_array().unwrap().iter().map(|e| e.as_str().unwrap().to_string()).collect(),
                        complete: r["complete"].as_bool().unwrap(), errors: errs, chunks: 0,
                        sozu_ids: r["names"].as_array().unwrap().iter().filter(|e| e.as_str() == Some("sozu-id")).count() });
                }
            } else {
                let (reqs, tail) = strict::read_all(&c.bytes);
                for r in reqs {
                    obs.reqs.push(SeenReq { cluster: cl, conn: ci, method: r.method, target: r.target, host: r.host.unwrap_or_default(), framing: r.framing.into(), body_len: r.body.len(), body: r.body,
                        sozu_ids: r.headers.iter().filter(|(n, _)| n == "sozu-id").count(),
                        names: r.headers.iter().map(|(n, _)| n.clone()).collect(), trailers: r.trailers.iter().map(|(n, _)| n.clone()).collect(), complete: true, errors: vec![], chunks: r.chunks });
                }
                match tail {
                    strict::Tail::Clean => {}
                    strict::Tail::Partial(w) => obs.anomalies.push((cl.into(), ci, format!("partial-{w}"), lossy(&c.bytes[..c.bytes.len().min(300)]))),
                    strict::Tail::Error(e) => obs.anomalies.push((cl.into(), ci, "unreadable".into(), e)),
                }
            }
        }
    }
    obs
}

fn back_json(b: &BackObs) -> Value {
    json!({
        "requests": b.reqs.iter().map(|r| json!({"cluster": r.cluster, "conn": r.conn, "method": r.method, "target": r.target, "host": r.host, "framing": r.framing,
            "body_len": r.body_len, "body": lossy(&r.body[..r.body.len().min(80)]), "sozu_ids": r.sozu_ids, "names": r.names, "trailers": r.trailers, "complete": r.complete, "errors": r.errors, "chunks": r.chunks})).collect::<Vec<_>>(),
        "anomalies": b.anomalies, "raw": b.raw, "open_conns": b.open_conns, "early_head_answers": b.early_heads, "interims_sent": b.interims })
}

// =====================================================================================
// set-up
// =====================================================================================

fn setup(nlanes: usize, backend_kind: &'static str, stop: Arc<AtomicBool>) -> (Worker, Env, Vec<Arc<Lane>>) {
    let t = Duration::from_secs(5);
    let mut w = Worker::start_empty("c03");
    let front_h1 = free_addr();
    let front_h2 = free_addr();
    assert!(w.add_http_listener(front_h1, t), "http listener");
    // https listener with the SNI/authority binding switched off (that binding is C13/C17's subject;
    // here the authority must be free to name either cluster)
    let mut l = ListenerBuilder::new_https(front_h2.into()).to_tls(None).expect("https listener");
    l.strict_sni_binding = Some(false);
    assert!(ok(&w.request(RequestType::AddHttpsListener(l), t)));
    assert!(ok(&w.request(RequestType::ActivateListener(ActivateListener { address: front_h2.into(), proxy: ListenerType::Https.into(), from_scm: false }), t)));
    assert!(ok(&w.request(RequestType::AddCertificate(AddCertificate { address: front_h2.into(),
        certificate: CertificateAndKey { certificate: LOCAL_CERT.to_string(), key: LOCAL_KEY.to_string(), certificate_chain: vec![], versions: vec![], names: vec![] }, expired_at: None }), t)));
    let mut lanes = Vec::new();
    for k in 0..nlanes {
        let epoch = Arc::new(AtomicU64::new(0));
        let host_a = format!("a{k}.test");
        let host_b = format!("b{k}.test");
        let ctl = Arc::new(LaneCtl::default());
        let back_a = spawn_backend(backend_kind, "A".into(), epoch.clone(), ctl.clone(), stop.clone());
        let back_b = spawn_backend(backend_kind, "B".into(), epoch.clone(), ctl.clone(), stop.clone());
        for (cid, host, back) in [(format!("A{k}"), &host_a, &back_a), (format!("B{k}"), &host_b, &back_b)] {
            let cl = Cluster { cluster_id: cid.clone(), http2: if backend_kind == "h2c" { Some(true) } else { None }, ..Default::default() };
            assert!(ok(&w.request(RequestType::AddCluster(cl), t)));
            assert!(ok(&w.request(RequestType::AddHttpFrontend(Worker::http_frontend(&cid, front_h1, host, "/")), t)));
            assert!(ok(&w.request(RequestType::AddHttpsFrontend(Worker::http_frontend(&cid, front_h2, host, "/")), t)));
            assert!(ok(&w.request(RequestType::AddBackend(Worker::backend(&cid, &format!("{cid}-1"), back.addr)), t)));
        }
        lanes.push(Arc::new(Lane { k, epoch, ctl, host_a, host_b, back_a, back_b }));
    }
    (w, Env { front_h1, front_h2, backend_kind }, lanes)
}

fn sentinel_h1(lane: &Lane) -> Vec<u8> {
    format!("GET /sentinel HTTP/1.1\r\nHost: {}\r\nX-Sentinel: 1\r\n\r\n", lane.host_a).into_bytes()
}
fn sentinel_h2(lane: &Lane) -> Vec<(Vec<u8>, Vec<u8>)> {
    vec![(b":method".to_vec(), b"GET".to_vec()), (b":scheme".to_vec(), b"https".to_vec()), (b":authority".to_vec(), lane.host_a.clone().into_bytes()),
         (b":path".to_vec(), b"/sentinel".to_vec()), (b"x-sentinel".to_vec(), b"1".to_vec())]
}

fn late_h2(lane: &Lane) -> Vec<(Vec<u8>, Vec<u8>)> {
    vec![(b":method".to_vec(), b"GET".to_vec()), (b":scheme".to_vec(), b"https".to_vec()), (b":authority".to_vec(), lane.host_a.clone().into_bytes()),
         (b":path".to_vec(), b"/late".to_vec()), (b"x-sentinel".to_vec(), b"2".to_vec())]
}

// =====================================================================================
// explore mode
// =====================================================================================

fn pairs(v: &Value) -> Vec<(Vec<u8>, Vec<u8>)> {
    v.as_array().map(|a| a.iter().map(|p| (bytes_of(p[0].as_str().unwrap_or("")), bytes_of(p[1].as_str().unwrap_or("")))).collect()).unwrap_or_default()
}

fn explore(env: &Env, lane: &Lane, line: &Value) -> Value {
    let epoch = lane.epoch.fetch_add(1, Ordering::SeqCst) + 1;
    let wait = Duration::from_millis(line["wait_ms"].as_u64().unwrap_or(1200));
    let subst = |s: &str| s.replace("$A", &lane.host_a).replace("$B", &lane.host_b);
    let cobs = if line["front"] == "h2" {
        let mut p = H2Probe::default();
        p.headers = line["headers"].as_array().unwrap().iter().map(|h| (bytes_of(h[0].as_str().unwrap()), bytes_of(&subst(h[1].as_str().unwrap())))).collect();
        p.data = line["data"].as_array().map(|a| a.iter().map(|d| (bytes_of(d[0].as_str().unwrap()), d[1].as_bool().unwrap())).collect()).unwrap_or_default();
        p.end_stream_on_headers = line["es"].as_bool().unwrap_or(p.data.is_empty() && line["trailers"].is_null());
        if !line["trailers"].is_null() { p.trailers = Some((pairs(&line["trailers"]), line["trailers_es"].as_bool().unwrap_or(true))); }
        p.split_continuation = line["cont"].as_bool().unwrap_or(false);
        p.gap_ms = line["gap_ms"].as_u64().unwrap_or(0);
        p.sentinel_mid = line["sentinel_mid"].as_bool().unwrap_or(false);
        p.rst_mid = line["rst_mid"].as_bool().unwrap_or(false);
        p.wait_interim = line["wait_interim"].as_bool().unwrap_or(false);
        p.late_trailers = line["late_trailers"].as_bool().unwrap_or(false);
        lane.ctl.interim.store(line["interim"].as_u64().unwrap_or(0), Ordering::SeqCst);
        lane.ctl.hold.store(p.late_trailers, Ordering::SeqCst);
        let late = late_h2(lane);
        let o = h2_client(env.front_h2, &p, &sentinel_h2(lane), if line["late"].as_bool().unwrap_or(true) { Some(&late) } else { None }, line["sentinel_first"].as_bool().unwrap_or(false), wait, Some((lane, epoch)));
        lane.ctl.hold.store(false, Ordering::SeqCst);
        o
    } else {
        let raw = bytes_of(&subst(line["raw"].as_str().unwrap()));
        let pipelined = line["pipelined"].as_bool().unwrap_or(true);
        let sent = if line["no_sentinel"].as_bool().unwrap_or(false) { vec![] } else { sentinel_h1(lane) };
        lane.ctl.interim.store(line["interim"].as_u64().unwrap_or(0), Ordering::SeqCst);
        // "after": the rest of the probe, sent once an interim (or final) response arrived
        let after = bytes_of(&subst(line["after"].as_str().unwrap_or("")));
        h1_client(env.front_h1, &[raw], &after, &sent, pipelined && after.is_empty(), 2, wait, !after.is_empty())
    };
    let bobs = collect_backend(lane, epoch, env.backend_kind, Duration::from_millis(800));
    lane.ctl.interim.store(0, Ordering::SeqCst);
    json!({"client": {"statuses": cobs.statuses, "by": cobs.answered_by, "closed": cobs.closed, "timed_out": cobs.timed_out, "interims": cobs.interims, "held": cobs.held, "raw": cobs.raw}, "backend": back_json(&bobs)})
}


// =====================================================================================
// replay mode: concretisation of the spec's tokens (several spellings per token, seeded)
// =====================================================================================

struct Rng(u64);
impl Rng {
    fn new(seed: u64, a: u64, b: u64) -> Rng {
        let mut r = Rng(seed.wrapping_mul(0x9E3779B97F4A7C15) ^ a.wrapping_mul(0xD1B54A32D192ED03) ^ b.wrapping_mul(0x94D049BB133111EB) | 1);
        for _ in 0..4 { r.next(); }
        r
    }
    fn next(&mut self) -> u64 { self.0 ^= self.0 << 13; self.0 ^= self.0 >> 7; self.0 ^= self.0 << 17; self.0 }
    fn below(&mut self, n: usize) -> usize { (self.next() % n as u64) as usize }
    fn pick<'a>(&mut self, xs: &[&'a str]) -> &'a str { xs[self.below(xs.len())] }
    fn chance(&mut self, pct: u64) -> bool { self.next() % 100 < pct }
}

struct Concrete {
    /// what is written before the sentinel (H1) / the frames of the probe stream (H2)
    h1_bytes: Vec<u8>,
    h2: H2Probe,
    pipelined: bool,
    /// the sentinel goes FIRST (H1: pipelined in front of the probe, which is then parsed on sozu's keep-alive /
    /// pipelining path; H2: on the lower stream id)
    sentinel_first: bool,
    cuts: Vec<usize>,
    /// concrete request-target the probe carries (what a backend must read if it is forwarded)
    target: String,
    /// the spec's name of that target ("/p", "*", "a:80", "http://b/p", "/p q")
    spec_target: String,
    /// concrete method token sent, and the spec's name of it (GET HEAD POST CONNECT OPTIONS PURGE get)
    method: String,
    spec_method: String,
    /// H1 cases with `early`: offset of the body in `h1_bytes`; the head is sent alone, the body after the first answer
    body_after_answer: Option<usize>,
    /// `interim` cases: the rest of the probe is sent once an interim response was relayed (H1: `body_after_answer` is set);
    /// `interim_status`: 0, or the interim response the backends send of their own accord for this probe (100 / 103)
    interim_wait: bool,
    interim_status: u64,
    /// the body bytes a backend must read if the probe is forwarded
    body: Vec<u8>,
    /// field names the client sent as field names (lower-case) - anything else read by a backend that
    /// sozu does not add itself was smuggled through a value
    names: Vec<String>,
    /// trailer field names a backend may read if the probe is forwarded (after sozu's elision of
    /// routing / identity fields, pkawa::handle_trailer)
    trailers: Vec<String>,
    desc: String,
}

/// Spelling of a method token of the spec. PURGE stands for "any other method" (extension tokens with every kind of tchar,
/// and the standard methods sozu's `Method` enum knows but no framing rule mentions); `get` for a spelling that differs
/// from a standard method in case only (never of HEAD / CONNECT / OPTIONS: kawa and `Method::new` compare those without
/// case, which changes what sozu does with the RESPONSE or the request-target - see design_notes/C03.md, limits).
fn method_spelling(rng: &mut Rng, m: &str) -> String {
    match m {
        "PURGE" => rng.pick(&["PURGE", "PROPFIND", "M-SEARCH", "X_Y.Z~1", "DELETE", "PUT", "TRACE", "PATCH", "G", "GETT", "HEADER", "CONNECTX", "!#$%&'*+-.^_`|~"]).to_string(),
        "get" => rng.pick(&["get", "Get", "gET", "post", "Post", "put", "delete"]).to_string(),
        other => other.to_string(),
    }
}

fn strs(v: &Value) -> Vec<String> { v.as_array().map(|a| a.iter().map(|x| x.as_str().unwrap_or("").to_string()).collect()).unwrap_or_default() }

fn host_spelling(rng: &mut Rng, name: &str, host: &str) -> String {
    let n = rng.pick(&["Host", "host", "HOST", "hOsT"]);
    let _ = name;
    let sep = rng.pick(&[": ", ":", ":  ", ":\t"]);
    // (upper-case host names are not routed by sozu: a C04 matter, kept out of here)
    let h = if rng.chance(20) { format!("{host}:{}", rng.pick(&["80", "8080", "443"])) } else { host.to_string() };
    format!("{n}{sep}{h}\r\n")
}

/// The framing sozu is predicted to settle on decides which body is sent, so that a forwarded probe is
/// always a complete message (and the sentinel really is the next message).
fn h1_body_plan(c: &Value, code: &Value) -> (&'static str, usize) {
    if code["cls"] == "fwd" {
        let u = &code["understood"][0];
        return match u["framing"].as_str().unwrap_or("") {
            "cl" => ("cl", u["len"].as_u64().unwrap_or(0) as usize),
            "chunked" => ("chunked", 5),
            _ => ("none", 0),
        };
    }
    let hdrs = strs(&c["hdrs"]);
    if hdrs.iter().any(|t| t.starts_with("te:")) { return ("chunked", 5); }
    if hdrs.iter().any(|t| t == "cl:3") && !hdrs.iter().any(|t| t == "cl:5") { return ("cl", 3); }
    if hdrs.iter().any(|t| t.starts_with("cl:")) { return ("cl", 5); }
    ("none", 0)
}

fn concretise_h1(c: &Value, code: &Value, lane: &Lane, rng: &mut Rng, allow_pipelining: bool) -> Concrete {
    let mut names: Vec<String> = vec!["host".into()];
    let mut desc = String::new();
    let path = rng.pick(&["/p", "/p", "/p?x=1", "/p/q.html"]).to_string();
    let rl = c["rl"].as_str().unwrap();
    let spec_method = c["m"].as_str().unwrap_or("POST").to_string();
    let method = method_spelling(rng, &spec_method);
    let mut target = path.clone();
    let mut spec_target = "/p".to_string();
    let line = match rl {
        "ok" => format!("{method} {path} HTTP/1.1"),
        "http10" => format!("{method} {path} HTTP/1.0"),
        "abs:b" => { target = format!("http://{}{}", lane.host_b, path); spec_target = "http://b/p".into(); format!("{method} {target} HTTP/1.1") }
        "star" => { target = "*".into(); spec_target = "*".into(); format!("{method} * HTTP/1.1") }
        // authority-form: host:port of cluster A
        "auth" => { target = format!("{}:{}", lane.host_a, rng.pick(&["80", "443", "8080"])); spec_target = "a:80".into(); format!("{method} {target} HTTP/1.1") }
        "badmethod" => match rng.below(4) { 0 => format!("PO(ST {path} HTTP/1.1"), 1 => format!("P\u{0}ST {path} HTTP/1.1"), 2 => format!("P\u{e9}ST {path} HTTP/1.1"), _ => format!("PO@ST {path} HTTP/1.1") },
        "http09" => match rng.below(4) { 0 => format!("GET {path}"), 1 => format!("POST {path} HTTP/0.9"), 2 => format!("POST {path} HTTP/2.0"), _ => format!("POST {path} http/1.1") },
        "twosp" => match rng.below(5) { 0 => format!("POST  {path} HTTP/1.1"), 1 => format!("POST {path}  HTTP/1.1"), 2 => format!("POST {path} HTTP/1.1 "), 3 => format!(" POST {path} HTTP/1.1"), _ => format!("POST\t{path} HTTP/1.1") },
        _ => format!("POST {path} HTTP/1.1"),
    };
    let mut head = format!("{line}\r\n");
    // Host lines and the other header tokens: the Host line(s) go first, last or in between (seeded)
    let hosts: Vec<String> = match c["host"].as_str().unwrap() {
        "a" => vec![lane.host_a.clone()], "b" => vec![lane.host_b.clone()], "none" => vec![],
        "ab" => vec![lane.host_a.clone(), lane.host_b.clone()], "ba" => vec![lane.host_b.clone(), lane.host_a.clone()],
        _ => vec![lane.host_a.clone(), lane.host_a.clone()],
    };
    let mut lines: Vec<String> = Vec::new();
    for t in strs(&c["hdrs"]) {
        let l = match t.as_str() {
            "cl:5" | "cl:3" => { let n = if t == "cl:5" { "5" } else { "3" };
                names.push("content-length".into());
                format!("{}{}{}{}\r\n", rng.pick(&["Content-Length", "content-length", "CONTENT-LENGTH", "Content-length"]), rng.pick(&[": ", ":", ":  ", ":\t"]), rng.pick(&["", "", "0", "00"]), n) }
            "cl:plus" => { names.push("content-length".into()); format!("Content-Length: {}\r\n", rng.pick(&["+5", "+05"])) }
            "cl:hex" => { names.push("content-length".into()); format!("Content-Length: {}\r\n", rng.pick(&["0x5", "5h", "-5", "5 5", "5;x", "five", "5.0", "5e0"])) }
            "cl:empty" => { names.push("content-length".into()); format!("Content-Length:{}\r\n", rng.pick(&["", " ", "\t"])) }
            "cl:listeq" => { names.push("content-length".into()); format!("Content-Length: {}\r\n", rng.pick(&["5, 5", "5,5", "5 , 5"])) }
            "cl:listne" => { names.push("content-length".into()); format!("Content-Length: {}\r\n", rng.pick(&["5, 3", "3,5", "5, 0"])) }
            "te:chunked" => { names.push("transfer-encoding".into()); format!("{}{}{}\r\n", rng.pick(&["Transfer-Encoding", "transfer-encoding", "TRANSFER-ENCODING"]), rng.pick(&[": ", ":", ": \t"]), rng.pick(&["chunked", "chunked", "Chunked", "CHUNKED"])) }
            "te:gzip" => { names.push("transfer-encoding".into()); format!("Transfer-Encoding: {}\r\n", rng.pick(&["gzip", "identity", "deflate", "chunke", "chunked-x"])) }
            "te:chunked,identity" => { names.push("transfer-encoding".into()); format!("Transfer-Encoding: {}\r\n", rng.pick(&["chunked, identity", "chunked,gzip", "chunked , deflate"])) }
            "te:gzip,chunked" => { names.push("transfer-encoding".into()); format!("Transfer-Encoding: {}\r\n", rng.pick(&["gzip, chunked", "gzip,chunked", "deflate, chunked"])) }
            "te:xchunked" => { names.push("transfer-encoding".into()); format!("Transfer-Encoding: {}\r\n", rng.pick(&["xchunked", "x-chunked", "notchunked"])) }
            "te:junk" => { names.push("transfer-encoding".into()); format!("Transfer-Encoding: {}\r\n", rng.pick(&["gzip chunked", "\"chunked", "gzip;chunked", "(chunked"])) }
            "obsfold" => match rng.below(3) { 0 => { names.push("x-fold".into()); "X-Fold: a\r\n b\r\n".to_string() }, 1 => { names.push("content-length".into()); "Content-Length: 5\r\n 3\r\n".to_string() }, _ => { names.push("transfer-encoding".into()); "Transfer-Encoding:\r\n\tchunked\r\n".to_string() } },
            "barelf" => { names.push("x-a".into()); match rng.below(3) { 0 => "X-A: b\nX-Injected: 1\r\n".to_string(), 1 => "X-A: b\n".to_string(), _ => "X-A: b\n\nGET /smuggled HTTP/1.1\r\n".to_string() } }
            "nul" => { names.push("x-a".into()); format!("X-A: b{}c\r\n", rng.pick(&["\u{0}", "\u{1}", "\u{7f}", "\u{b}"])) }
            "cr" => { names.push("x-a".into()); format!("X-A: b\r{}\r\n", rng.pick(&["X-Injected: 1", "", " c"])) }
            "spcolon" => match rng.below(4) { 0 => "X-A : b\r\n".to_string(), 1 => "Content-Length : 5\r\n".to_string(), 2 => "Transfer-Encoding : chunked\r\n".to_string(), _ => format!("Host : {}\r\n", lane.host_b) },
            "badname" => format!("{}: b\r\n", rng.pick(&["X/A", "X\"A", "", "X(A", "X@A", "X A", "X\u{e9}"])),
            "conn:close" => { names.push("connection".into()); format!("{}: {}\r\n", rng.pick(&["Connection", "connection"]), rng.pick(&["close", "Close"])) }
            "conn:keepalive" => { names.push("connection".into()); "Connection: keep-alive\r\n".to_string() }
            "hop" => { let (n, v) = [("Keep-Alive", "timeout=5"), ("TE", "gzip"), ("TE", "trailers, deflate"), ("Proxy-Connection", "keep-alive"), ("Trailer", "X-T"), ("HTTP2-Settings", "AAMAAABkAAQAAP__")][rng.below(6)];
                names.push(n.to_ascii_lowercase()); format!("{n}: {v}\r\n") }
            "cookie" => { names.push("cookie".into()); format!("{}: {}\r\n", rng.pick(&["Cookie", "cookie"]), rng.pick(&["a=b", "a=b; c=d", "a=b;c=d; e", "a=\"b c\"; SOZUBALANCEID=x"])) }
            other => format!("X-Unknown-Token: {other}\r\n"),
        };
        lines.push(l);
    }
    // INTERIM cases: `Expect: 100-continue` (answered by the backend with `100 Continue`), or an interim response of the backend's
    // own accord; either way the body is sent once sozu relayed it
    let interim = c["interim"].as_str().unwrap_or("");
    let mut interim_status = 0u64;
    match interim {
        "expect" => { names.push("expect".into()); lines.push(format!("{}: {}\r\n", rng.pick(&["Expect", "expect"]), rng.pick(&["100-continue", "100-Continue"]))); }
        "always" => interim_status = if rng.chance(50) { 103 } else { 100 },
        _ => {}
    }
    let mut hostlines: Vec<String> = hosts.iter().map(|h| host_spelling(rng, "host", h)).collect();
    let pos = rng.below(3);
    let mut all: Vec<String> = Vec::new();
    if pos == 0 { all.append(&mut hostlines); all.append(&mut lines); }
    else if pos == 1 { all.append(&mut lines); all.append(&mut hostlines); }
    else {
        // first Host line first (so that "first Host wins" stays the spec's order), the rest after
        if !hostlines.is_empty() { all.push(hostlines.remove(0)); }
        all.append(&mut lines); all.append(&mut hostlines);
    }
    if rng.chance(50) { names.push("x-plain".into()); all.insert(rng.below(all.len() + 1).max(0), "X-Plain: v\r\n".to_string()); }
    // keep relative order of framing fields: the insertion above may land anywhere, which is fine (plain field)
    for l in &all { head.push_str(l); }
    head.push_str("\r\n");
    let (plan, n) = h1_body_plan(c, code);
    let mut body = Vec::new();
    let mut wire_body: Vec<u8> = Vec::new();
    let mut trailers: Vec<String> = Vec::new();
    match plan {
        "cl" => { body = rng.pick(&["hello", "\r\n\r\nG", "0\r\n\r\n", "GET /"]).as_bytes()[..n.min(5)].to_vec(); wire_body = body.clone(); }
        "chunked" => {
            body = b"hello".to_vec();
            let k = c["chunk"].as_str().unwrap_or("valid");
            let s = match k {
                "valid" => rng.pick(&["5\r\nhello\r\n0\r\n\r\n", "2\r\nhe\r\n3\r\nllo\r\n0\r\n\r\n", "05\r\nhello\r\n0\r\n\r\n", "5\r\nhello\r\n00\r\n\r\n", "1\r\nh\r\n4\r\nello\r\n0\r\n\r\n"]),
                "trailers" => { trailers = vec!["x-t".into(), "x-u".into()]; rng.pick(&["5\r\nhello\r\n0\r\nX-T: 1\r\n\r\n", "5\r\nhello\r\n0\r\nX-T: 1\r\nX-U: 2\r\n\r\n"]) }
                "trframing" => { trailers = vec!["x-t".into(), "content-length".into(), "host".into(), "transfer-encoding".into()];
                    rng.pick(&["5\r\nhello\r\n0\r\nX-T: 1\r\nContent-Length: 7\r\nHost: evil.test\r\n\r\n", "5\r\nhello\r\n0\r\nContent-Length: 0\r\nX-T: 1\r\n\r\n", "5\r\nhello\r\n0\r\nTransfer-Encoding: chunked\r\nX-T: 1\r\n\r\n"]) }
                "badsize" => rng.pick(&["5\r\nhello\r\nZZ\r\n\r\n", "0x5\r\nhello\r\n0\r\n\r\n", "+5\r\nhello\r\n0\r\n\r\n", "5\r\nhelloXX0\r\n\r\n", " 5\r\nhello\r\n0\r\n\r\n", "-1\r\nhello\r\n0\r\n\r\n", "5\r\nhello\r\n-0\r\n\r\n"]),
                "ext" => rng.pick(&["5;ext=1\r\nhello\r\n0\r\n\r\n", "5\r\nhello\r\n0;a=b\r\n\r\n", "5;x\r\nhello\r\n0\r\n\r\n"]),
                _ => rng.pick(&["5\nhello\n0\n\n", "5\r\nhello\n0\r\n\r\n", "5\r\nhello\r\n0\n\n"]),
            };
            desc.push_str(&format!("chunks={s:?} "));
            wire_body = s.as_bytes().to_vec();
        }
        _ => {}
    }
    let mut bytes = bytes_of(&head);
    bytes.extend_from_slice(&wire_body);
    let early = (c["early"].as_bool().unwrap_or(false) || !interim.is_empty()) && !wire_body.is_empty();
    let body_after_answer = if early { Some(bytes.len() - wire_body.len()) } else { None };
    let pipelined = rng.chance(60) && allow_pipelining && !early;
    let sentinel_first = pipelined && rng.chance(35);
    if sentinel_first {
        let mut b2 = sentinel_h1(lane);
        b2.extend_from_slice(&bytes);
        bytes = b2;
    }
    // seeded segmentation: none / a few random cut points / every CRLF
    let mut cuts = Vec::new();
    match if early { 0 } else { rng.below(4) } {
        0 => {}
        1 => { for _ in 0..1 + rng.below(3) { cuts.push(1 + rng.below(bytes.len().max(2) - 1)); } }
        2 => { if let Some(p) = bytes.windows(4).position(|w| w == b"\r\n\r\n") { cuts.push(p + 4); } }
        _ => { for (i, w) in bytes.windows(2).enumerate() { if w == b"\r\n" && rng.chance(50) { cuts.push(i + 1 + rng.below(2)); } } }
    }
    cuts.sort(); cuts.dedup(); cuts.retain(|&x| x > 0 && x < bytes.len());
    desc.push_str(&format!("pipelined={pipelined} sentinel_first={sentinel_first} cuts={cuts:?}"));
    desc.push_str(&format!(" method={method} body_after_answer={body_after_answer:?} interim={interim:?}/{interim_status}"));
    Concrete { h1_bytes: bytes, h2: H2Probe::default(), pipelined, sentinel_first, cuts, target, spec_target, method, spec_method, body_after_answer, interim_wait: !interim.is_empty(), interim_status, body, names, trailers, desc }
}

fn concretise_h2(c: &Value, lane: &Lane, rng: &mut Rng) -> Concrete {
    let b = |s: &str| s.as_bytes().to_vec();
    let path = rng.pick(&["/p", "/p", "/p?x=1", "/p/q.html"]).to_string();
    let ps = c["ps"].as_str().unwrap();
    let mut target = path.clone();
    let spec_method = c["m"].as_str().unwrap_or("POST").to_string();
    let method_sent = method_spelling(rng, &spec_method);
    let method: &str = match ps { "method:bad" => ["G T", "GE\tT", "G(T", "GET /x HTTP/1.1\r\nX:"][rng.below(4)], _ => method_sent.as_str() };
    let scheme = if ps == "scheme:bad" { rng.pick(&["ftp", "HTTPS", "https:", ""]) } else { rng.pick(&["https", "http"]) };
    let auth = if ps == "auth:b" { lane.host_b.clone() } else { lane.host_a.clone() };
    let pv: String = match ps {
        "path:empty" => "".into(), "path:noslash" => rng.pick(&["p", "p/q", "http://evil/p", "../p"]).to_string(),
        "path:star" => "*".into(),
        "path:space" => format!("{path} {}", rng.pick(&["q", "HTTP/1.1", "HTTP/1.0\r".trim_end_matches('\r')])),
        "path:frag" => format!("{path}#f"), _ => path.clone(),
    };
    if matches!(ps, "path:star" | "path:space" | "path:noslash" | "path:frag" | "path:empty") { target = pv.clone(); }
    let spec_target = if ps == "path:star" { "*" } else if ps == "path:space" { "/p q" } else { "/p" }.to_string();
    let m = (b(":method"), bytes_of(method));
    let s = (b(":scheme"), b(scheme));
    let a = (b(":authority"), b(&auth));
    let p = (b(":path"), b(&pv));
    let mut names: Vec<String> = Vec::new();
    let mut regs: Vec<(Vec<u8>, Vec<u8>)> = Vec::new();
    for t in strs(&c["hdrs"]) {
        let (k, v): (String, String) = match t.as_str() {
            "host:a" => ("host".into(), lane.host_a.clone()),
            "host:b" => ("host".into(), lane.host_b.clone()),
            "cl:5" => ("content-length".into(), rng.pick(&["5", "5", "05"]).into()),
            "cl:3" => ("content-length".into(), rng.pick(&["3", "03"]).into()),
            "cl:plus" => ("content-length".into(), "+5".into()),
            "cl:sp" => ("content-length".into(), rng.pick(&[" 5", "5 ", "\t5"]).into()),
            "cl:empty" => ("content-length".into(), "".into()),
            "cl:list" => ("content-length".into(), rng.pick(&["5, 5", "5,5"]).into()),
            "te:trailers" => ("te".into(), rng.pick(&["trailers", "Trailers"]).into()),
            "te:gzip" => ("te".into(), rng.pick(&["gzip", "trailers, gzip", "chunked"]).into()),
            "cs:connection" => ("connection".into(), rng.pick(&["close", "keep-alive", "content-length"]).into()),
            "cs:keep-alive" => ("keep-alive".into(), "timeout=5".into()),
            "cs:proxy-connection" => ("proxy-connection".into(), "keep-alive".into()),
            "cs:transfer-encoding" => ("transfer-encoding".into(), rng.pick(&["chunked", "gzip", "identity"]).into()),
            "cs:upgrade" => ("upgrade".into(), rng.pick(&["websocket", "h2c"]).into()),
            "upper" => (rng.pick(&["X-Upper", "Content-Length", "x-uPPer", "Transfer-Encoding"]).into(), "5".into()),
            "badname" => (rng.pick(&["x bad", "x:y", "x\r\ny", "x\u{0}", "x(y", "", "x\ny: 1", "x\u{e9}"]).into(), "1".into()),
            "val:cr" => ("x-a".into(), rng.pick(&["1\rx-injected: 1", "1\r", "\r1"]).into()),
            "val:lf" => ("x-a".into(), rng.pick(&["1\nx-injected: 1", "1\r\nx-injected: 1", "1\r\n\r\nGET /smuggled HTTP/1.1\r\nHost: x\r\n\r\n", "1\r\ntransfer-encoding: chunked"]).into()),
            "val:nul" => ("x-a".into(), rng.pick(&["1\u{0}", "\u{0}", "1\u{0}2"]).into()),
            "cookie" => { if rng.chance(50) { names.push("cookie".into()); regs.push((b("cookie"), b("z=9"))); } ("cookie".into(), rng.pick(&["a=b", "a=b; c=d", "a=b;c=d"]).into()) }
            _ => (rng.pick(&["x-plain", "accept", "user-agent"]).into(), "v".into()),
        };
        names.push(k.to_ascii_lowercase());
        regs.push((bytes_of(&k), bytes_of(&v)));
    }
    let interim = c["interim"].as_str().unwrap_or("");
    let mut interim_status = 0u64;
    match interim {
        "expect" => { names.push("expect".into()); regs.insert(rng.below(regs.len() + 1), (b("expect"), b(rng.pick(&["100-continue", "100-Continue"])))); }
        "always" => interim_status = if rng.chance(50) { 103 } else { 100 },
        _ => {}
    }
    let mut headers: Vec<(Vec<u8>, Vec<u8>)> = match ps {
        "noauth" => vec![m, s, p.clone()], "nomethod" => vec![s, a, p.clone()], "nopath" => vec![m, s, a], "noscheme" => vec![m, a, p.clone()],
        // the form RFC 9113 8.5 prescribes for CONNECT: neither :scheme nor :path
        "nosp" => if rng.chance(50) { vec![m, a] } else { vec![a, m] },
        "dup:path" => vec![m, s, a, p.clone(), (b(":path"), b("/q"))],
        "dup:method" => vec![m, s, a, p.clone(), (b(":method"), b("GET"))],
        "after" => vec![m, s, a, (b("x-plain"), b("v"))],
        "unknown" => vec![m, s, a, p.clone(), (b(rng.pick(&[":foo", ":status", ":protocol"])), b("1"))],
        _ => { // valid set of pseudo-headers: any order (RFC 9113 does not fix one)
            let mut v = vec![m, s, a, p.clone()];
            for i in (1..v.len()).rev() { let j = rng.below(i + 1); v.swap(i, j); }
            v }
    };
    headers.append(&mut regs);
    if ps == "after" { headers.push(p); }
    let mut pr = H2Probe { headers, ..Default::default() };
    let frames: Vec<usize> = match c["data"].as_str().unwrap() { "d5" => vec![5], "d3" => vec![3], "d6" => vec![6], "d5+1" => vec![5, 1], _ => vec![] };
    let tr = c["tr"].as_str().unwrap();
    let all = b"hello!";
    let mut off = 0;
    let mut body = Vec::new();
    let split_eq = frames == vec![5] && rng.chance(40);
    for (i, n) in frames.iter().enumerate() {
        let last = i + 1 == frames.len();
        let d = all[off..off + n].to_vec();
        off += n;
        body.extend_from_slice(&d);
        if split_eq { pr.data.push((d[..2].to_vec(), false)); pr.data.push((d[2..].to_vec(), last && tr == "none")); }
        else { pr.data.push((d, last && tr == "none")); }
    }
    // "rst": HEADERS without END_STREAM, then the client abandons the stream
    pr.rst_mid = c["data"] == "rst";
    pr.end_stream_on_headers = frames.is_empty() && tr == "none" && !pr.rst_mid;
    if tr != "none" {
        let t: Vec<(Vec<u8>, Vec<u8>)> = match tr {
            "plain" | "noes" => vec![(b("x-t"), b("1"))],
            "framing" => vec![(b("x-t"), b("1")), (b("content-length"), b("99")), (b("host"), b("evil.test"))],
            "ident" => vec![(b("x-t"), b("1")), (b(rng.pick(&["x-forwarded-for", "forwarded", "x-real-ip", "x-request-id"])), b("6.6.6.6"))],
            "pseudo" => vec![(b("x-t"), b("1")), (b(rng.pick(&[":path", ":method", ":status"])), b("/q"))],
            "cs" => vec![(b("x-t"), b("1")), (b(rng.pick(&["transfer-encoding", "connection", "upgrade"])), b("chunked"))],
            _ => vec![(b("x-t"), bytes_of(rng.pick(&["1\r\nx-injected: 1", "1\n", "\u{0}"])))],
        };
        pr.trailers = Some((t, tr != "noes"));
    }
    pr.split_continuation = rng.chance(30);
    pr.pad_data = rng.chance(30);
    pr.gap_ms = if rng.chance(50) { 0 } else { 25 };
    let sentinel_first = rng.chance(30) && !pr.rst_mid;
    // the sentinel between the probe's HEADERS and its DATA / trailers (a quarter of the probes that have any)
    pr.sentinel_mid = !sentinel_first && !pr.end_stream_on_headers && !pr.rst_mid && rng.chance(25);
    pr.wait_interim = !interim.is_empty();
    pr.late_trailers = c["late"].as_bool().unwrap_or(false) && pr.trailers.is_some();
    if pr.late_trailers { pr.sentinel_mid = false; }
    let desc = format!("cont={} pad={} gap={}ms sentinel_first={sentinel_first} sentinel_mid={} rst_mid={} method={method_sent} interim={interim:?}/{interim_status} late_trailers={}", pr.split_continuation, pr.pad_data, pr.gap_ms, pr.sentinel_mid, pr.rst_mid, pr.late_trailers);
    let trailers = if matches!(tr, "plain" | "ident") { vec!["x-t".to_string()] } else if tr == "framing" { vec!["x-t".to_string(), "content-length".into(), "host".into()] } else { vec![] };
    Concrete { h1_bytes: vec![], h2: pr, pipelined: true, sentinel_first, cuts: vec![], target, spec_target, method: method_sent, spec_method, body_after_answer: None, interim_wait: !interim.is_empty(), interim_status, body, names, trailers, desc }
}

// =====================================================================================
// oracle: compare an observation with the spec's relation (adm) and prediction (code)
// =====================================================================================

fn host_of(lane: &Lane, h: &str) -> String {
    let h = h.to_ascii_lowercase();
    let h = h.split(':').next().unwrap_or("").to_string();
    if h == lane.host_a { "a".into() } else if h == lane.host_b { "b".into() } else { format!("?{h}") }
}

/// abstract an observed request to the spec's record (as json)
fn abstract_req(lane: &Lane, r: &SeenReq, conc: &Concrete, h2c: bool) -> Value {
    let sentinel = r.target == "/sentinel";
    let target = if sentinel { "/sentinel".to_string() }
        // an HTTP/2 CONNECT has no :path: its target is the :authority (RFC 9113 8.5)
        else if h2c && r.method == "CONNECT" && r.target.is_empty() && r.host == conc.target { conc.spec_target.clone() }
        else if r.target == conc.target || (h2c && conc.target.ends_with(&r.target) && conc.target.starts_with("http://")) {
            // map back to the spec's target name
            conc.spec_target.clone()
        } else { format!("?{}", r.target) };
    // the method token must reach the backend exactly as the client spelled it (case-sensitive)
    let method = if sentinel { r.method.clone() } else if r.method == conc.method { conc.spec_method.clone() } else { format!("?{}", r.method) };
    let framing = if h2c { "h2".to_string() } else { r.framing.clone() };
    json!({"method": method, "target": target, "host": host_of(lane, &r.host), "framing": framing, "len": r.body_len})
}

fn strip_framing(v: &Value) -> Value { let mut v = v.clone(); v["framing"] = json!("h2"); v }

struct Verdict { class: String, detail: Value }

#[allow(clippy::too_many_arguments)]
fn judge(lane: &Lane, case: &Value, conc: &Concrete, cobs: &ClientObs, bobs: &BackObs, h2c: bool, deviations: &str) -> (String, Vec<Verdict>) {
    let front = case["c"]["front"].as_str().unwrap();
    let adm = &case["adm"];
    let code = &case["code"];
    let mut out: Vec<Verdict> = Vec::new();
    // ---- observed class
    let first = cobs.statuses.first().cloned().unwrap_or_default();
    let by = cobs.answered_by.first().cloned().unwrap_or_default();
    let class: String = if front == "h1" {
        if first.is_empty() { if cobs.closed { "close".into() } else { "hang".into() } }
        else if !by.is_empty() { "fwd".into() }
        else { format!("r{first}") }
    } else if first.starts_with("rst:") { "rst".into() }
        else if first.starts_with("goaway:") { "goaway".into() }
        // the client abandoned the stream: "cancel" unless sozu itself refused (rst / goaway above) or answered (404) first;
        // an answer a backend gave from the request head before the RST does not change that
        else if conc.h2.rst_mid && (first == "cancel" || !by.is_empty()) { "cancel".into() }
        else if first == "closed" { "close".into() }
        else if first == "none" || first.is_empty() { "hang".into() }
        else if !by.is_empty() { "fwd".into() }
        else { format!("r{}", first.trim_start_matches('~')) };
    let classes = strs(&adm["classes"]);
    // A request whose Content-Length body is complete may be delivered - and even answered - before the frame that
    // makes the stream an error arrives (spec: code.complete). The client then sees the backend's answer first.
    let class: String = if class == "fwd" && !classes.iter().any(|c| c == "fwd") && code["complete"].as_bool().unwrap_or(false) {
        "answered-then-reset".into()
    } else { class };
    // A HEAD request is answered by the backend from its head (bobs.early_heads), before the content it announces is there.
    // If that content then turns out malformed (too little / too much DATA, a bad chunk, bad trailers) sozu rejects a
    // request whose answer the client may already hold: the spec admits the prefix on the backend connection
    // (adm.partial); what must hold is judged as for a rejection - nothing complete of the probe at a backend - and the
    // late request shows whether the connection that carries the prefix was given up or re-used.
    let class: String = if class == "fwd" && !classes.iter().any(|c| c == "fwd") && bobs.early_heads > 0 && adm["partial"].as_bool().unwrap_or(false) {
        "answered-from-head".into()
    } else { class };
    // H1, class "early": the client holds an answer a backend gave from the request head (HEAD), and no backend has read
    // the probe completely: sozu did not wait for the rest of the request. Judged like a rejection (nothing complete of
    // the probe at a backend; the prefix only where the spec admits it), the class must be admissible.
    let class: String = if front == "h1" && class == "fwd" && bobs.early_heads > 0
        && !bobs.reqs.iter().any(|r| r.complete && r.target != "/sentinel" && r.target != "/late") && bobs.anomalies.iter().any(|a| a.2.starts_with("partial")) {
        "early".into()
    } else { class };
    // ---- what the backends read
    let probe_reqs: Vec<&SeenReq> = bobs.reqs.iter().filter(|r| r.target != "/sentinel" && r.target != "/late").collect();
    // (the late request of an H2 probe - sent after both answers, to be written on the backend connection the probe used -
    //  is not in the spec's understood-list: it is checked on its own right below and then set aside)
    let complete: Vec<&SeenReq> = bobs.reqs.iter().filter(|r| r.complete && r.target != "/late").collect();
    let observed_list: Vec<Value> = complete.iter().map(|r| abstract_req(lane, r, conc, h2c)).collect();
    let ctx = |extra: Value| -> Value { json!({"observed_class": class, "client": {"statuses": cobs.statuses, "by": cobs.answered_by, "closed": cobs.closed, "timed_out": cobs.timed_out, "interims": cobs.interims, "trailers_held_back": cobs.held},
        "backend_read": observed_list, "anomalies": bobs.anomalies, "extra": extra}) };
    for r in bobs.reqs.iter().filter(|r| r.target == "/late") {
        let as_sent = r.method == "GET" && r.complete && r.body_len == 0 && r.cluster == "A" && (h2c || r.framing == "cl");
        if !as_sent || bobs.reqs.iter().filter(|x| x.target == "/late").count() > 1 {
            out.push(Verdict { class: "late-request-differs".into(), detail: ctx(json!({"read": format!("{} {} host={} {} {} complete={}", r.method, r.target, r.host, r.framing, r.body_len, r.complete)})) });
        }
    }
    for r in bobs.reqs.iter().filter(|r| r.target == "/sentinel") {
        if r.method != "GET" || r.body_len != 0 || !r.complete {
            out.push(Verdict { class: "sentinel-differs".into(), detail: ctx(json!({"read": format!("{} {} host={} {} {} complete={}", r.method, r.target, r.host, r.framing, r.body_len, r.complete)})) });
        }
    }
    // (1) never: bytes a strict reader cannot read, a request sozu did not understand as one, a smuggled field line
    for (cl, ci, kind, d) in &bobs.anomalies {
        if kind == "unreadable" || kind == "h2-error" {
            out.push(Verdict { class: "backend-unreadable".into(), detail: ctx(json!({"cluster": cl, "conn": ci, "reason": d})) });
        }
    }
    for r in &bobs.reqs {
        if !r.errors.is_empty() { out.push(Verdict { class: "backend-unreadable".into(), detail: ctx(json!({"h2_request_errors": r.errors})) }); }
        if r.complete && r.sozu_ids == 0 {
            out.push(Verdict { class: "request-not-understood-by-sozu".into(), detail: ctx(json!({"request": format!("{} {} host={}", r.method, r.target, r.host), "why": "a complete request reached the backend without the Sozu-Id field sozu appends to every request it parsed: it was forwarded as opaque bytes"})) });
        }
        for n in r.names.iter().chain(r.trailers.iter()) {
            if n.contains("injected") || n.contains("smuggled") {
                out.push(Verdict { class: "smuggled-field-line".into(), detail: ctx(json!({"name": n})) });
            }
        }
        // every field line a backend reads was sent as a field line by the client, or is one of sozu's own
        if r.target != "/sentinel" && r.target != "/late" {
            const SOZU: &[&str] = &["host", "x-forwarded-for", "forwarded", "x-forwarded-port", "x-forwarded-proto", "x-request-id", "sozu-id",
                "content-length", "transfer-encoding", "connection", "x-plain", "x-real-ip"];
            for n in &r.names {
                if !SOZU.contains(&n.as_str()) && !conc.names.contains(n) && !(h2c && n.starts_with(':')) {
                    out.push(Verdict { class: "unexpected-field-line".into(), detail: ctx(json!({"name": n, "sent_names": conc.names})) });
                }
            }
        }
        if r.target.contains("smuggled") { out.push(Verdict { class: "smuggled-request".into(), detail: ctx(json!({"target": r.target})) }); }
        // routing agrees with the Host the backend reads
        let h = host_of(lane, &r.host);
        if (h == "a" && r.cluster != "A") || (h == "b" && r.cluster != "B") || h.starts_with('?') {
            out.push(Verdict { class: "host-routing-disagree".into(), detail: ctx(json!({"host_read_by_backend": r.host, "cluster": r.cluster})) });
        }
    }
    // (2) the class must be admissible
    if !classes.contains(&class) && class != "answered-then-reset" && class != "answered-from-head" {
        out.push(Verdict { class: format!("class-not-admissible:{class}"), detail: ctx(json!({"admissible": classes})) });
    }
    // (3) per class
    let partials: Vec<&(String, usize, String, String)> = bobs.anomalies.iter().filter(|a| a.2.starts_with("partial")).collect();
    if class == "fwd" {
        let mut lists: Vec<Vec<Value>> = adm["fwd"].as_array().unwrap().iter().map(|l| l.as_array().unwrap().iter().map(|r| if h2c { strip_framing(r) } else { r.clone() }).collect()).collect();
        if h2c && front == "h1" { for l in lists.iter_mut() { l.retain(|r| r["target"] != "/sentinel"); } }
        if conc.sentinel_first {
            // the sentinel went first: it is served whatever the probe says about the connection afterwards
            let sent = json!({"method": "GET", "target": "/sentinel", "host": "a", "framing": if h2c { "h2" } else if front == "h1" { "none" } else { "cl" }, "len": 0});
            for l in lists.iter_mut() { if !l.iter().any(|r| r["target"] == "/sentinel") { l.push(sent.clone()); } }
        }
        let mut obs_sorted: Vec<String> = observed_list.iter().map(|v| v.to_string()).collect();
        obs_sorted.sort();
        let ok = lists.iter().any(|l| { let mut e: Vec<String> = l.iter().map(|v| v.to_string()).collect(); e.sort(); e == obs_sorted });
        if !ok {
            out.push(Verdict { class: "forward-differs".into(), detail: ctx(json!({"admissible_lists": lists})) });
        }
        if !partials.is_empty() { out.push(Verdict { class: "forward-incomplete".into(), detail: ctx(json!({"partials": partials})) }); }
        for r in &probe_reqs {
            for t in &r.trailers {
                if !conc.trailers.contains(t) {
                    out.push(Verdict { class: "trailer-not-elided".into(), detail: ctx(json!({"trailer": t, "allowed": conc.trailers})) });
                }
            }
            if !h2c && r.complete && r.body != conc.body {
                out.push(Verdict { class: "body-differs".into(), detail: ctx(json!({"sent": lossy(&conc.body), "read": lossy(&r.body)})) });
            }
        }
    } else {
        // rejected: the backends saw nothing of the probe ...
        let allow_partial = adm["partial"].as_bool().unwrap_or(false);
        let allow_complete = code["complete"].as_bool().unwrap_or(false);
        let declared: usize = if strs(&case["c"]["hdrs"]).iter().any(|t| t == "cl:3") { 3 } else { 5 };
        for r in &probe_reqs {
            // the only request that may have got through is the probe itself with exactly the declared body
            let is_the_probe = r.target == conc.target && r.framing == "cl" && r.body_len == declared && (h2c || r.body[..] == conc.body[..declared.min(conc.body.len())]);
            if r.complete && !(allow_complete && is_the_probe) {
                out.push(Verdict { class: "rejected-but-forwarded".into(), detail: ctx(json!({"request": format!("{} {} host={} {} {}", r.method, r.target, r.host, r.framing, r.body_len)})) });
            }
        }
        if !partials.is_empty() && !allow_partial {
            out.push(Verdict { class: "rejected-but-partially-forwarded".into(), detail: ctx(json!({"partials": partials})) });
        }
        // ... and only the sentinel may have been served (never on H1: a framing error closes the connection)
        let sentinels = complete.iter().filter(|r| r.target == "/sentinel").count();
        if front == "h1" && class != "early" && sentinels > 0 && !conc.sentinel_first { out.push(Verdict { class: "served-after-reject".into(), detail: ctx(json!({"sentinels": sentinels})) }); }
        if sentinels > 1 { out.push(Verdict { class: "extra-request".into(), detail: ctx(json!({"sentinels": sentinels})) }); }
        // (after RST_STREAM sozu may answer frames still in flight on that stream with GOAWAY(STREAM_CLOSED):
        //  the sentinel is then not served; that is H2 robustness, C14/C15, not a boundary disagreement)
    }
    // (4) violations that are exactly what the spec predicts with the open deviations switched on
    if !out.is_empty() && !deviations.is_empty() && class == code["cls"].as_str().unwrap_or("") {
        for v in out.iter_mut() { v.class = format!("dev:{}:{}", deviations, v.class); }
    }
    (class, out)
}

struct CaseOutcome { class: String, verdicts: Vec<Verdict>, cobs: ClientObs, bobs: BackObs, conc_desc: String, sent: String }

fn run_case(env: &Env, lane: &Lane, case: &Value, seed: u64, idx: u64, variant: u64, deviations: &str, wait_ms: u64) -> CaseOutcome {
    let c = &case["c"];
    let mut rng = Rng::new(seed, idx, variant);
    let h2c = env.backend_kind == "h2c";
    let epoch = lane.epoch.fetch_add(1, Ordering::SeqCst) + 1;
    let wait = Duration::from_millis(wait_ms);
    let (conc, cobs, sent) = if c["front"] == "h1" {
        // (H1 front -> h2c backend: a pipelined second request is never answered - C02's subject - so no pipelining there)
        let mut conc = concretise_h1(c, &case["code"], lane, &mut rng, !h2c);
        // (an h2c backend sends no interim response - see serve_h2c: nothing to wait for)
        if h2c && std::env::var("C03_H2C_INTERIM").is_err() { conc.interim_wait = false; }
        let mut segs: Vec<Vec<u8>> = Vec::new();
        let mut prev = 0;
        for &cut in &conc.cuts { segs.push(conc.h1_bytes[prev..cut].to_vec()); prev = cut; }
        segs.push(conc.h1_bytes[prev..].to_vec());
        let mut expect = if case["code"]["cls"] == "fwd" { case["code"]["understood"].as_array().map(|a| a.len()).unwrap_or(1).max(1) } else { 1 };
        // H1 front -> h2c backend: the SECOND request of a keep-alive connection is always answered 502 by sozu
        // (the reused stream slot keeps back_received_end_of_stream: "CANNOT RECEIVE Headers ON THIS STREAM", GOAWAY to the
        // backend) and, rarely, the header block re-encoded after that reaches the backend out of HPACK sync. That is C02's
        // subject (every request gets its answer); this leg checks what mux/converter.rs writes for the probe, without sentinel.
        let sent_after: Vec<u8> = if conc.sentinel_first { expect = 2; vec![] } else if h2c { expect = 1; vec![] } else { sentinel_h1(lane) };
        let (segs, after_first): (Vec<Vec<u8>>, Vec<u8>) = match conc.body_after_answer {
            Some(off) => (vec![conc.h1_bytes[..off].to_vec()], conc.h1_bytes[off..].to_vec()),
            None => (segs, vec![]),
        };
        lane.ctl.interim.store(conc.interim_status, Ordering::SeqCst);
        let mut cobs = h1_client(env.front_h1, &segs, &after_first, &sent_after, conc.pipelined, expect, wait, conc.interim_wait);
        if conc.sentinel_first {
            // the first answer is the sentinel's: what is judged is the answer to the probe
            if !cobs.statuses.is_empty() { cobs.statuses.remove(0); cobs.answered_by.remove(0); }
        }
        let sent = lossy(&conc.h1_bytes);
        (conc, cobs, sent)
    } else {
        let mut conc = concretise_h2(c, lane, &mut rng);
        if h2c && std::env::var("C03_H2C_INTERIM").is_err() { conc.h2.wait_interim = false; }
        let late = late_h2(lane);
        lane.ctl.interim.store(conc.interim_status, Ordering::SeqCst);
        // `late` trailers: the H1 backends keep their answer back until the trailers went out (an h2c backend answers at END_STREAM)
        lane.ctl.hold.store(conc.h2.late_trailers && !h2c, Ordering::SeqCst);
        let cobs = h2_client(env.front_h2, &conc.h2, &sentinel_h2(lane), Some(&late), conc.sentinel_first, wait, Some((lane, epoch)));
        lane.ctl.hold.store(false, Ordering::SeqCst);
        let sent = format!("headers={:?} data={:?} trailers={:?} es_on_headers={}",
            conc.h2.headers.iter().map(|(k, v)| format!("{}: {}", lossy(k), lossy(v))).collect::<Vec<_>>(),
            conc.h2.data.iter().map(|(d, es)| format!("{}{}", lossy(d), if *es { "/ES" } else { "" })).collect::<Vec<_>>(),
            conc.h2.trailers.as_ref().map(|(t, es)| format!("{:?} es={es}", t.iter().map(|(k, v)| format!("{}: {}", lossy(k), lossy(v))).collect::<Vec<_>>())), conc.h2.end_stream_on_headers);
        (conc, cobs, sent)
    };
    let bobs = collect_backend(lane, epoch, env.backend_kind, Duration::from_millis(1500));
    lane.ctl.interim.store(0, Ordering::SeqCst);
    let (class, verdicts) = judge(lane, case, &conc, &cobs, &bobs, h2c, deviations);
    CaseOutcome { class, verdicts, cobs, bobs, conc_desc: conc.desc.clone(), sent }
}

#[allow(clippy::too_many_arguments)]
fn replay(seed: u64, nlanes: usize, backend_kind: &'static str, variants: u64, deviations: String, sample_pct: u64, force: Option<(u64, u64)>) {
    let stop = Arc::new(AtomicBool::new(false));
    let (mut w, env, lanes) = setup(nlanes, backend_kind, stop.clone());
    let env = Arc::new(env);
    let cases: Vec<Value> = BufReader::new(std::io::stdin()).lines().filter_map(|l| l.ok()).filter(|l| l.starts_with('{'))
        .filter_map(|l| serde_json::from_str::<Value>(&l).ok()).collect();
    let cases = Arc::new(cases);
    let next = Arc::new(AtomicU64::new(0));
    let n_probes = Arc::new(AtomicU64::new(0));
    let n_retries = Arc::new(AtomicU64::new(0));
    let violations: Arc<Mutex<Vec<Value>>> = Arc::new(Mutex::new(Vec::new()));
    let classes: Arc<Mutex<BTreeMap<String, u64>>> = Arc::new(Mutex::new(BTreeMap::new()));
    let vclasses: Arc<Mutex<BTreeMap<String, u64>>> = Arc::new(Mutex::new(BTreeMap::new()));
    let samples: Arc<Mutex<Vec<Value>>> = Arc::new(Mutex::new(Vec::new()));
    let distinct: Arc<Mutex<std::collections::BTreeSet<String>>> = Arc::new(Mutex::new(Default::default()));
    let dead = Arc::new(AtomicBool::new(false));
    // vacuity counters of the environment dimensions: [interim cases, of which an interim response reached the client,
    // late-trailer cases, of which the backend held head + DATA when the trailers were sent]
    let envc: Arc<[AtomicU64; 4]> = Arc::new(Default::default());
    let t0 = Instant::now();
    let mut handles = Vec::new();
    for lane in lanes.iter().cloned() {
        let n_retries = n_retries.clone();
        let envc = envc.clone();
        let (env, cases, next, n_probes, violations, classes, vclasses, samples, distinct, dead, deviations) =
            (env.clone(), cases.clone(), next.clone(), n_probes.clone(), violations.clone(), classes.clone(), vclasses.clone(), samples.clone(), distinct.clone(), dead.clone(), deviations.clone());
        handles.push(std::thread::spawn(move || {
            loop {
                let i = next.fetch_add(1, Ordering::SeqCst) as usize;
                if i >= cases.len() || dead.load(Ordering::SeqCst) { break; }
                let case = &cases[i];
                // sampling of the wide slices (quick tier): decided by a hash of the case, independent of lane timing
                if sample_pct < 100 {
                    let wide = case["c"]["hdrs"].as_array().map(|a| a.len()).unwrap_or(0) >= 3;
                    let mut h = Rng::new(seed, i as u64, 77);
                    if wide && !h.chance(sample_pct) { continue; }
                }
                for variant in 0..variants {
                    // --force-index/--force-variant: re-run one recorded violation with the very same concretisation
                    let (ci, variant) = match force { Some((fi, fv)) => (fi, fv), None => (i as u64, variant) };
                    let mut o = run_case(&env, &lane, case, seed, ci, variant, &deviations, 2500);
                    // a hang (no answer within the wait) is retried once before it counts
                    // no answer within 2.5 s, or the harness could not attribute backend connections in time (machine
                    // overloaded): run the same probe again with a generous wait before anything is concluded
                    let mut again = 0;
                    // (bounded: when a broken tree makes many probes hang, the retries must not stretch the run)
                    // (408 / 504 are sozu's own TIMER answers - front timeout 60 s, backend timeout 30 s: in a probe that lasts
                    //  milliseconds they only fire when the process was stalled or the sandbox clock jumped (seen once: three
                    //  probes of adjacent lanes in the same millisecond, thorough tier, machine overloaded). Same treatment
                    //  as a hang: run the probe again; an answer that persists counts.)
                    while (o.class == "hang" || o.class == "r408" || o.class == "r504" || o.bobs.anomalies.iter().any(|a| a.2 == "harness-barrier-timeout")) && again < 2 && n_retries.load(Ordering::Relaxed) < 40 {
                        again += 1;
                        n_retries.fetch_add(1, Ordering::Relaxed);
                        eprintln!("retry ({}) case={} how={} client={:?}/{:?} closed={} timed_out={}", o.class, case["c"], o.conc_desc, o.cobs.statuses, o.cobs.answered_by, o.cobs.closed, o.cobs.timed_out);
                        o = run_case(&env, &lane, case, seed, ci, variant, &deviations, 8000);
                    }
                    if o.bobs.anomalies.iter().any(|a| a.2 == "harness-barrier-timeout") {
                        o.class = "unavailable".into();
                        o.verdicts.clear();
                    }
                    // 502/503/504 with nothing written to a backend: sozu's circuit breaker / retry policy holds the lane's
                    // backend for unavailable after earlier connections were cut by the (strict) backend. Not an answer about
                    // framing: pause, retry; if it persists it is counted as "unavailable" (and bounded by the check driver).
                    let mut tries = 0;
                    while matches!(o.class.as_str(), "r502" | "r503" | "r504") && o.bobs.reqs.is_empty() && o.bobs.raw.iter().all(|r| r.2.is_empty()) && tries < 4 {
                        tries += 1;
                        n_retries.fetch_add(1, Ordering::Relaxed);
                        eprintln!("retry ({}) case={} how={}", o.class, case["c"], o.conc_desc);
                        std::thread::sleep(Duration::from_millis(120 * tries));
                        o = run_case(&env, &lane, case, seed, ci, variant, &deviations, 4000);
                    }
                    if matches!(o.class.as_str(), "r502" | "r503" | "r504") && o.bobs.reqs.is_empty() && o.bobs.raw.iter().all(|r| r.2.is_empty()) {
                        o.class = "unavailable".into();
                        o.verdicts.retain(|v| !v.class.contains("class-not-admissible"));
                    }
                    n_probes.fetch_add(1, Ordering::Relaxed);
                    if case["c"]["interim"].is_string() { envc[0].fetch_add(1, Ordering::Relaxed); if o.cobs.interims > 0 { envc[1].fetch_add(1, Ordering::Relaxed); } }
                    if case["c"]["late"] == true { envc[2].fetch_add(1, Ordering::Relaxed); if o.cobs.held { envc[3].fetch_add(1, Ordering::Relaxed); } }
                    *classes.lock().unwrap().entry(format!("{}:{}", case["c"]["front"].as_str().unwrap(), o.class)).or_insert(0) += 1;
                    // non-trivial = differs from the plain valid skeleton in at least one token
                    let c = &case["c"];
                    let trivial = c["hdrs"].as_array().map(|a| a.is_empty()).unwrap_or(true) && c["m"] == "POST"
                        && (c["front"] == "h1" && c["rl"] == "ok" && c["host"] == "a" || c["front"] == "h2" && c["ps"] == "ok" && c["data"] == "es" && c["tr"] == "none");
                    if !trivial { distinct.lock().unwrap().insert(format!("{}|{}", case["c"], o.class)); }
                    if force.is_some() {
                        vh::util::emit(&json!({"kind": "replayed", "case": case["c"], "sent": o.sent, "how": o.conc_desc, "observed_class": o.class,
                            "client": {"statuses": o.cobs.statuses, "by": o.cobs.answered_by, "closed": o.cobs.closed, "timed_out": o.cobs.timed_out, "interims": o.cobs.interims, "held": o.cobs.held, "raw": o.cobs.raw},
                            "backend": back_json(&o.bobs), "verdicts": o.verdicts.iter().map(|v| v.class.clone()).collect::<Vec<_>>()}));
                    }
                    if i % 641 == 7 && variant == 0 {
                        let mut s = samples.lock().unwrap();
                        if s.len() < 6 { s.push(json!({"case": case["c"], "sent": o.sent.chars().take(300).collect::<String>(), "how": o.conc_desc, "observed_class": o.class, "backend_read": o.bobs.reqs.iter().map(|r| format!("{} {} host={} {} len={}", r.method, r.target, r.host, r.framing, r.body_len)).collect::<Vec<_>>()})); }
                    }
                    for v in &o.verdicts {
                        *vclasses.lock().unwrap().entry(v.class.clone()).or_insert(0) += 1;
                        let mut vs = violations.lock().unwrap();
                        let same = vs.iter().filter(|x| x["class"] == v.class.as_str()).count();
                        if same < 12 && vs.len() < 300 {
                            vs.push(json!({"kind": "violation", "class": v.class, "case": case["c"], "adm": case["adm"], "code": case["code"], "lane": lane.k,
                                "sent": o.sent, "how": o.conc_desc, "detail": v.detail, "client_raw": o.cobs.raw.chars().take(400).collect::<String>(),
                                "backend_raw": o.bobs.raw.iter().map(|(c, i, b, closed)| json!([c, i, b.chars().take(900).collect::<String>(), closed])).collect::<Vec<_>>(),
                                "seed": seed, "index": i, "variant": variant}));
                        }
                    }
                }
            }
        }));
    }
    // watchdog: a panic of the worker thread is data (violation), not a tool error
    let mut worker_panic: Option<String> = None;
    loop {
        if handles.iter().all(|h| h.is_finished()) { break; }
        if w.is_finished() {
            dead.store(true, Ordering::SeqCst);
            worker_panic = Some(match w.join_within(Duration::from_millis(200)) { Err(e) => e, Ok(_) => "worker thread exited".into() });
            break;
        }
        std::thread::sleep(Duration::from_millis(20));
    }
    for h in handles { let _ = h.join(); }
    if let Some(p) = worker_panic {
        violations.lock().unwrap().push(json!({"kind": "violation", "class": "worker-panic", "detail": {"panic": p}}));
        *vclasses.lock().unwrap().entry("worker-panic".into()).or_insert(0) += 1;
    }
    stop.store(true, Ordering::SeqCst);
    for v in violations.lock().unwrap().iter() { vh::util::emit(v); }
    vh::util::emit(&json!({"kind": "summary", "cases": cases.len(), "probes": n_probes.load(Ordering::SeqCst), "backend": backend_kind, "classes": *classes.lock().unwrap(),
        "violation_classes": *vclasses.lock().unwrap(), "infra_retries": n_retries.load(Ordering::SeqCst), "distinct_case_outcomes": distinct.lock().unwrap().len(), "samples": *samples.lock().unwrap(),
        "interim_cases": envc[0].load(Ordering::SeqCst), "interim_relayed": envc[1].load(Ordering::SeqCst), "late_cases": envc[2].load(Ordering::SeqCst), "late_held": envc[3].load(Ordering::SeqCst),
        "wall_s": t0.elapsed().as_secs_f64()}));
}

fn main() {
    vh::util::quiet_panics();
    let args: Vec<String> = std::env::args().collect();
    let mut seed: u64 = 1;
    let mut nlanes: usize = 16;
    let mut mode = "replay".to_string();
    let mut backend_kind: &'static str = "h1";
    let mut variants: u64 = 1;
    let mut deviations = String::new();
    let mut sample_pct: u64 = 100;
    let mut force_index: Option<u64> = None;
    let mut force_variant: u64 = 0;
    let mut i = 1;
    while i < args.len() {
        match args[i].as_str() {
            "--seed" => { seed = args[i + 1].parse().unwrap_or(1); i += 1; }
            "--lanes" => { nlanes = args[i + 1].parse().unwrap(); i += 1; }
            "--explore" => mode = "explore".into(),
            "--variants" => { variants = args[i + 1].parse().unwrap_or(1); i += 1; }
            "--deviations" => { deviations = args[i + 1].clone(); i += 1; }
            "--sample-pct" => { sample_pct = args[i + 1].parse().unwrap_or(100); i += 1; }
            "--force-index" => { force_index = args[i + 1].parse().ok(); i += 1; }
            "--force-variant" => { force_variant = args[i + 1].parse().unwrap_or(0); i += 1; }
            "--backend" => { backend_kind = if args[i + 1] == "h2c" { "h2c" } else { "h1" }; i += 1; }
            _ => {}
        }
        i += 1;
    }
    let stop = Arc::new(AtomicBool::new(false));
    if mode == "explore" {
        let (mut w, env, lanes) = setup(1, backend_kind, stop.clone());
        let stdin = BufReader::new(std::io::stdin());
        for l in stdin.lines() {
            let l = l.unwrap();
            if l.trim().is_empty() || l.starts_with('#') { continue; }
            let v: Value = match serde_json::from_str(&l) { Ok(v) => v, Err(e) => { eprintln!("bad line: {e}"); continue; } };
            let r = explore(&env, &lanes[0], &v);
            println!("{}", json!({"probe": v, "result": r}));
            if w.is_finished() {
                println!("{}", json!({"worker_died": w.join_within(Duration::from_millis(100)).err()}));
                break;
            }
        }
        std::process::exit(0);
    }
    drop(stop);
    let force = force_index.map(|fi| (fi, force_variant));
    replay(seed, nlanes, backend_kind, variants, deviations, sample_pct, force);
    std::process::exit(0);
}
