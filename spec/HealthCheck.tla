----------------------------- MODULE HealthCheck -----------------------------
(***************************************************************************)
(* The active health checker of one sozu worker (lib/src/health_check.rs   *)
(* HealthChecker, the HealthState of lib/src/backends.rs, and the command  *)
(* handlers of lib/src/server.rs that touch them).  Extension of C12       *)
(* ("traffic only goes to backends that are ... not marked unhealthy"):    *)
(* this module specifies WHEN a backend is marked unhealthy / healthy.     *)
(*                                                                         *)
(* State of the worker                                                     *)
(*   cfg[c]      BackendMap.health_check_configs (NoCfg = absent)          *)
(*   list[c]     BackendList.backends of the cluster: a sequence of slots  *)
(*               (backend_id, address); the pair is the identity           *)
(*   hs[c][s]    HealthState of the registered backend: healthy flag,      *)
(*               consecutive successes cs, consecutive failures cf         *)
(*   inflight    HealthChecker.in_flight: pid -> probe record (cluster,    *)
(*               backend id, address, age, the SNAPSHOT of the config the  *)
(*               probe was started with, phase connecting/sent/reading)    *)
(*   since[c]    ticks since HealthChecker.last_check_time[c] (Never = no  *)
(*               entry)                                                    *)
(* Environment                                                             *)
(*   srv[a]      what the server at address a does with a probe            *)
(*   probe.wire  the connection as the kernel/server left it               *)
(*                                                                         *)
(* Time is relative (ages, saturating) so that the state space is finite   *)
(* and liveness can be checked.  One tick = one second of the code: a real *)
(* duration d between an event in tick m and one in tick n satisfies       *)
(* n-m-1 < d < n-m+1, hence `age >= timeout` is exactly "the code's        *)
(* `elapsed > timeout` may hold" and `since >= interval` is "the code's    *)
(* `elapsed >= interval (+ jitter)` may hold".                             *)
(*                                                                         *)
(* One action per run-to-completion step.  HealthChecker::poll is          *)
(* initiate_checks (one HC_Poll_StartProbe per due cluster) followed by    *)
(* progress_checks (per in-flight probe: HC_Result(timeout) or one of the  *)
(* HC_Ready_ / HC_Result steps when mio reported its token); a poll is a   *)
(* sequence of these steps, which touch disjoint probes.                   *)
(* `act` is an observation variable (label + the probe results credited).  *)
(***************************************************************************)
EXTENDS Naturals, Integers, Sequences, FiniteSets, TLC

CONSTANTS
  Clusters,     \* cluster ids
  Slots,        \* subset of [id : STRING, addr : Nat]: backend identities AddBackend may use
  Configs,      \* set of [interval, timeout, hth, uth, expect]: what SetHealthCheck / AddCluster may carry
  Modes,        \* server behaviours: subset of {"s200","s204","s500","close","stall","refuse","any"}
  Unroutable,   \* addresses to which connect() fails synchronously (immediate failure, no probe in flight)
  MaxPids,      \* probe slots (the token table; 65536 in the code)
  Grace,        \* ticks the event loop may lag behind a due time-triggered step (poll_timeout = 1 s)
  HCap,         \* cap of the consecutive counters (>= every threshold)
  MaxEnv,       \* budget of server mode changes   (liveness: "from some point on")
  MaxCfg,       \* budget of configuration commands
  Deviations    \* behaviours of the code before its repairs, switchable: subset of
                \* {"CreditByAddress", "RemoveKeepsHealth", "AddClusterKeepsProbes"}

VARIABLES cfg, list, hs, inflight, since, srv, envSteps, cfgSteps, act

vars == <<cfg, list, hs, inflight, since, srv, envSteps, cfgSteps, act>>
view == <<cfg, list, hs, inflight, since, srv, envSteps, cfgSteps>>

NoCfg == [interval |-> 0, timeout |-> 0, hth |-> 0, uth |-> 0, expect |-> 0]
Never == -1
Addrs == {s.addr : s \in Slots}

ASSUME \A k \in Configs : k.interval >= 1 /\ k.timeout >= 1 /\ k.hth >= 1 /\ k.uth >= 1 /\ k.hth <= HCap /\ k.uth <= HCap

MaxOf(S) == CHOOSE x \in S : \A y \in S : y <= x
Min2(a, b) == IF a < b THEN a ELSE b
MaxInterval == MaxOf({k.interval : k \in Configs} \cup {1})
MaxTimeout == MaxOf({k.timeout : k \in Configs} \cup {1})
SinceCap == MaxInterval + Grace + 1
AgeCap == MaxTimeout + Grace + 1

Range(q) == {q[i] : i \in 1..Len(q)}
Fresh == [healthy |-> TRUE, cs |-> 0, cf |-> 0]          \* HealthState::default()
Pids == DOMAIN inflight
HasCfg(c) == cfg[c] # NoCfg

\* is_status_healthy
Match(status, expect) == IF expect = 0 THEN status >= 200 /\ status < 300 ELSE status = expect
StatusOf(m) == CASE m = "s200" -> 200 [] m = "s204" -> 204 [] m = "s500" -> 500 [] OTHER -> 0

---------------------------------------------------------------------------
(* HealthState::record_success / record_failure as the documentation states them (doc/health_checks.md):  *)
(* a success clears the failure streak and advances the success streak, an unhealthy backend becomes      *)
(* healthy when the streak reaches healthy_threshold; symmetrically for failures.                         *)

Record(h, ok, hth, uth) ==
  IF ok THEN LET n == Min2(h.cs + 1, HCap) IN [healthy |-> h.healthy \/ n >= hth, cs |-> n, cf |-> 0]
        ELSE LET n == Min2(h.cf + 1, HCap) IN [healthy |-> h.healthy /\ n < uth, cs |-> 0, cf |-> n]

\* HealthChecker::record_check_result: the backend of cluster c the result of a probe is credited to
\* ({} = the result is dropped).  The probe names its backend by (backend_id, address).
Target(c, id, addr) ==
  IF "CreditByAddress" \in Deviations
  THEN LET idx == {i \in 1..Len(list[c]) : list[c][i].addr = addr}
       IN IF idx = {} THEN {} ELSE {list[c][CHOOSE i \in idx : \A j \in idx : i <= j]}     \* find_backend(&address): first hit
  ELSE {s \in Range(list[c]) : s.id = id /\ s.addr = addr}

\* a credit is the record [c, id, addr, ok, hth, uth] of one probe outcome
CreditOf(p, ok) == [c |-> p.c, id |-> p.id, addr |-> p.addr, ok |-> ok, hth |-> p.hth, uth |-> p.uth]

\* hs after one credit
Apply(H, k) ==
  LET t == Target(k.c, k.id, k.addr)
  IN IF t = {} THEN H
     ELSE LET s == CHOOSE x \in t : TRUE
          IN [H EXCEPT ![k.c] = [@ EXCEPT ![s] = Record(@, k.ok, k.hth, k.uth)]]

\* hs after a set of credits to pairwise different probes (order irrelevant unless two hit one backend,
\* which only the CreditByAddress deviation allows: then any order)
RECURSIVE ApplyAll(_, _)
ApplyAll(H, K) == IF K = {} THEN H ELSE LET k == CHOOSE x \in K : TRUE IN ApplyAll(Apply(H, k), K \ {k})

ResetHealth(H, c) == [H EXCEPT ![c] = [s \in DOMAIN @ |-> Fresh]]

---------------------------------------------------------------------------
(* Configuration commands (server.rs notify_proxys) *)

Label(op, c, credits) == [op |-> op, c |-> c, credits |-> credits]
\* (a negative budget = unlimited, the counter then stays put)
CfgStep == IF MaxCfg < 0 THEN UNCHANGED cfgSteps ELSE cfgSteps < MaxCfg /\ cfgSteps' = cfgSteps + 1

\* SetHealthCheck, or AddCluster carrying a health check: the map entry is replaced; nothing else
Cfg_SetHealthCheck(c, k) ==
  /\ CfgStep
  /\ cfg' = [cfg EXCEPT ![c] = k]
  /\ act' = Label("SetHealthCheck", c, {})
  /\ UNCHANGED <<list, hs, inflight, since, srv, envSteps>>

\* remove_health_check_state: HealthChecker::remove_cluster (in-flight probes of the cluster dropped, last
\* check time forgotten) and the configuration entry removed; every backend of the cluster back to healthy
DropCluster(c) == [p \in {q \in Pids : inflight[q].c # c} |-> inflight[p]]

RemoveEffect(c, op) ==
  /\ CfgStep
  /\ cfg' = [cfg EXCEPT ![c] = NoCfg]
  /\ inflight' = DropCluster(c)
  /\ since' = [since EXCEPT ![c] = Never]
  /\ hs' = IF "RemoveKeepsHealth" \in Deviations THEN hs ELSE ResetHealth(hs, c)
  /\ act' = Label(op, c, {})
  /\ UNCHANGED <<list, srv, envSteps>>

Cfg_RemoveHealthCheck(c) == RemoveEffect(c, "RemoveHealthCheck")
Cfg_RemoveCluster(c) == RemoveEffect(c, "RemoveCluster")

\* AddCluster without a health check (a cluster update): set_health_check_config(None)
Cfg_AddClusterNoHc(c) ==
  /\ CfgStep
  /\ cfg' = [cfg EXCEPT ![c] = NoCfg]
  /\ hs' = ResetHealth(hs, c)
  /\ IF "AddClusterKeepsProbes" \in Deviations
     THEN UNCHANGED <<inflight, since>>
     ELSE inflight' = DropCluster(c) /\ since' = [since EXCEPT ![c] = Never]
  /\ act' = Label("AddClusterNoHc", c, {})
  /\ UNCHANGED <<list, srv, envSteps>>

\* BackendList::add_backend: an upsert on (backend_id, address) that keeps the runtime state
Cfg_AddBackend(c, s) ==
  /\ CfgStep
  /\ IF s \in Range(list[c])
     THEN UNCHANGED <<list, hs>>
     ELSE /\ list' = [list EXCEPT ![c] = Append(@, s)]
          /\ hs' = [hs EXCEPT ![c] = [x \in DOMAIN @ \cup {s} |-> IF x = s THEN Fresh ELSE @[x]]]
  /\ act' = Label("AddBackend", c, {})
  /\ UNCHANGED <<cfg, inflight, since, srv, envSteps>>

\* BackendList::remove_backend: every backend at the address; the checker is not told
\* (a probe in flight to it stays in flight; its result is dropped or goes to a backend re-added meanwhile)
Cfg_RemoveBackend(c, a) ==
  /\ CfgStep
  /\ list' = [list EXCEPT ![c] = SelectSeq(@, LAMBDA s : s.addr # a)]
  /\ hs' = [hs EXCEPT ![c] = [x \in {s \in DOMAIN @ : s.addr # a} |-> @[x]]]
  /\ act' = Label("RemoveBackend", c, {})
  /\ UNCHANGED <<cfg, inflight, since, srv, envSteps>>

---------------------------------------------------------------------------
(* The checker *)

InFlightFor(c, id) == \E p \in Pids : inflight[p].c = c /\ inflight[p].id = id

\* initiate_checks, one cluster: due when there is no last check time or the interval (plus jitter) elapsed;
\* a probe for every backend that has none in flight (matched by cluster and backend id)
Due(c) == HasCfg(c) /\ (since[c] = Never \/ since[c] >= cfg[c].interval)
TargetsSeq(c) == SelectSeq(list[c], LAMBDA s : ~InFlightFor(c, s.id))

\* allocate_token: free slots of the token table (which ones is immaterial: the n smallest)
Free == {i \in 1..MaxPids : i \notin Pids}
RECURSIVE Smallest(_, _)
Smallest(S, n) == IF n = 0 \/ S = {} THEN {} ELSE LET m == CHOOSE x \in S : \A y \in S : x <= y IN {m} \cup Smallest(S \ {m}, n - 1)

NewProbe(c, s) == [c |-> c, id |-> s.id, addr |-> s.addr, age |-> 0, timeout |-> cfg[c].timeout,
                   hth |-> cfg[c].hth, uth |-> cfg[c].uth, expect |-> cfg[c].expect,
                   phase |-> "connecting", wire |-> "syn"]

HC_Poll_StartProbe(c) ==
  LET T == TargetsSeq(c)
      imm == {i \in 1..Len(T) : T[i].addr \in Unroutable}      \* TcpStream::connect failed at once
      go == SelectSeq(T, LAMBDA s : s.addr \notin Unroutable)
  IN /\ Due(c)
     /\ Len(T) > 0
     /\ Cardinality(Free) >= Len(go)          \* (the token table never fills up in the instances checked)
     /\ LET S == Smallest(Free, Len(go))
            rank(p) == Cardinality({x \in S : x <= p})
        IN inflight' = [p \in Pids \cup S |-> IF p \in Pids THEN inflight[p] ELSE NewProbe(c, go[rank(p)])]
     /\ since' = [since EXCEPT ![c] = 0]
     /\ LET K == {CreditOf(NewProbe(c, T[i]), FALSE) : i \in imm}
        IN hs' = ApplyAll(hs, K) /\ act' = Label("StartProbe", c, K)
     /\ UNCHANGED <<cfg, list, srv, envSteps, cfgSteps>>

\* progress_checks, token reported ready, request not yet written: the write succeeds on an established connection
HC_Ready_Connected(p) ==
  /\ inflight[p].phase = "connecting" /\ inflight[p].wire \in {"estab", "part", "ans_ok", "ans_bad"}
  /\ inflight' = [inflight EXCEPT ![p].phase = "sent"]
  /\ act' = Label("Connected", inflight[p].c, {})
  /\ UNCHANGED <<cfg, list, hs, since, srv, envSteps, cfgSteps>>

\* some bytes of the response but no complete status line yet (try_parse_status_line = None): keep reading
HC_Ready_Partial(p) ==
  /\ inflight[p].phase = "sent" /\ inflight[p].wire = "part"
  /\ inflight' = [inflight EXCEPT ![p].phase = "reading"]
  /\ act' = Label("Partial", inflight[p].c, {})
  /\ UNCHANGED <<cfg, list, hs, since, srv, envSteps, cfgSteps>>

\* the outcomes of a probe; the timeout is checked before readiness and wins
ResultOK(p, kind) ==
  LET r == inflight[p] IN
  CASE kind = "timeout" -> r.age >= r.timeout
    [] kind = "ok"      -> r.phase \in {"sent", "reading"} /\ r.wire = "ans_ok"
    [] kind = "bad"     -> r.phase \in {"sent", "reading"} /\ r.wire = "ans_bad"
    [] kind = "refused" -> r.phase = "connecting" /\ r.wire = "refused"
    [] kind = "closed"  -> r.wire = "closed"
    [] OTHER            -> FALSE

ResultKinds == {"ok", "bad", "refused", "closed", "timeout"}

\* the state change of a result, whatever the reason (the trace specification reuses it)
ResultEffect(p, ok) ==
  LET k == CreditOf(inflight[p], ok)
  IN /\ inflight' = [q \in Pids \ {p} |-> inflight[q]]
     /\ hs' = Apply(hs, k)
     /\ act' = Label("Result", inflight[p].c, {k})
     /\ UNCHANGED <<cfg, list, since, srv, envSteps, cfgSteps>>

HC_Result(p, kind) == ResultOK(p, kind) /\ ResultEffect(p, kind = "ok")
HC_ProbeTimeout(p) == HC_Result(p, "timeout")

---------------------------------------------------------------------------
(* The environment: the server at the probe's address, according to its mode *)

ModeOf(p) == srv[inflight[p].addr]
SetWire(p, w, lbl) ==
  /\ inflight' = [inflight EXCEPT ![p].wire = w]
  /\ act' = Label(lbl, inflight[p].c, {})
  /\ UNCHANGED <<cfg, list, hs, since, srv, envSteps, cfgSteps>>

\* mode "any": the server may do anything at any time (used for the safety checks: one mode covers them all,
\* including a connection attempt that is never answered)
Answering == {"s200", "s204", "s500"}
Srv_Refuse(p) == inflight[p].wire = "syn" /\ ModeOf(p) \in {"refuse", "any"} /\ SetWire(p, "refused", "SrvRefuse")
Srv_Accept(p) == inflight[p].wire = "syn" /\ ModeOf(p) # "refuse" /\ SetWire(p, "estab", "SrvAccept")
\* the server has read the request (so the checker wrote it) and sends the first bytes of the status line only
Srv_Partial(p) ==
  /\ inflight[p].wire = "estab" /\ inflight[p].phase = "sent" /\ ModeOf(p) \in Answering \cup {"any"}
  /\ SetWire(p, "part", "SrvPartial")
Srv_Answer(p, good) ==
  /\ inflight[p].wire \in {"estab", "part"} /\ inflight[p].phase \in {"sent", "reading"}
  /\ \/ ModeOf(p) \in Answering /\ good = Match(StatusOf(ModeOf(p)), inflight[p].expect)
     \/ ModeOf(p) = "any"
  /\ SetWire(p, IF good THEN "ans_ok" ELSE "ans_bad", "SrvAnswer")
Srv_Close(p) == inflight[p].wire \in {"estab", "part"} /\ ModeOf(p) \in {"close", "any"} /\ SetWire(p, "closed", "SrvClose")

Env_SetMode(a, m) ==
  /\ IF MaxEnv < 0 THEN UNCHANGED envSteps ELSE envSteps < MaxEnv /\ envSteps' = envSteps + 1
  /\ srv[a] # m
  /\ srv' = [srv EXCEPT ![a] = m]
  /\ act' = Label("SetMode", "", {})
  /\ UNCHANGED <<cfg, list, hs, inflight, since, cfgSteps>>

---------------------------------------------------------------------------
(* Time.  Socket readiness wakes the event loop at once (readiness-triggered steps happen within the tick);  *)
(* time-triggered steps (first/next round, timeout) happen at the latest Grace ticks after they are due      *)
(* (the loop wakes at least every poll_timeout = 1 s); a server in an answering mode answers within the tick. *)

ReadyStep(p) ==
  \/ inflight[p].phase = "connecting" /\ inflight[p].wire \in {"estab", "part", "ans_ok", "ans_bad"}
  \/ inflight[p].phase = "sent" /\ inflight[p].wire = "part"
  \/ \E kind \in ResultKinds \ {"timeout"} : ResultOK(p, kind)
ServerStep(p) ==
  \/ inflight[p].wire = "syn" /\ ModeOf(p) # "any"
  \/ inflight[p].wire \in {"estab", "part"} /\ inflight[p].phase \in {"sent", "reading"} /\ ModeOf(p) \in Answering
  \/ inflight[p].wire \in {"estab", "part"} /\ ModeOf(p) = "close"
Overdue(c) == Due(c) /\ Len(TargetsSeq(c)) > 0 /\ (since[c] = Never \/ since[c] >= cfg[c].interval + Grace)

Urgent ==
  \/ \E p \in Pids : ReadyStep(p) \/ ServerStep(p) \/ inflight[p].age >= inflight[p].timeout + Grace
  \/ \E c \in Clusters : Overdue(c)

Advance ==
  /\ inflight' = [p \in Pids |-> [inflight[p] EXCEPT !.age = Min2(@ + 1, AgeCap)]]
  /\ since' = [c \in Clusters |-> IF since[c] = Never THEN Never ELSE Min2(since[c] + 1, SinceCap)]
  /\ act' = Label("Tick", "", {})
  /\ UNCHANGED <<cfg, list, hs, srv, envSteps, cfgSteps>>

Tick == ~Urgent /\ Advance

---------------------------------------------------------------------------

Init ==
  /\ cfg = [c \in Clusters |-> NoCfg]
  /\ list = [c \in Clusters |-> <<>>]
  /\ hs = [c \in Clusters |-> [s \in {} |-> Fresh]]
  /\ inflight = [p \in {} |-> 0]
  /\ since = [c \in Clusters |-> Never]
  /\ srv \in [Addrs -> Modes]
  /\ envSteps = 0 /\ cfgSteps = 0
  /\ act = Label("Init", "", {})

Config ==
  \/ \E c \in Clusters, k \in Configs : Cfg_SetHealthCheck(c, k)
  \/ \E c \in Clusters : Cfg_RemoveHealthCheck(c)
  \/ \E c \in Clusters : Cfg_RemoveCluster(c)
  \/ \E c \in Clusters : Cfg_AddClusterNoHc(c)
  \/ \E c \in Clusters, s \in Slots : Cfg_AddBackend(c, s)
  \/ \E c \in Clusters, a \in Addrs : Cfg_RemoveBackend(c, a)

Checker ==
  \/ \E c \in Clusters : HC_Poll_StartProbe(c)
  \/ \E p \in Pids : HC_Ready_Connected(p)
  \/ \E p \in Pids : HC_Ready_Partial(p)
  \/ \E p \in Pids : HC_ProbeTimeout(p)
  \/ \E p \in Pids, kind \in ResultKinds \ {"timeout"} : HC_Result(p, kind)

Server ==
  \/ \E p \in Pids : Srv_Refuse(p)
  \/ \E p \in Pids : Srv_Accept(p)
  \/ \E p \in Pids : Srv_Partial(p)
  \/ \E p \in Pids, good \in BOOLEAN : Srv_Answer(p, good)
  \/ \E p \in Pids : Srv_Close(p)

Env == \E a \in Addrs, m \in Modes : Env_SetMode(a, m)

Next == Config \/ Checker \/ Server \/ Env \/ Tick

Spec == Init /\ [][Next]_vars

\* fairness for the liveness properties: the checker and the servers do their steps, time passes
FairSpec == Spec /\ WF_vars(Checker) /\ WF_vars(Server) /\ WF_vars(Tick)

---------------------------------------------------------------------------
(* Properties (C12, health part).  Stated from the documentation and the property text, per backend. *)

TypeOK ==
  /\ \A c \in Clusters :
       /\ cfg[c] \in Configs \cup {NoCfg}
       /\ Range(list[c]) \subseteq Slots
       /\ \A i, j \in 1..Len(list[c]) : i # j => list[c][i] # list[c][j]
       /\ DOMAIN hs[c] = Range(list[c])
       /\ \A s \in DOMAIN hs[c] : hs[c][s].healthy \in BOOLEAN /\ hs[c][s].cs \in 0..HCap /\ hs[c][s].cf \in 0..HCap
       /\ since[c] \in {Never} \cup 0..SinceCap
  /\ Pids \subseteq 1..MaxPids
  /\ \A p \in Pids : /\ inflight[p].c \in Clusters /\ inflight[p].age \in 0..AgeCap
                     /\ inflight[p].phase \in {"connecting", "sent", "reading"}
                     /\ inflight[p].wire \in {"syn", "refused", "estab", "part", "ans_ok", "ans_bad", "closed"}
  /\ srv \in [Addrs -> Modes]

\* at most one probe in flight per backend = (cluster, backend id, address).  (The checker's filter looks at
\* cluster and id only: two backends with one id at two addresses are probed together in one round and then both
\* wait until neither has a probe in flight.)
P_C12h_OneInFlight ==
  \A p, q \in Pids : p # q => ~(inflight[p].c = inflight[q].c /\ inflight[p].id = inflight[q].id
                                   /\ inflight[p].addr = inflight[q].addr)

\* the two streaks are streaks: never both positive
P_C12h_Consecutive == \A c \in Clusters : \A s \in DOMAIN hs[c] : ~(hs[c][s].cs > 0 /\ hs[c][s].cf > 0)

\* no probe is in flight for a cluster whose health check was removed (stale probes are dropped)
P_C12h_StaleDropped == \A p \in Pids : HasCfg(inflight[p].c)

\* a cluster without a health check has every backend eligible as far as health is concerned
P_C12h_NoCfgAllEligible == \A c \in Clusters : ~HasCfg(c) => \A s \in DOMAIN hs[c] : hs[c][s] = Fresh

\* a probe that gets no answer counts as a failure at the latest Grace ticks after its timeout (and the
\* result removes it, see P_C12h_Step: once)
P_C12h_TimeoutBound == \A p \in Pids : inflight[p].age <= inflight[p].timeout + Grace

\* the health record of a backend that stays registered over a step changes only
\*   - by the result of ONE probe that was sent to this very backend (cluster, id, address), and then exactly as
\*     documented: marked unhealthy iff this is the unhealthy_threshold-th consecutive failure (never earlier,
\*     never later), marked healthy iff this is the healthy_threshold-th consecutive success, thresholds being
\*     those of the configuration the probe was started with;
\*   - or back to pristine healthy when the cluster's health check is removed.
Mine(c, s) == {k \in act'.credits : k.c = c /\ k.id = s.id /\ k.addr = s.addr}
StepOK(c, s) ==
  LET before == hs[c][s]  after == hs'[c][s]  K == Mine(c, s) IN
  IF act'.op \in {"RemoveHealthCheck", "RemoveCluster", "AddClusterNoHc"} /\ act'.c = c THEN after = Fresh
  ELSE IF K = {} THEN after = before
  ELSE /\ Cardinality(K) = 1
       /\ \A k \in K : after = Record(before, k.ok, k.hth, k.uth)

P_C12h_Step ==
  [][\A c \in Clusters : \A s \in Range(list[c]) \cap Range(list'[c]) : StepOK(c, s)]_vars

\* readable consequences of P_C12h_Step, stated on their own
P_C12h_DownOnlyAtThreshold ==
  [][\A c \in Clusters : \A s \in Range(list[c]) \cap Range(list'[c]) :
        (hs[c][s].healthy /\ ~hs'[c][s].healthy) =>
           \E k \in Mine(c, s) : ~k.ok /\ hs[c][s].cf + 1 >= k.uth /\ hs'[c][s].cf = Min2(hs[c][s].cf + 1, HCap)]_vars
P_C12h_UpOnlyAtThreshold ==
  [][\A c \in Clusters : \A s \in Range(list[c]) \cap Range(list'[c]) :
        (~hs[c][s].healthy /\ hs'[c][s].healthy) =>
           \/ act'.op \in {"RemoveHealthCheck", "RemoveCluster", "AddClusterNoHc"} /\ act'.c = c
           \/ \E k \in Mine(c, s) : k.ok /\ hs[c][s].cs + 1 >= k.hth]_vars
\* a result is credited once: the step that credits it removes the probe from the in-flight table
P_C12h_CreditedOnce ==
  [][act'.op = "Result" => /\ Cardinality(act'.credits) = 1
                           /\ \E p \in Pids : DOMAIN inflight' = Pids \ {p} /\ CreditOf(inflight[p], TRUE).id \in {k.id : k \in act'.credits}]_vars

\* liveness (FairSpec): a registered backend of a checked cluster whose server answers the expected status from
\* some point on is eventually healthy for good; one whose server does not, eventually unhealthy for good
Registered(c, s) == s \in Range(list[c])
Good(c, s) == HasCfg(c) /\ srv[s.addr] \in Answering /\ Match(StatusOf(srv[s.addr]), cfg[c].expect)
               /\ s.addr \notin Unroutable
P_C12h_EventuallyHealthy ==
  \A c \in Clusters : \A s \in Slots :
    (<>[](Registered(c, s) /\ Good(c, s))) => <>[](Registered(c, s) /\ hs[c][s].healthy)
P_C12h_EventuallyUnhealthy ==
  \A c \in Clusters : \A s \in Slots :
    (<>[](Registered(c, s) /\ HasCfg(c) /\ ~Good(c, s))) => <>[](Registered(c, s) /\ ~hs[c][s].healthy)
=============================================================================
