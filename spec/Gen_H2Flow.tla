----------------------------- MODULE Gen_H2Flow -----------------------------
(***************************************************************************)
(* S->I generator for C14: behaviours of H2Flow (small constants) are      *)
(* turned into PEER SCHEDULES.  `hist` records the peer's actions in order *)
(* plus a "sync" marker wherever sozu moved between two of them (the       *)
(* harness then lets sozu drain before the next peer action; consecutive   *)
(* peer actions are sent back to back).  One REPLAY line per behaviour,    *)
(* printed when every stream is finished or the schedule is long enough.   *)
(* tools/props/c14.py concretises the sizes and hands the schedules to     *)
(* harness/drive_h2flow, whose ledger is validated by Trace_H2Flow.        *)
(* A "wu" record carries the window it finds (w): c14.py weights the       *)
(* schedules by class (an update that lifts a NEGATIVE window above zero   *)
(* in one step, three SETTINGS frames on one connection).                  *)
(***************************************************************************)
EXTENDS MC_H2Flow, Json

CONSTANT MaxHist
VARIABLES hist, emitted

gvars == <<vars, hist, emitted>>

Rec(r) == hist' = Append(hist, r) /\ UNCHANGED emitted
Sync == /\ hist' = (IF hist # <<>> /\ hist[Len(hist)].op # "sync" THEN Append(hist, [op |-> "sync"]) ELSE hist)
        /\ UNCHANGED emitted

AllDone == ids # {} /\ \A s \in ids : sst[s] \in {"done", "reset"} /\ pst[s] = "done"
Enough == AllDone \/ Len(hist) >= MaxHist

GenNext ==
  \/ /\ ~emitted /\ ~Enough
     /\ \/ \E v \in SettingsVals :
             Peer_Settings(v) /\ Rec([op |-> "settings", initWin |-> v.initWin, maxFrame |-> v.maxFrame,
                                      maxStreams |-> v.maxStreams, tbl |-> v.tbl])
        \/ \E s \in Ids, b \in Bodies, u \in Ups :
             Peer_Open(s, b, u) /\ Rec([op |-> "open", sid |-> s, b |-> b, u |-> u])
        \/ \E x \in Ids \cup {0}, n \in Grants :
             Peer_WindowUpdate(x, n) /\ Rec([op |-> "wu", sid |-> x, n |-> n, w |-> IF x = 0 THEN connWin ELSE strWin[x]])
        \/ (\E s \in Ids, u \in Ups : Peer_Respond(s, u)) /\ UNCHANGED <<hist, emitted>>
        \/ (\E s \in Ids, n \in 0..MaxWin, es \in BOOLEAN : Peer_SendData(s, n, es)) /\ UNCHANGED <<hist, emitted>>
        \/ SozuNext /\ Sync
  \/ /\ ~emitted /\ Enough /\ hist # <<>>
     /\ PrintT(<<"REPLAY", ToJson(hist)>>)
     /\ emitted' = TRUE /\ UNCHANGED <<vars, hist>>

GenSpec == Init /\ hist = <<>> /\ emitted = FALSE /\ [][GenNext]_gvars
=============================================================================
