//! Shell leg of C19: a REAL sozu worker (vh::worker) with a UDP listener, mock UDP backends and
//! clients played by this process, driven in lock step; who-received-what is recorded as an ndjson
//! trace validated by TLC against spec/Trace_UdpShell.tla (the UdpFlows handlers composed the way
//! lib/src/udp.rs composes them: SelectBackend is answered at once by BackendResolved).
//!
//! Besides the lock-step steps there are BATCHES: k datagrams (client datagrams of several sources,
//! of new and of established flows, and backend replies for several flows) are put on the worker's
//! sockets while the worker is held right before `poll` (the `loop_idle` verification hook calls
//! back into this process on the worker thread: the callback simply blocks until the batch is on
//! the wire), so that ONE drain pass of the listener socket holds all of them and both directions
//! share one poll turn; some batches are sent without holding the worker (a burst racing with the
//! event loop). What every backend / client received, in arrival order per socket, is recorded.
//!
//! Every datagram carries its identity ("<id>:" + padding; the trace says which source sent which
//! id); backends and clients are plain blocking sockets with deadlines. Conclusions of the form "nothing arrived" are only drawn after
//! `--quiet-ms` (default 700 ms; loopback delivery takes microseconds) and only where the spec
//! itself predicts a drop.
//!
//! --out <file>: trace. stdout: violations (worker panic, unreadable datagram) and a summary.

use std::collections::BTreeMap;
use std::io::{BufWriter, Write};
use std::net::{SocketAddr, UdpSocket};
use std::sync::{Condvar, Mutex};
use std::time::{Duration, Instant};

use rand::{RngExt, SeedableRng, rngs::StdRng};
use serde_json::{Value, json};
use sozu_command_lib::proto::command::{
    ActivateListener, Cluster, ListenerType, LoadBalancingAlgorithms, RequestUdpFrontend, Status, UdpAffinityKey, UdpClusterConfig,
    UdpListenerConfig, UpdateUdpListenerConfig, request::RequestType,
};
use vh::worker::{Worker, free_addr, ok};

const CLUSTER: &str = "cluster-1";
const T: Duration = Duration::from_secs(10);

// ---- holding the worker right before poll (no signals: the loop_idle hook runs on the worker thread) ----

struct Gate {
    hold: bool,
    parked: bool,
}
static GATE: Mutex<Gate> = Mutex::new(Gate { hold: false, parked: false });
static GATE_CV: Condvar = Condvar::new();

fn gate() -> std::sync::MutexGuard<'static, Gate> {
    GATE.lock().unwrap_or_else(|p| p.into_inner())
}

fn install_gate() {
    sozu_lib::verif::install(Box::new(|e| {
        if e.kind != "loop_idle" || !e.thread.starts_with("c19-") {
            return;
        }
        let mut g = gate();
        if g.hold {
            g.parked = true;
            GATE_CV.notify_all();
            while g.hold {
                g = GATE_CV.wait(g).unwrap_or_else(|p| p.into_inner());
            }
            g.parked = false;
            GATE_CV.notify_all();
        }
    }));
}

fn release() {
    gate().hold = false;
    GATE_CV.notify_all();
}

fn payload(id: i64, len: usize) -> Vec<u8> {
    let mut v = format!("{id}:").into_bytes();
    while v.len() < len {
        v.push(b'a' + ((id as usize * 7 + v.len()) % 26) as u8);
    }
    v
}

/// (id, intact): the identity a datagram claims and whether its bytes are exactly what was sent
fn parse(b: &[u8]) -> (i64, bool) {
    let pos = match b.iter().position(|&c| c == b':') {
        Some(p) => p,
        None => return (-1, false),
    };
    let id: i64 = std::str::from_utf8(&b[..pos]).ok().and_then(|s| s.parse().ok()).unwrap_or(-1);
    (id, id >= 0 && payload(id, b.len()) == b)
}

struct Knobs {
    with_port: bool,
    responses: u32,
    requests: u32,
}

fn cluster(k: &Knobs) -> Cluster {
    Cluster {
        load_balancing: LoadBalancingAlgorithms::RoundRobin.into(),
        udp: Some(UdpClusterConfig {
            affinity_key: Some(if k.with_port { UdpAffinityKey::SourceIpPort } else { UdpAffinityKey::SourceIp }.into()),
            responses: Some(k.responses),
            requests: Some(k.requests),
            ..Default::default()
        }),
        ..Worker::default_cluster(CLUSTER)
    }
}

fn cfg_t(k: &Knobs, timeout: u32) -> Value {
    json!([1, k.with_port as i64, k.responses, k.requests, timeout, timeout, 0, 0])
}

struct Shell {
    worker: Worker,
    front: SocketAddr,
    backends: Vec<UdpSocket>,
    clients: Vec<UdpSocket>,
    /// the spec's name of every client: (ip number 1.., port)
    client_ids: Vec<(i64, i64)>,
    quiet: Duration,
}

/// source addresses of the mock clients: two share an IP (per-IP affinity folds them into one flow)
const CLIENT_IPS: [u8; 4] = [1, 1, 2, 3];

/// what one receiving socket saw, in arrival order
type Arrivals = Vec<Vec<Value>>;

impl Shell {
    /// wait for one datagram on any backend socket: (backend index 1.., upstream port, bytes)
    fn backend_recv(&self, wait: Duration) -> Option<(i64, i64, Vec<u8>)> {
        let deadline = Instant::now() + wait;
        let mut buf = [0u8; 4096];
        loop {
            for (i, b) in self.backends.iter().enumerate() {
                if let Ok((n, from)) = b.recv_from(&mut buf) {
                    return Some((i as i64 + 1, from.port() as i64, buf[..n].to_vec()));
                }
            }
            if Instant::now() >= deadline {
                return None;
            }
        }
    }
    fn client_recv(&self, wait: Duration) -> Option<(i64, Vec<u8>)> {
        let deadline = Instant::now() + wait;
        let mut buf = [0u8; 4096];
        loop {
            for (i, c) in self.clients.iter().enumerate() {
                if let Ok((n, _)) = c.recv_from(&mut buf) {
                    return Some((i as i64 + 1, buf[..n].to_vec()));
                }
            }
            if Instant::now() >= deadline {
                return None;
            }
        }
    }

    /// Hold the worker right before its next `poll`. Returns the id of the request that woke it.
    fn pause(&mut self) -> Result<String, String> {
        gate().hold = true;
        // wake the loop so that it comes round to loop_idle now (it would within its poll timeout anyway)
        let id = self.worker.send_type(RequestType::Status(Status {}));
        let deadline = Instant::now() + Duration::from_secs(20);
        let mut g = gate();
        while !g.parked {
            let left = deadline.saturating_duration_since(Instant::now());
            if left.is_zero() || self.worker.is_finished() {
                g.hold = false;
                drop(g);
                GATE_CV.notify_all();
                return Err("the worker did not come round to loop_idle within 20 s".into());
            }
            g = GATE_CV.wait_timeout(g, left.min(Duration::from_millis(100))).unwrap_or_else(|p| p.into_inner()).0;
        }
        Ok(id)
    }

    /// Two command round trips: the first answer is written in a poll turn that started after
    /// everything sent before was queued (so that turn, or an earlier one, drains it); the second
    /// answer proves that turn is over.
    fn settle(&mut self) -> Result<(), String> {
        for _ in 0..2 {
            let r = self.worker.request(RequestType::Status(Status {}), Duration::from_secs(30));
            if r.is_none() && !self.worker.is_finished() {
                return Err("Status not answered within 30 s".into());
            }
        }
        Ok(())
    }

    /// Everything waiting on the backend and client sockets, per socket in arrival order. Stops when
    /// `expect` datagrams arrived and nothing followed for 40 ms, or when nothing arrived for `quiet`.
    fn collect(&self, expect: usize) -> (Arrivals, Arrivals) {
        let mut at: Arrivals = vec![Vec::new(); self.backends.len()];
        let mut cl: Arrivals = vec![Vec::new(); self.clients.len()];
        let mut buf = [0u8; 4096];
        let mut total = 0usize;
        let mut last = Instant::now();
        loop {
            let mut any = false;
            for (i, b) in self.backends.iter().enumerate() {
                while let Ok((n, from)) = b.recv_from(&mut buf) {
                    let (id, intact) = parse(&buf[..n]);
                    at[i].push(json!({"up": from.port(), "id": id, "intact": intact}));
                    any = true;
                    total += 1;
                }
            }
            for (i, c) in self.clients.iter().enumerate() {
                while let Ok((n, _)) = c.recv_from(&mut buf) {
                    let (id, intact) = parse(&buf[..n]);
                    cl[i].push(json!({"id": id, "intact": intact}));
                    any = true;
                    total += 1;
                }
            }
            if any {
                last = Instant::now();
                continue;
            }
            let idle = last.elapsed();
            if (total >= expect && idle >= Duration::from_millis(40)) || idle >= self.quiet {
                return (at, cl);
            }
        }
    }
}

fn setup(name: &str, k: &Knobs, max_flows: u32, max_rx: u32, timeout: u32, quiet: Duration) -> Result<Shell, String> {
    let mut worker = Worker::start_empty(name);
    let front = free_addr();
    let l = UdpListenerConfig {
        address: front.into(),
        public_address: None,
        front_timeout: timeout,
        back_timeout: timeout,
        max_rx_datagram_size: max_rx,
        max_flows,
        active: false,
    };
    let steps = [
        RequestType::AddUdpListener(l),
        RequestType::ActivateListener(ActivateListener { address: front.into(), proxy: ListenerType::Udp.into(), from_scm: false }),
        RequestType::AddCluster(cluster(k)),
        RequestType::AddUdpFrontend(RequestUdpFrontend { cluster_id: CLUSTER.into(), address: front.into(), tags: Default::default() }),
    ];
    for rt in steps {
        let what = format!("{rt:?}");
        if !ok(&worker.request(rt, T)) {
            return Err(format!("setup request failed: {}", &what[..what.len().min(80)]));
        }
    }
    let mut backends = Vec::new();
    for i in 1..=2 {
        let addr = free_addr();
        let s = UdpSocket::bind(addr).map_err(|e| e.to_string())?;
        s.set_read_timeout(Some(Duration::from_millis(2))).unwrap();
        if !ok(&worker.request(RequestType::AddBackend(Worker::backend(CLUSTER, &format!("b{i}"), addr)), T)) {
            return Err("AddBackend failed".into());
        }
        backends.push(s);
    }
    let mut clients = Vec::new();
    let mut client_ids = Vec::new();
    for ip in CLIENT_IPS {
        let s = UdpSocket::bind(SocketAddr::from(([127, 0, 0, ip], 0))).map_err(|e| e.to_string())?;
        s.set_read_timeout(Some(Duration::from_millis(2))).unwrap();
        client_ids.push((ip as i64, s.local_addr().unwrap().port() as i64));
        clients.push(s);
    }
    Ok(Shell { worker, front, backends, clients, client_ids, quiet })
}

#[derive(Clone, Debug)]
enum Item {
    /// a datagram of client (index) with that many bytes
    C(usize, usize),
    /// a datagram of backend (1..) to upstream port, foreign = not the port's peer
    B(i64, i64, bool, usize),
}

fn bump(c: &mut BTreeMap<String, u64>, k: &str) {
    *c.entry(k.to_string()).or_default() += 1;
}

/// One batch: everything is sent back to back (with the worker held before poll when `paused`), then
/// the arrivals are collected. Returns the trace event.
fn batch(sh: &mut Shell, run: u64, items: &[Item], paused: bool, next_id: &mut i64, max_rx: u32, with_port: bool,
         upstreams: &mut Vec<(i64, i64)>, cover: &mut BTreeMap<String, u64>) -> Result<Value, String> {
    let woke = if paused { Some(sh.pause()?) } else { None };
    let mut sends = Vec::new();
    let mut expect = 0usize;
    for it in items {
        *next_id += 1;
        match *it {
            Item::C(c, len) => {
                let r = sh.clients[c].send_to(&payload(*next_id, len), sh.front);
                if r.is_err() {
                    release();
                    return Err(format!("client send failed: {r:?}"));
                }
                if len <= max_rx as usize {
                    expect += 1;
                }
                sends.push(json!({"k":"c","client":c as i64 + 1,"ip":sh.client_ids[c].0,"port":sh.client_ids[c].1,"backend":0,"up":0,
                                  "foreign":false,"pl":{"id":*next_id,"len":len}}));
            }
            Item::B(b, u, foreign, len) => {
                let dst = SocketAddr::new(sh.front.ip(), u as u16);
                let _ = sh.backends[b as usize - 1].send_to(&payload(*next_id, len), dst);
                if !foreign {
                    expect += 1;
                }
                sends.push(json!({"k":"b","client":0,"ip":0,"port":0,"backend":b,"up":u,"foreign":foreign,"pl":{"id":*next_id,"len":len}}));
            }
        }
    }
    if let Some(id) = woke {
        release();
        let _ = sh.worker.wait_for(&id, Duration::from_secs(30));
    }
    sh.settle()?;
    let (at, cl) = sh.collect(expect);

    // coverage of the schedule classes, from what was observed (projection only; nothing is decided here)
    let known: Vec<i64> = upstreams.iter().map(|x| x.0).collect();
    let mut where_: BTreeMap<i64, (i64, i64)> = BTreeMap::new(); // datagram id -> (backend, upstream port)
    for (b, q) in at.iter().enumerate() {
        for o in q {
            where_.insert(o["id"].as_i64().unwrap(), (b as i64 + 1, o["up"].as_i64().unwrap()));
        }
    }
    let mode = if with_port { "port" } else { "ip" };
    let (mut opened, mut ups_seen, mut backends_seen): (Vec<i64>, Vec<i64>, Vec<i64>) = (Vec::new(), Vec::new(), Vec::new());
    let (mut c_delivered, mut hit_new_est, mut hit_same) = (0, false, false);
    for s in &sends {
        if s["k"] != "c" {
            continue;
        }
        if let Some(&(b, u)) = where_.get(&s["pl"]["id"].as_i64().unwrap()) {
            c_delivered += 1;
            if !known.contains(&u) && !opened.contains(&u) {
                opened.push(u);
            } else if known.contains(&u) && !opened.is_empty() {
                hit_new_est = true; // a datagram of an established flow behind the first datagram of a new flow
            }
            if ups_seen.contains(&u) {
                hit_same = true;
            }
            ups_seen.push(u);
            if !backends_seen.contains(&b) {
                backends_seen.push(b);
            }
        }
    }
    let replied: Vec<usize> = cl.iter().enumerate().filter(|(_, q)| !q.is_empty()).map(|(i, _)| i).collect();
    bump(cover, if paused { "batch:held" } else { "batch:burst" });
    if hit_new_est {
        bump(cover, &format!("batch:new-then-established:{mode}"));
        if paused {
            bump(cover, "batch:new-then-established:held");
        }
    }
    if hit_same {
        bump(cover, "batch:same-flow-repeated");
    }
    if backends_seen.len() > 1 {
        bump(cover, "batch:two-backends");
    }
    if replied.len() > 1 {
        bump(cover, "batch:replies-to-several-clients");
    }
    if cl.iter().any(|q| q.len() > 1) {
        bump(cover, "batch:several-replies-to-one-client");
    }
    if c_delivered > 0 && !replied.is_empty() {
        bump(cover, "batch:both-directions");
    }
    for (b, q) in at.iter().enumerate() {
        for o in q {
            let u = o["up"].as_i64().unwrap();
            if !upstreams.iter().any(|x| x.0 == u) {
                upstreams.push((u, b as i64 + 1));
            }
        }
    }
    Ok(json!({"ev":"batch","run":run,"paused":paused as i64,"sends":sends,"at":at,"cl":cl}))
}

/// One run. Returns (events written, worker panic message if any).
fn one_run(rng: &mut StdRng, run: u64, steps: usize, w: &mut BufWriter<std::fs::File>, cover: &mut BTreeMap<String, u64>, quiet: Duration,
           flips: bool) -> Result<(u64, Option<String>), String> {
    // odd runs start in the configuration where flows can share a backend (4 per-port flows over 2
    // backends): the case where a shell that picked the upstream socket by destination would alias;
    // even runs start with per-IP affinity (3 flows for 4 clients) and random teardown contracts
    let crowded = run % 2 == 1;
    let mut k = Knobs {
        with_port: crowded,
        responses: if crowded { 0 } else { [0, 0, 2][rng.random_range(0..3)] },
        requests: if crowded { 0 } else { [0, 0, 3][rng.random_range(0..3)] },
    };
    let mut cap: u32 = if crowded { 4 } else { rng.random_range(3..5) };
    let max_rx: u32 = 48;
    let timeout = 120u32;
    let mut sh = setup(&format!("c19-{run}"), &k, cap, max_rx, timeout, quiet)?;
    let nc = sh.clients.len();
    let mut events = 0u64;
    let ev = |w: &mut BufWriter<std::fs::File>, v: Value| {
        writeln!(w, "{}", v).expect("write trace");
    };
    ev(w, json!({"ev":"reset","run":run,"cluster":cfg_t(&k, timeout),"maxFlows":cap,"maxRx":max_rx,
                 "clients": sh.client_ids.iter().map(|c| json!({"ip":c.0,"port":c.1})).collect::<Vec<_>>() }));
    events += 1;
    let mut next_id = 0i64;
    // upstream ports seen at the backends, newest last: (port, backend)
    let mut upstreams: Vec<(i64, i64)> = Vec::new();
    for step in 0..steps {
        if sh.worker.is_finished() {
            break;
        }
        // steps 0, 1: two flows are opened in lock step (clients of different IPs: two flows in both
        // affinity modes); step 2: the directed batch - the first datagram of a new flow (the client of the
        // third IP) with datagrams of the established flows (and of the other port of the first IP: a new
        // flow per port, the first flow per IP) behind it, the worker held so that one drain pass has all;
        // step 3: replies for all flows and client datagrams in one poll turn
        let roll = match step {
            0 | 1 => 40,
            2 => 200,
            3 => 201,
            _ => rng.random_range(0..100u32),
        };
        match roll {
            200 | 201 | 0..38 => {
                let mut items = Vec::new();
                let len = |rng: &mut StdRng| rng.random_range(8..=max_rx as usize);
                if roll == 200 {
                    let mut rest = vec![0usize, 2, 1];
                    for i in (1..rest.len()).rev() {
                        rest.swap(i, rng.random_range(0..=i));
                    }
                    items.push(Item::C(3, len(rng)));
                    for c in rest {
                        items.push(Item::C(c, len(rng)));
                    }
                    items.push(Item::C(3, len(rng)));
                    items.push(Item::C([0usize, 2][rng.random_range(0..2)], len(rng)));
                } else if roll == 201 {
                    // both directions in one poll turn: a reply for every flow seen so far, client datagrams between them
                    for (j, &(u, owner)) in upstreams.clone().iter().enumerate() {
                        items.push(Item::B(owner, u, false, len(rng)));
                        if j == 0 {
                            // two replies wait on one upstream socket
                            items.push(Item::B(owner, u, false, len(rng)));
                        }
                        items.push(Item::C([2usize, 3, 0, 1][j % 4], len(rng)));
                    }
                } else {
                    for _ in 0..rng.random_range(2..=6) {
                        if !upstreams.is_empty() && rng.random_bool(0.35) {
                            let (u, owner) = upstreams[rng.random_range(0..upstreams.len())];
                            let foreign = rng.random_bool(0.15);
                            items.push(Item::B(if foreign { 3 - owner } else { owner }, u, foreign, len(rng)));
                        } else {
                            let l = if rng.random_bool(0.08) { max_rx as usize + 5 } else { len(rng) };
                            items.push(Item::C(rng.random_range(0..nc), l));
                        }
                    }
                }
                let paused = roll >= 200 || rng.random_bool(0.75);
                match batch(&mut sh, run, &items, paused, &mut next_id, max_rx, k.with_port, &mut upstreams, cover) {
                    Ok(e) => {
                        ev(w, e);
                        events += 1;
                    }
                    // a worker that died is data (its panic is reported below), anything else a tool problem
                    Err(_) if sh.worker.is_finished() => break,
                    Err(e) => return Err(e),
                }
            }
            38..58 => {
                // a client datagram; sometimes too long for max_rx
                let warmup = step < 2;
                let c = if warmup { [0usize, 2][step] } else { rng.random_range(0..nc) };
                next_id += 1;
                let len = if !warmup && rng.random_bool(0.1) { max_rx as usize + 5 } else { rng.random_range(8..=max_rx as usize) };
                let bytes = payload(next_id, len);
                sh.clients[c].send_to(&bytes, sh.front).map_err(|e| e.to_string())?;
                let got = sh.backend_recv(sh.quiet);
                let obs = match &got {
                    None => json!({"got":0}),
                    Some((b, u, data)) => {
                        let (id, intact) = parse(data);
                        if !upstreams.iter().any(|x| x.0 == *u) {
                            upstreams.push((*u, *b));
                        }
                        json!({"got":1,"backend": b, "up": u, "id": id, "intact": intact})
                    }
                };
                bump(cover, if got.is_some() { "c2b:delivered" } else { "c2b:nothing" });
                // a second copy must never follow
                let dup = sh.backend_recv(Duration::from_millis(30)).is_some() as i64;
                ev(w, json!({"ev":"c2b","run":run,"client":c as i64 + 1,"ip":sh.client_ids[c].0,"port":sh.client_ids[c].1,
                             "pl":{"id":next_id,"len":len},"obs":obs,"dup":dup}));
                events += 1;
            }
            58..72 => {
                // a backend replies on one of the upstream sockets it has seen (usually its own)
                if upstreams.is_empty() {
                    continue;
                }
                let (u, owner) = upstreams[rng.random_range(0..upstreams.len())];
                let foreign = rng.random_bool(0.2);
                let b = if foreign { 3 - owner } else { owner };
                next_id += 1;
                let len = rng.random_range(8..=max_rx as usize);
                let bytes = payload(next_id, len);
                let dst = SocketAddr::new(sh.front.ip(), u as u16);
                let _ = sh.backends[b as usize - 1].send_to(&bytes, dst);
                let got = sh.client_recv(sh.quiet);
                let obs = match &got {
                    None => json!({"got":0}),
                    Some((c, data)) => {
                        let (id, intact) = parse(data);
                        json!({"got":1,"client": c, "id": id, "intact": intact})
                    }
                };
                bump(cover, if foreign { "b2c:foreign" } else if got.is_some() { "b2c:delivered" } else { "b2c:nothing" });
                let dup = sh.client_recv(Duration::from_millis(30)).is_some() as i64;
                ev(w, json!({"ev":"b2c","run":run,"backend":b,"up":u,"foreign":foreign,"pl":{"id":next_id,"len":len},"obs":obs,"dup":dup}));
                events += 1;
            }
            72..84 => {
                // reconfigure the cluster's UDP knobs (optionally the affinity key)
                if flips && rng.random_bool(0.4) {
                    k.with_port = !k.with_port;
                }
                k.responses = [0, 0, 2][rng.random_range(0..3)];
                k.requests = [0, 0, 3][rng.random_range(0..3)];
                let r = sh.worker.request(RequestType::AddCluster(cluster(&k)), T);
                if !ok(&r) && !sh.worker.is_finished() {
                    return Err("AddCluster not acknowledged".into());
                }
                bump(cover, "cfg:cluster");
                ev(w, json!({"ev":"cfg","run":run,"what":"SetCluster","cfg":cfg_t(&k, timeout)}));
                events += 1;
            }
            84..93 => {
                cap = rng.random_range(1..5);
                let r = sh.worker.request(RequestType::UpdateUdpListener(UpdateUdpListenerConfig {
                    address: sh.front.into(), max_flows: Some(cap), ..Default::default() }), T);
                if !ok(&r) && !sh.worker.is_finished() {
                    return Err("UpdateUdpListener not acknowledged".into());
                }
                bump(cover, "cfg:maxflows");
                // update_listener re-sends SetCluster, SetMaxFlows and SetMaxRx
                ev(w, json!({"ev":"cfg","run":run,"what":"SetMaxFlows","v":cap}));
                events += 1;
            }
            _ => {
                // remove and re-add the frontend: routing disappears, existing flows stay
                let f = RequestUdpFrontend { cluster_id: CLUSTER.into(), address: sh.front.into(), tags: Default::default() };
                let r1 = sh.worker.request(RequestType::RemoveUdpFrontend(f.clone()), T);
                if !ok(&r1) && !sh.worker.is_finished() {
                    return Err("RemoveUdpFrontend not acknowledged".into());
                }
                ev(w, json!({"ev":"cfg","run":run,"what":"SetCluster","cfg":[0, 0, 0, 0, 30, 30, 0, 0]}));
                events += 1;
                // one datagram while unrouted: must go nowhere
                let c = rng.random_range(0..nc);
                next_id += 1;
                let bytes = payload(next_id, 16);
                sh.clients[c].send_to(&bytes, sh.front).map_err(|e| e.to_string())?;
                let got = sh.backend_recv(sh.quiet);
                let obs = match &got {
                    None => json!({"got":0}),
                    Some((b, u, data)) => json!({"got":1,"backend": b, "up": u, "id": parse(data).0, "intact": parse(data).1}),
                };
                ev(w, json!({"ev":"c2b","run":run,"client":c as i64 + 1,"ip":sh.client_ids[c].0,"port":sh.client_ids[c].1,
                             "pl":{"id":next_id,"len":16},"obs":obs,"dup":0}));
                events += 1;
                let r2 = sh.worker.request(RequestType::AddUdpFrontend(f), T);
                if !ok(&r2) && !sh.worker.is_finished() {
                    return Err("AddUdpFrontend not acknowledged".into());
                }
                bump(cover, "cfg:unroute");
                ev(w, json!({"ev":"cfg","run":run,"what":"SetCluster","cfg":cfg_t(&k, timeout)}));
                events += 1;
            }
        }
    }
    // stop the worker: HardStop tears every flow down and ends the thread
    release();
    if !sh.worker.is_finished() {
        let _ = sh.worker.send_type(RequestType::HardStop(Default::default()));
    }
    match sh.worker.join_within(Duration::from_secs(10)) {
        Ok(true) => Ok((events, None)),
        Ok(false) => Err("worker did not stop within 10 s after HardStop".into()),
        Err(p) => Ok((events, Some(p))),
    }
}

fn main() {
    vh::util::quiet_panics();
    install_gate();
    let args: Vec<String> = std::env::args().collect();
    let arg = |name: &str, def: &str| -> String {
        args.iter().position(|a| a == name).and_then(|i| args.get(i + 1)).cloned().unwrap_or(def.to_string())
    };
    let seed: u64 = arg("--seed", "1").parse().unwrap();
    let runs: u64 = arg("--runs", "3").parse().unwrap();
    let steps: usize = arg("--steps", "40").parse().unwrap();
    let quiet = Duration::from_millis(arg("--quiet-ms", "700").parse().unwrap());
    let flips = arg("--flips", "0") == "1";
    let out = arg("--out", "/dev/null");
    let mut w = BufWriter::new(std::fs::File::create(&out).expect("create trace file"));
    // --only <run>: re-drive one run alone (same schedule: every run has its own generator)
    let only: u64 = arg("--only", "0").parse().unwrap();
    let mut cover = BTreeMap::new();
    let mut events = 0u64;
    let mut panics: Vec<String> = Vec::new();
    for run in 1..=runs {
        if only != 0 && run != only {
            continue;
        }
        let mut rng = StdRng::seed_from_u64(seed ^ 0x5C19 ^ run.wrapping_mul(0x9E37_79B9_7F4A_7C15));
        match one_run(&mut rng, run, steps, &mut w, &mut cover, quiet, flips) {
            Ok((n, p)) => {
                events += n;
                if let Some(p) = p {
                    vh::util::emit(&json!({"kind":"violation","class":"shell:panic","detail":{"run":run,"panic":p,"trace":out}}));
                    panics.push(p);
                }
            }
            Err(e) => {
                eprintln!("shell_udp: tool problem in run {run}: {e}");
                std::process::exit(3);
            }
        }
    }
    w.flush().expect("flush");
    vh::util::emit(&json!({"kind":"summary","runs":runs,"events":events,"panics":panics,"cover":cover,"trace":out}));
}
