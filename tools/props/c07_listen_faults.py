"""C07, worker side, commands that touch sockets: a REFUSED ActivateListener leaves no trace in the worker
(spec/WorkerCtl.tla with Faults = TRUE; the C08 machinery - real worker threads, listeners, client probes - is re-used,
the violations are C07's).

The environment of WorkerCtl.tla gains Env_HoldAddress(a) / Env_ReleaseAddress(a): a foreign process binds a socket
without SO_REUSEPORT on a listener address (only while no proxy listener is bound to it) and lets go of it later. While
it holds the address, server_bind / udp_bind fail with EADDRINUSE and ActivateListener is answered Failure. The proxies'
listeners carry the `active` flag and the bound socket separately.

Called by tools/props/c07.py: start() right after its workdir exists, finish() before its Report is closed; the three legs
run in background threads next to the ConfigState legs.

1. model: TLC checks, on every interleaving of listener verbs with hold / release steps and with no deviation,
   P_C07_RefusedNoTrace (a request answered Failure leaves the proxies - listeners, flags, sockets, slab, base, clusters,
   backends - unchanged), P_C07_ActiveListens (flag = socket for every listener) and P_C07_ActivatedListens (after an
   ActivateListener answered Ok some listener of the address is bound). Each deviation of the class (ActivateHalfDone: the
   flag is raised before the fallible steps; ActivateFailDrops: a listener that cannot be bound is forgotten) must give a
   counterexample to P_C07_RefusedNoTrace.
2. S->I: generator configurations with Faults = TRUE print one line per (state, request | hold | release) transition;
   harness/replay_workerctl --faults replays the history on a REAL worker - at a hold / release step it waits for the
   answers of everything sent so far and binds / drops a plain std socket on the address - and compares answers, hook
   events, views and the client probes of every listener (udp: is a socket bound?) with the spec's state after the
   transition: after a refused activation they must be those of the state before it, after the address is free again an
   activation answered Ok must listen and serve.
3. I->S: harness/drive_workerctl --scenario fault records seeded random runs (listener verbs over http/https/tcp/udp
   listeners, routes, holds and releases in between, every run ends with everything released and every listener activated
   again, probed, soft-stopped); TLC validates the trace against Trace_WorkerCtl (hold / release / holdfail events =
   Env_HoldAddress / Env_ReleaseAddress / "a proxy listener is bound there"). Canary: the same trace without one hold
   event that explains a refused activation must be rejected.
"""
import concurrent.futures as cf
import json
import os
import threading
import time

import vlib
from props import c08

PID = "C07"
BINS = ["replay_workerctl", "drive_workerctl"]
CLASS_DEVIATIONS = ["ActivateHalfDone", "ActivateFailDrops"]
PREFIX = "listen_faults_"

MC_TAIL = ("VIEW MCView\nINVARIANTS TypeOK P_C07_ActiveListens P_C08_ExactlyOnce P_C08_BaseCount\n"
           "PROPERTIES P_C07_RefusedNoTrace P_C07_ActivatedListens")
SELF_TAIL = "VIEW MCView\nPROPERTIES P_C07_RefusedNoTrace"
ALL_LISTENERS = ["hA", "hB", "tC", "sD", "uE"]


def c08_devs():
    return sorted(e["deviation"] for e in vlib.load_findings("C08") if e.get("status") == "open" and e.get("deviation"))


class Legs:
    def __init__(self, tier, wd, bins):
        self.tier = tier
        self.wd = wd
        self.bins = bins
        self.tlc = []
        self.violations = []     # (class, description, replay object, file name)
        self.extra = {}
        self.samples = []
        self.traces = 0
        self.evaluations = 0
        self.errors = []
        self.threads = []
        self.lock = threading.Lock()
        self.t0 = time.time()

    def violation(self, klass, desc, obj, name):
        with self.lock:
            self.violations.append((klass, desc, obj, name))


def _guard(legs, fn, label):
    def run():
        t = time.time()
        try:
            fn(legs)
        except vlib.ToolError as e:
            legs.errors.append("%s: %s" % (label, e))
        except Exception as e:  # a crash of the orchestration is a tool error, never a silent pass
            legs.errors.append("%s: %s: %s" % (label, type(e).__name__, e))
        legs.extra["listen_faults_%s_wall_s" % label] = round(time.time() - t, 1)
    return run


# ------------------------------------------------------------------------------------------ leg 1: model

def leg_model(legs):
    thorough = legs.tier == "thorough"
    kw = dict(listeners=["hA", "tC", "sD", "uE"] if thorough else ["hA", "tC", "uE"], clusters=[], hfronts=[], tfronts=[],
              backends=[], verbs="VerbsFaults", maxreq=5 if thorough else 4, faults=True)
    r = vlib.tlc("MC_WorkerCtl", c08.write_cfg(legs.wd, "lf_mc.cfg", tail=MC_TAIL, **kw), PID, workers=4,
                 timeout=2400 if thorough else 600)
    legs.tlc.append(r)
    if r["violated"]:
        legs.violation("listen-faults:spec:" + r["violated"],
                       "WorkerCtl.tla itself violates %s under held addresses" % r["violated"], r["out"], PREFIX + "spec.txt")
    legs.extra["listen_faults_model"] = {"distinct": r["distinct"], "generated": r["generated"]}
    # routes and traffic-relevant verbs next to the faults (smaller listener set)
    r2 = vlib.tlc("MC_WorkerCtl", c08.write_cfg(legs.wd, "lf_mc_routes.cfg", tail=MC_TAIL, listeners=["hA", "tC"], clusters=["c1"],
                                                hfronts=["f1"], tfronts=["t1"], backends=["b1"], verbs="VerbsFaultsServe",
                                                maxreq=7 if thorough else 6, preamble="ServeNothingPreamble", faults=True),
                  PID, workers=4, timeout=2400 if thorough else 600)
    legs.tlc.append(r2)
    if r2["violated"]:
        legs.violation("listen-faults:spec:" + r2["violated"],
                       "WorkerCtl.tla itself violates %s under held addresses" % r2["violated"], r2["out"], PREFIX + "spec.txt")
    for dev in CLASS_DEVIATIONS:
        rd = vlib.tlc("MC_WorkerCtl", c08.write_cfg(legs.wd, "lf_dev_%s.cfg" % dev, tail=SELF_TAIL, dev=[dev],
                                                    **dict(kw, listeners=["hA", "uE"], maxreq=3)),
                      PID, workers=2, timeout=600)
        legs.tlc.append(rd)
        if rd["violated"] != "P_C07_RefusedNoTrace":
            raise vlib.ToolError("deviation %s no longer violates P_C07_RefusedNoTrace in the model (got %s)" % (dev, rd["violated"]))
        vlib.log("listen-faults: deviation %s: TLC counterexample to P_C07_RefusedNoTrace as expected" % dev)


# ------------------------------------------------------------------------------------------ leg 2: S->I

def families(thorough):
    fam = []
    # the listener life-cycle of every protocol under held addresses, from an empty worker
    fam.append(("life", dict(listeners=["hA", "tC", "sD", "uE"], clusters=[], hfronts=[], tfronts=[], backends=[],
                             verbs="VerbsFaults", maxreq=4 if thorough else 3), 45000 if thorough else 5000))
    # one listener per run, deeper: refused activation, release, activation again, deactivate / remove / re-add in between
    for l in (ALL_LISTENERS if thorough else ["hA", "sD", "tC", "uE"]):
        fam.append(("deep_" + l, dict(listeners=[l], clusters=[], hfronts=[], tfronts=[], backends=[],
                                      verbs="VerbsFaults", maxreq=6 if thorough else 5), 0))
    # what a client is served once the address is free again: routes added before / after the refused activation
    fam.append(("serve", dict(listeners=["hA", "tC"], clusters=["c1"], hfronts=["f1"], tfronts=["t1"], backends=["b1"],
                              verbs="VerbsFaultsServe", preamble="ServeNothingPreamble", maxreq=7 if thorough else 6),
                0))
    return fam


def replay_family(legs, idx, name, kw, sample, devs, seed):
    """One generator configuration: TLC prints the transitions, the ones with a held address are replayed."""
    beh = os.path.join(legs.wd, "lf_gen_%s.ndjson" % name)
    with open(beh, "w") as f:
        g = vlib.tlc("MC_WorkerCtl", c08.write_cfg(legs.wd, "lf_gen_%s.cfg" % name, spec="GenSpec", det=True, emit=True,
                                                   dev=devs, tail=c08.GEN_TAIL, faults=True, **kw),
                     PID, workers=3, timeout=2400, want_replay=True,
                     replay_sink=lambda o: f.write(json.dumps(o) + "\n"))
    with legs.lock:
        legs.tlc.append(g)
    if g["violated"]:
        raise vlib.ToolError("listen-faults generator %s reported a violation: %s" % (name, g["violated"]))
    if g["n_replays"] == 0:
        raise vlib.ToolError("listen-faults generator %s produced no behaviour" % name)
    # only transitions whose history holds an address are new with respect to C08; keep those
    kept = os.path.join(legs.wd, "lf_sel_%s.ndjson" % name)
    n_kept = refused = 0
    with open(beh) as f, open(kept, "w") as o:
        for line in f:
            if '"EnvHold"' in line:
                o.write(line)
                n_kept += 1
                if '"st": "failure"' in line or '"st":"failure"' in line:
                    refused += 1
    if n_kept == 0:
        raise vlib.ToolError("listen-faults generator %s: no transition with a held address" % name)
    args = ["--threads", "8", "--seed", str(seed), "--index-base", str(150000 + idx * 50000), "--faults"]   # <= 45000 runs per process, <= 7 families
    if sample:
        args += ["--sample", str(sample)]
    out = vlib.run_harness(legs.bins["replay_workerctl"], args, stdin_path=kept, timeout=2400)
    summ = [o for o in out if o.get("kind") == "summary"]
    if not summ:
        raise vlib.ToolError("replay_workerctl --faults produced no summary (%s)" % name)
    summ = summ[0]
    if not summ.get("hooked") or (summ["requests"] and not summ["hook_events"]):
        raise vlib.ToolError("the worker_cmd hook produced no event (harness not built with --cfg sozu_verif?)")
    vlib.log("listen-faults replay %s: %d transitions with a held address (of %d), %d runs, %d requests, %d probes, "
             "%d violations, %.1fs" % (name, n_kept, g["n_replays"], summ["runs"], summ["requests"], summ["probes"],
                                       summ["violations"], summ["wall_s"]))
    if summ.get("skipped", 0) * 20 > max(summ["runs"], 1):
        raise vlib.ToolError("listen-faults replay %s inconclusive: %d of %d runs skipped (their addresses were in use by "
                             "another process)" % (name, summ["skipped"], summ["runs"]))
    seen = set()
    for v in out:
        if v.get("kind") == "violation" and v["class"] not in seen:
            seen.add(v["class"])
            klass = "listen-faults:" + v["class"]
            legs.violation(klass, "[%s, %d occurrence(s)] a real worker under held listener addresses differs from "
                                  "WorkerCtl.tla: %s" % (name, summ["classes"].get(v["class"], 1), json.dumps(v["detail"])[:200]),
                           json.dumps(v["line"]) + "\n",
                           PREFIX + "%s_%s.ndjson" % (name, v["class"].replace(":", "_").replace("/", "_")))
    if summ.get("unstable"):
        vlib.log("listen-faults replay %s: %d run(s) differed once and conformed when re-executed alone with more patience "
                 "(unstable, not a verdict): %s" % (name, summ["unstable"], json.dumps(summ.get("unstable_classes", {}))))
    with legs.lock:
        legs.extra["listen_faults_unstable_replay_runs"] = legs.extra.get("listen_faults_unstable_replay_runs", 0) + summ.get("unstable", 0)
        legs.evaluations += summ["responses"] + summ["probes"] + summ["hook_events"]
        legs.samples += ["[listen-faults %s] %s" % (name, s) for s in summ["samples"][-1:]]
    return n_kept, summ["runs"], refused


def leg_replay(legs):
    thorough = legs.tier == "thorough"
    devs = c08_devs()
    seed = vlib.seed()
    fams = families(thorough)
    with cf.ThreadPoolExecutor(max_workers=3) as ex:
        futs = [ex.submit(replay_family, legs, idx, name, kw, sample, devs, seed) for idx, (name, kw, sample) in enumerate(fams)]
        res = [f.result() for f in futs]
    total_lines = sum(r[0] for r in res)
    total_runs = sum(r[1] for r in res)
    if sum(r[2] for r in res) == 0:
        raise vlib.ToolError("vacuous listen-faults replay: no transition with a refused request")
    legs.traces += total_runs
    legs.extra["listen_faults_replayed_transitions"] = total_lines
    legs.extra["listen_faults_replay_runs"] = total_runs


# ------------------------------------------------------------------------------------------ leg 3: I->S

def trace_cfg(legs, name):
    # the universe of C08's own trace configuration (the driver picks its listeners from it), with the faults on
    return c08.write_cfg(legs.wd, name, dev=c08_devs(), faults=True, tail=c08.TRACE_TAIL, **c08.TRACE_KW)


def judge(legs, r, trace, summ, tag):
    if r["accepted"]:
        return True
    bad = c08.offending_run(trace, summ, r["consumed"])
    klass = "listen-faults:" + c08.classify_rejection(bad)
    legs.violation(klass, "recorded behaviour of a real worker under held listener addresses is not a behaviour of WorkerCtl "
                          "(consumed %s of %s events; first unexplained: %s)" % (r["consumed"], r["total"], json.dumps(bad["event"])[:160]),
                   "".join(json.dumps(e) + "\n" for e in bad["events"]), PREFIX + "trace_%s_%s.ndjson" % (tag, klass.split(":", 1)[1].replace(":", "_")))
    return False


def leg_trace(legs):
    thorough = legs.tier == "thorough"
    n_runs = 1600 if thorough else 300
    chunk = 200
    tcfg = trace_cfg(legs, "lf_trace.cfg")
    accepted = events = refused = unstable = 0
    for c in range(0, n_runs, chunk):
        trace = os.path.join(legs.wd, "lf_trace_%d.ndjson" % c)
        out = vlib.run_harness(legs.bins["drive_workerctl"],
                               ["--seed", str(vlib.seed() * 6007 + c), "--runs", str(min(chunk, n_runs - c)), "--threads", "8",
                                "--out", trace, "--index-base", str(100000 + c), "--scenario", "fault"], timeout=1200)
        summ = [o for o in out if o.get("kind") == "summary"]
        if not summ:
            raise vlib.ToolError("drive_workerctl --scenario fault produced no summary")
        summ = summ[0]
        skipped = summ["exits"].get("skipped", 0)
        if skipped * 20 > summ["runs"]:
            raise vlib.ToolError("listen-faults trace leg inconclusive: %d of %d runs skipped (their addresses were in use by "
                                 "another process)" % (skipped, summ["runs"]))
        r = vlib.tlc_trace("Trace_WorkerCtl", tcfg, PID, trace, timeout=2400)
        legs.tlc.append(r)
        events += summ["events"]
        legs.evaluations += summ["events"]
        with open(trace) as f:
            refused += sum(1 for l in f if '"ev":"cmd"' in l and '"k":"Activate"' in l and '"failure":1' in l)
        # every wait of the driver is a deadline: a rejected run is driven again alone with four times the patience
        # (same seed => same script); only a run rejected again is a verdict, a run accepted then is dropped as unstable
        dropped = 0
        judged = False
        while not r["accepted"] and dropped < 4:
            bad = c08.offending_run(trace, summ, r["consumed"])
            if not bad["run"]:
                break
            again = os.path.join(legs.wd, "lf_trace_%d_again_%d.ndjson" % (c, bad["run"]))
            out2 = vlib.run_harness(legs.bins["drive_workerctl"],
                                    ["--seed", str(vlib.seed() * 6007 + c), "--runs", str(min(chunk, n_runs - c)), "--threads", "1",
                                     "--out", again, "--index-base", str(100000 + c), "--scenario", "fault",
                                     "--only", str(bad["run"]), "--wait-ms", "16000"], timeout=1200)
            summ2 = [o for o in out2 if o.get("kind") == "summary"][0]
            r2 = vlib.tlc_trace("Trace_WorkerCtl", tcfg, PID, again, timeout=1200)
            if not r2["accepted"]:
                judge(legs, r2, again, summ2, "%d_run%d" % (c, bad["run"]))
                judged = True
                break
            vlib.log("listen-faults: run %d of chunk %d was rejected once and accepted when driven again alone: unstable, dropped" % (bad["run"], c))
            dropped += 1
            with open(trace) as f:
                keep = [l for l in f if json.loads(l).get("run") != bad["run"]]
            with open(trace, "w") as f:
                f.writelines(keep)
            r = vlib.tlc_trace("Trace_WorkerCtl", tcfg, PID, trace, timeout=2400)
        unstable += dropped
        if dropped >= 4 and not r["accepted"]:
            raise vlib.ToolError("listen-faults trace leg inconclusive: more than 4 runs of a chunk were rejected once and accepted when driven again")
        if not r["accepted"] and not judged:
            judge(legs, r, trace, summ, str(c))
        if r["accepted"]:
            accepted += summ["runs"] - skipped - dropped
            if c == 0 and not canary_rejected(legs, tcfg, trace):
                raise vlib.ToolError("listen-faults: trace validation accepted a trace whose hold event was removed (binding is vacuous)")
    if refused == 0:
        raise vlib.ToolError("vacuous listen-faults trace leg: no ActivateListener was refused")
    vlib.log("listen-faults trace validation: %d runs accepted of %d, %d events, %d refused activations" % (accepted, n_runs, events, refused))
    legs.traces += accepted
    legs.extra["listen_faults_trace_runs_accepted"] = accepted
    legs.extra["listen_faults_trace_events"] = events
    legs.extra["listen_faults_refused_activations_in_traces"] = refused
    legs.extra["listen_faults_unstable_trace_runs"] = unstable


def canary_rejected(legs, tcfg, trace):
    """Remove one `hold` event that explains a refused ActivateListener; TLC must reject the copy."""
    letter = {"hA": "A", "hB": "B", "tC": "C", "sD": "D", "uE": "E", "uF": "I", "tG": "J"}
    with open(trace) as f:
        lines = f.readlines()
    evs = [json.loads(l) for l in lines]
    pick = None
    for i, e in enumerate(evs):
        if e.get("ev") != "hold":
            continue
        for e2 in evs[i + 1:]:
            if e2.get("run") != e["run"] or (e2.get("ev") == "release" and e2.get("a") == e["a"]):
                break
            if e2.get("ev") == "cmd" and e2.get("k") == "Activate" and letter.get(e2.get("a")) == e["a"] and e2.get("failure") == 1:
                pick = i
                break
        if pick is not None:
            break
    if pick is None:
        return True
    bad = os.path.join(legs.wd, "lf_canary.ndjson")
    with open(bad, "w") as f:
        f.writelines(lines[:pick] + lines[pick + 1:])
    r = vlib.tlc_trace("Trace_WorkerCtl", tcfg, PID, bad, timeout=1200)
    ok = not r["accepted"]
    vlib.log("listen-faults canary: hold event %d removed, TLC consumed %s -> %s" % (pick + 1, r["consumed"], "rejected" if ok else "NOT rejected"))
    return ok


# ------------------------------------------------------------------------------------------ entry points

def start(tier):
    wd = os.path.join(vlib.workdir(PID, clean=False), "listen_faults")
    os.makedirs(wd, exist_ok=True)
    bins = vlib.cargo_build(BINS)
    legs = Legs(tier, wd, bins)
    for label, fn in (("trace", leg_trace), ("replay", leg_replay), ("model", leg_model)):
        t = threading.Thread(target=_guard(legs, fn, label), name="c07lf-" + label, daemon=True)
        t.start()
        legs.threads.append(t)
    return legs


def finish(legs, rep):
    for t in legs.threads:
        t.join()
    for r in legs.tlc:
        rep.add_tlc(r)
    for klass, desc, obj, name in legs.violations:
        rep.violation(klass, desc, obj, name=name)
    rep.extra.update(legs.extra)
    rep.extra["listen_faults_wall_s"] = round(time.time() - legs.t0, 1)
    rep.add_samples(legs.samples, 2)
    rep.cov["traces_validated_against_impl"] += legs.traces
    rep.cov["evaluations"] += legs.evaluations
    if legs.errors and not legs.violations:
        raise vlib.ToolError("listen-faults legs: " + " | ".join(legs.errors))
    rep.assumptions += [
        "listener faults (WorkerCtl.tla, Faults = TRUE): the only OS-level fault injected is EADDRINUSE on bind (a foreign plain std socket on the listener address: TcpListener for http/https/tcp, UdpSocket for udp); a failing epoll registration, fd exhaustion and SCM-passed sockets are not injected; an address the harness itself holds is not probed; a udp listener is probed by trying to bind its address",
    ]
    return ("; listener commands under held addresses (WorkerCtl.tla, Faults): %d (state, request | hold | release) transitions "
            "with a held address replayed on real workers, %d fault runs (%d events, %d refused activations) accepted by TLC"
            % (legs.extra.get("listen_faults_replayed_transitions", 0), legs.extra.get("listen_faults_trace_runs_accepted", 0),
               legs.extra.get("listen_faults_trace_events", 0), legs.extra.get("listen_faults_refused_activations_in_traces", 0)))


def handles(path):
    return os.path.basename(path).startswith(PREFIX)


def run_replay(rep, path):
    """./check C07 --replay replays/C07/listen_faults_*: a generator line is re-executed verbosely on a real worker,
    a trace segment is re-validated by TLC."""
    wd = os.path.join(vlib.workdir(PID, clean=False), "listen_faults")
    os.makedirs(wd, exist_ok=True)
    legs = Legs("quick", wd, vlib.cargo_build(BINS))
    with open(path) as f:
        first = f.readline()
    if '"hist"' in first:
        out = vlib.run_harness(legs.bins["replay_workerctl"], ["--threads", "1", "--verbose", "--faults", "--index-base", "1900000"],
                               stdin_path=path)
        for v in out:
            if v.get("kind") == "violation":
                rep.violation("listen-faults:" + v["class"], json.dumps(v["detail"])[:250], v)
    elif first.lstrip().startswith("{"):
        r = vlib.tlc_trace("Trace_WorkerCtl", trace_cfg(legs, "lf_replay_trace.cfg"), PID, path)
        rep.add_tlc(r)
        if not r["accepted"]:
            rep.violation("listen-faults:trace-rejected", "trace not a behaviour of WorkerCtl: consumed %s of %s" % (r["consumed"], r["total"]),
                          r["out"][-3000:])
    else:
        print(open(path).read()[:4000])
    rep.cov["traces_validated_against_impl"] = 1
    rep.cov["rule"] = "replay of %s" % path
    rep.finish()
