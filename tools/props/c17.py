"""C17 - TLS always serves a loaded certificate that covers the requested name (spec/CertResolver.tla).

1. TLC checks P_C17 (admissible answer, only loaded-or-default, structures agree, removed never served,
   replace opens no window, strict SNI binding) on the complete state graph, no deviation, with coverage
   (every action must have been taken).
2. For every open deviation TLC is re-run with it switched on and must produce a counterexample.
3. Generator run: one REPLAY line per distinct spec state: the state, the probe table (admissible set,
   names snapshot, allowed authorities) and, per operation, the set of successor states the spec allows.
4. harness/replay_certs walks that graph on the real sozu_lib::tls::CertificateResolver:
   walk      - every history of state-changing operations up to a depth, random long histories, seeded
               no-op detours; after every step result, projected structures and every probe are compared;
   handshake - real in-memory rustls handshakes against MutexCertificateResolver (production resolve());
   worker    - a real worker with an HTTPS listener: commands over the channel, real TLS handshakes over
               TCP, HTTP requests whose authority differs from the SNI (strict SNI binding -> 421).
"""
import json
import os

import vlib
from props import c17_listener

PID = "C17"
RESOLVER_DEVIATIONS = ["DefaultCertLegacySni"]     # switches of CertResolver.tla; the others belong to CertListener.tla

CFG = """SPECIFICATION Spec
CONSTANTS
  NV = %(nv)d
  Deviations = %(dev)s
  Emit = %(emit)s
%(checks)s
CHECK_DEADLOCK FALSE
"""
CHECKS = ("INVARIANTS TypeOK P_C17_Admissible P_C17_Loaded P_C17_StructuresAgree P_C17_ReplaceNoWindow P_C17_StrictSni\n"
          "PROPERTY P_C17_RemovedNeverServed")
ACTIONS = ["AddCert", "RemoveCert", "ReplaceCert", "ReplaceFail"]


def tla_set(xs):
    return "{" + ", ".join('"%s"' % x for x in xs) + "}"


def write_cfg(wd, name, nv, dev, emit):
    path = os.path.join(wd, name)
    with open(path, "w") as f:
        f.write(CFG % {"nv": nv, "dev": tla_set(dev), "emit": "TRUE" if emit else "FALSE",
                       "checks": "INVARIANTS EmitState" if emit else CHECKS})
    return path


def harness(rep, bins, beh, args, timeout=2400):
    out = vlib.run_harness(bins["replay_certs"], ["--input", beh, "--verif-root", vlib.ROOT, "--repo", vlib.REPO] + args,
                           timeout=timeout)
    summ = [o for o in out if o.get("kind") == "summary"]
    if not summ:
        raise vlib.ToolError("replay_certs produced no summary")
    for v in out:
        if v.get("kind") == "violation":
            rep.violation(v["class"], json.dumps(v["detail"])[:250], v)
    return summ[0]


def run(tier, replay=None):
    rep = vlib.Report(PID, tier)
    wd = vlib.workdir(PID)
    bins = vlib.cargo_build(["replay_certs"])
    devs = [d for d in vlib.open_deviations(PID) if d in RESOLVER_DEVIATIONS]
    thorough = tier == "thorough"
    workers = 16 if thorough else 6
    threads = "16" if thorough else "8"
    nv = 8

    # 1. design level, no deviation, with coverage (vacuity guard)
    r = vlib.tlc("CertResolver", write_cfg(wd, "mc.cfg", nv, [], False), PID, workers=workers, timeout=900, coverage=True)
    rep.add_tlc(r)
    if r["violated"]:
        rep.violation("spec:" + r["violated"], "the specification itself violates %s" % r["violated"], r["out"])
    else:
        vlib.require_actions_covered(r, ACTIONS)
    # 2. each open deviation must still break the property in the model
    for d in devs:
        rd = vlib.tlc("CertResolver", write_cfg(wd, "mc_dev.cfg", nv, [d], False), PID, workers=workers, timeout=900)
        rep.add_tlc(rd)
        if not rd["violated"]:
            raise vlib.ToolError("deviation %s no longer violates P_C17 in the model" % d)
        vlib.log("deviation %s: TLC counterexample to %s as expected" % (d, rd["violated"]))

    # 3. generator (the spec's state graph with predictions), open deviations on
    beh = os.path.join(wd, "graph.ndjson")
    if replay and replay.endswith(".ndjson"):
        beh = replay
    else:
        with open(beh, "w") as f:
            g = vlib.tlc("CertResolver", write_cfg(wd, "gen.cfg", nv, devs, True), PID, workers=workers, timeout=900,
                         want_replay=True, replay_sink=lambda o: f.write(json.dumps(o) + "\n"))
        rep.add_tlc(g)
        if g["violated"]:
            raise vlib.ToolError("generator run reported a violation: %s" % g["violated"])
        n_states = g["n_replays"] - 1

    # --replay of a file of the listener legs
    if c17_listener.handles(replay):
        c17_listener.replay(rep, wd, bins, beh, replay)
        rep.finish()
    # --replay <violation file>: re-run that single history verbosely
    if replay and replay.endswith(".json"):
        with open(replay) as f:
            v = json.load(f)
        ops = ",".join(str(k) for k in v.get("history_ops", []))
        variant = {"ec-names0-natural": 0, "ec-names1-override": 1, "rsa-names0-override": 2}.get(v.get("concretisation"), 0)
        s = harness(rep, bins, beh, ["--mode", "one", "--ops", ops, "--variant", str(variant), "--seed", str(vlib.seed())])
        rep.cov["traces_validated_against_impl"] = s["histories"]
        rep.finish()

    # 4L. the listener legs (CertListener.tla: certificate commands interleaved with listener operations on real
    #     workers, real handshakes after every step) run in the background next to the resolver legs
    listener_legs = c17_listener.start(tier, wd, bins, beh)
    # 4a. walk: exhaustive histories + random long histories, three concretisations
    seed = vlib.seed()
    total_hist = 0
    distinct = 0          # distinct (leg, concretisation, operation sequence) triples
    by_len = {}
    reached = 0
    for variant in (0, 1, 2):
        depth = 4 if (thorough and variant < 2) else 3
        deep = "0" if thorough else ("16" if variant == 0 else "0")
        walks = (60000 if thorough else 6000) if variant < 2 else (20000 if thorough else 2000)
        s = harness(rep, bins, beh, ["--mode", "walk", "--variant", str(variant), "--seed", str(seed * 3 + variant),
                                     "--threads", threads, "--depth", str(depth), "--deep-frac", deep,
                                     "--walks", str(walks), "--len", "14" if thorough else "10", "--detours", "1"])
        vlib.log("walk %s: %d histories, %d steps, %d no-op steps, %d probes, classes %s" % (
            s["concretisation"], sum(s["histories_by_length"].values()), s["steps"], s["noop_steps"], s["probes"], s["classes"]))
        total_hist += sum(s["histories_by_length"].values())
        distinct += s["distinct_histories"]
        for k, n in s["histories_by_length"].items():
            by_len[k] = by_len.get(k, 0) + n
        reached = max(reached, s["spec_states_reached_on_impl"])
        rep.cov["evaluations"] += s["probes"]
        rep.extra["probes_with_several_admissible"] = rep.extra.get("probes_with_several_admissible", 0) + s["probes_with_several_admissible"]
        rep.extra["steps_with_several_spec_successors"] = rep.extra.get("steps_with_several_spec_successors", 0) + s["steps_with_several_spec_successors"]
        if variant == 0:
            rep.add_samples(s["samples"], 2)
    # 4b. real rustls handshakes against the production ResolvesServerCert
    hs_total = 0
    for variant in ((0, 1, 2) if thorough else (0, 2)):
        s = harness(rep, bins, beh, ["--mode", "handshake", "--variant", str(variant), "--seed", str(seed * 5 + variant),
                                     "--walks", "400" if thorough else "40", "--len", "8"])
        vlib.log("handshake %s: %d histories, %d handshakes, classes %s" % (
            s["concretisation"], sum(s["histories_by_length"].values()), s["handshakes"], s["classes"]))
        total_hist += sum(s["histories_by_length"].values())
        distinct += s["distinct_histories"]
        hs_total += s["handshakes"]
    # 4c. real worker: HTTPS listener, certificate commands over the channel, TLS over TCP, strict SNI binding
    wk = {}
    for variant in ((0, 1, 2) if thorough else (0, 1)):
        s = harness(rep, bins, beh, ["--mode", "worker", "--variant", str(variant), "--seed", str(seed * 7 + variant),
                                     "--walks", "40" if thorough else "6", "--len", "6"])
        ws = s["worker"]
        vlib.log("worker %s: %d histories, %s, classes %s" % (s["concretisation"], sum(s["histories_by_length"].values()),
                                                            json.dumps(ws), s["classes"]))
        total_hist += sum(s["histories_by_length"].values())
        distinct += s["distinct_histories"]
        for k, v in ws.items():
            if isinstance(v, int):
                wk[k] = wk.get(k, 0) + v
        if ws["routed_under_default_certificate_as_listed_deviation"]:
            if "DefaultCertLegacySni" not in devs:
                raise vlib.ToolError("deviation counted although it is not listed")
            rep.known_finding_seen("default-cert-legacy-sni")
            rep.known["default-cert-legacy-sni"]["n"] += ws["routed_under_default_certificate_as_listed_deviation"] - 1
    # 4d. I->S: seeded random operations (chosen without the spec), recorded, validated by TLC against
    #     Trace_CertResolver.tla; plus a canary (one corrupted observation must be rejected at that event)
    import re
    import shutil
    n_events = 0
    for variant in ((0, 1, 2) if thorough else (seed % 3,)):
        tr = os.path.join(wd, "trace_%d.ndjson" % variant)
        s = harness(rep, bins, beh, ["--mode", "trace", "--variant", str(variant), "--seed", str(seed * 11 + variant),
                                     "--walks", "1200" if thorough else "250", "--len", "40" if thorough else "30",
                                     "--trace-out", tr])
        tv = vlib.tlc_trace("Trace_CertResolver", "Trace_CertResolver.cfg", PID, tr, timeout=1500)
        if tv["accepted"]:
            n_events += tv["consumed"]
            total_hist += sum(s["histories_by_length"].values())
            distinct += s["distinct_histories"]
            vlib.log("trace %s: %d events accepted" % (s["concretisation"], tv["consumed"]))
        else:
            m = re.search(r'"FIRST-UNEXPLAINED", (.*)', tv["out"])
            keep = os.path.join(vlib.ROOT, "replays", PID, "trace_rejected_%d.ndjson" % variant)
            os.makedirs(os.path.dirname(keep), exist_ok=True)
            shutil.copy(tr, keep)
            rep.violation("trace:" + (tv["violated"] or "unexplained-event"),
                          "recorded trace is not a behaviour of the spec: consumed %s of %s; %s" % (
                              tv["consumed"], tv["total"], (m.group(1)[:400] if m else tv["violated"])),
                          {"trace": keep, "consumed": tv["consumed"], "total": tv["total"], "violated": tv["violated"],
                           "first_unexplained": m.group(1) if m else None}, name="trace_rejected_%d.json" % variant)
            continue
        # canary
        lines = open(tr).read().splitlines()
        target = None
        for i, l in enumerate(lines):
            if i < len(lines) // 8:
                continue
            e = json.loads(l)
            if e.get("ev") == "remove" and any(e["served"]):
                j = [k for k, x in enumerate(e["served"]) if x][0]
                e["served"][j] = 0
                lines[i] = json.dumps(e)
                target = i
                break
        if target is not None:
            bad = os.path.join(wd, "trace_canary.ndjson")
            with open(bad, "w") as f:
                f.write("\n".join(lines) + "\n")
            cv = vlib.tlc_trace("Trace_CertResolver", "Trace_CertResolver.cfg", PID, bad, timeout=1500)
            if cv["accepted"] or cv["consumed"] != target:
                raise vlib.ToolError("trace canary: corrupted event %d not rejected there (consumed %s)" % (target + 1, cv["consumed"]))
            vlib.log("trace canary: corrupted observation rejected at event %d" % (target + 1))
    rep.extra["trace_events_validated"] = n_events
    lt, ld = c17_listener.finish(listener_legs, rep)
    total_hist += lt
    distinct += ld
    # vacuity guards of the wire leg: requests were routed and requests were refused with 421
    if not rep.violations and (wk.get("routed_to_backend", 0) == 0 or wk.get("answered_421", 0) == 0 or wk.get("tcp_tls_handshakes", 0) == 0):
        raise vlib.ToolError("worker leg is vacuous: %s" % json.dumps(wk))
    rep.extra["worker_leg"] = wk
    rep.extra["tls_handshakes"] = hs_total
    rep.extra["histories_by_length"] = by_len
    rep.extra["spec_states_reached_on_impl"] = reached

    rep.cov["traces_validated_against_impl"] = total_hist
    rep.cov["distinct_nontrivial"] = distinct
    rep.cov["exhaustive"] = True
    rep.cov["rule"] = ("distinct_nontrivial = distinct (leg, concretisation, operation sequence) triples executed on the real code and "
                       "compared with the spec after every step, counted by the harness (hash set of operation sequences per run; "
                       "every history contains at least one operation); histories are: every history of state-changing operations (add, remove, replace, "
                       "replace with an unparsable old fingerprint) of length <= %s over 8 certificate variants on 4 real key "
                       "pairs (x3 concretisations), each followed step-wise by seeded operations the spec says change nothing "
                       "(re-add, remove absent, idempotent / failing replace); plus seeded random histories of length %s; plus "
                       "one shortest history per spec state and random ones ending in real TLS handshakes for all 8 probe names; plus "
                       "random histories sent to a real worker over the command channel with TCP/TLS handshakes after every step "
                       "and an SNI x authority request matrix (HTTP/1.1 keep-alive and HTTP/2 streams) at the end; plus (I->S) seeded "
                       "random runs recorded as ndjson and accepted by TLC against Trace_CertResolver.tla. "
                       "The spec's state graph (%d states) is complete, so TLC's verdict covers histories of any length."
                       % ("4 (3 for the RSA pairs)" if thorough else "3 (1/16 of length 4)", "14" if thorough else "10", n_states if not replay else 0))
    rep.assumptions += [
        "certificate names range over {a.x, b.x, *.x, a.b.x, *.b.x} (two concretisations of the labels), 8 certificate variants over 4 fingerprints, 3 expiries; probe names add c.x, c.b.x, x, c.a.x, b.a.b.x",
        "among certificates with the same expiry any placement is admissible (the spec is a relation there); the code's choice (newest wins) is not demanded",
        "server names reach the resolver lower-cased and without trailing dot, as rustls delivers them; upper/mixed-case SNI is exercised in the handshake legs",
        "certificate names are spelled in lower, upper or mixed case, with or without the trailing dot of the absolute form (seeded concretisation of the same model name); name lists are sets (no duplicate entries in `names`)",
        "replace_certificate is observed atomically (as the worker does, under the resolver lock): the add-before-remove order is checked in the model and through the failing-add case",
    ]
    rep.finish()
