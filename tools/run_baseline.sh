#!/bin/bash
# Runs sozu's own suite (guard off) on a scratch worktree of /repo's HEAD (+ uncommitted changes) and compares with
# /root/.vp/BASELINE.json's stable_pass list. The 3 fuzz_tests need network for `cargo fuzz` in this sandbox and are
# reported separately (environmental).
# usage: tools/run_baseline.sh [repo_dir]   (default: scratch worktree of /repo HEAD)
set -u
DIR="${1:-}"
CLEAN=0
if [ -z "$DIR" ]; then
  DIR=/tmp/vbase-repo
  git -C /repo worktree remove --force "$DIR" 2>/dev/null; rm -rf "$DIR"; git -C /repo worktree prune
  git -C /repo worktree add -q --detach "$DIR" HEAD || exit 2
  CLEAN=1
fi
cd "$DIR"
export CARGO_TARGET_DIR=/tmp/vbase-target
cargo nextest run --workspace --no-fail-fast --tool-config-file pb:/w/lib/nextest.toml --profile pb --test-threads 8 --offline > /tmp/vbase.log 2>&1
python3 - <<'PY'
import json,re,glob,os
import xml.etree.ElementTree as ET
base=json.load(open('/root/.vp/BASELINE.json'))
stable=set(base['stable_pass'])
j=os.path.join(os.environ.get('CARGO_TARGET_DIR','target'),'nextest','pb','junit.xml')
t=ET.parse(j)
res={}
for ts in t.getroot().iter('testsuite'):
    suite=ts.get('name')
    for tc in ts.iter('testcase'):
        name=suite+'::'+tc.get('name')
        ok = tc.find('failure') is None and tc.find('error') is None
        res[name]=ok
missing=[s for s in stable if s not in res]
failed=[s for s in stable if s in res and not res[s]]
env=[s for s in failed+missing if 'fuzz_tests' in s]
real=[s for s in failed+missing if 'fuzz_tests' not in s]
print("baseline: %d stable, %d ran, stable failing/missing: %d (environmental fuzz: %d)"%(len(stable),len(res),len(real),len(env)))
for s in real: print("  REGRESSION", s)
PY
tail -3 /tmp/vbase.log
if [ $CLEAN = 1 ]; then git -C /repo worktree remove --force "$DIR"; git -C /repo worktree prune; fi
