SPECIFICATION TableSpec
CONSTANTS
  D = 8
  InitCap = 16
  MaxCap = 32
  WriteSizes = {8, 10, 11, 12, 13, 14, 15, 16, 17, 18, 19, 20, 21, 22, 23, 24, 25, 26, 27, 28, 29, 30, 31, 32, 33, 40}
  InjGood = {8, 10, 11, 12, 13, 14, 15, 16, 17, 18, 19, 20, 21, 22, 23, 24, 25, 26, 27, 28, 29, 30, 31, 32}
  InjUndec = {9, 10, 11, 12, 13, 14, 15, 16, 17, 18, 19, 20, 21, 22, 23, 24, 25, 26, 27, 28, 29, 30, 31, 32}
  InjShort = {0, 1, 2, 3, 4, 5, 6, 7}
  InjOver = {33, 40}
  MaxWrites = 0
  MaxInjects = 0
  MaxInFlight = 0
  MaxChunks = 1
  Scope = "e2e"
  LazyInject = FALSE
  Canonical = FALSE
  Bounded = FALSE
  Record = FALSE
  History = FALSE
  Depth = 0
  Edges = FALSE
  Deviations = {"OversizeWedge"}
INVARIANTS EmitTables
CHECK_DEADLOCK FALSE
