SPECIFICATION Spec
CONSTANTS
  NV = 8
  Deviations = {}
  Emit = FALSE
INVARIANTS TypeOK P_C17_Admissible P_C17_Loaded P_C17_StructuresAgree P_C17_ReplaceNoWindow P_C17_StrictSni
PROPERTY P_C17_RemovedNeverServed
CHECK_DEADLOCK FALSE
