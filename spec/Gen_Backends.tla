---------------------------- MODULE Gen_Backends ----------------------------
(* S->I generator for Backends.tla: TLC as generator and oracle. *)
EXTENDS MC_Backends, Json, SequencesExt

---------------------------------------------------------------------------
(* Generator: random mutation histories; after every step the spec's prediction of the whole      *)
(* state and, for every query, the set of admissible answers.                                     *)

VARIABLES hist, done

ObjSeq == LET ids == SetToSortSeq(Live, <)
          IN [i \in 1..Len(ids) |->
                LET b == objs[ids[i]]
                IN [oid |-> ids[i], id |-> b.id, addr |-> b.addr, backup |-> b.backup, sticky |-> b.sticky,
                    w |-> b.weight, st |-> b.status, h |-> b.healthy, cs |-> b.cs, cf |-> b.cf,
                    tries |-> b.tries, wait |-> b.waiting, conns |-> b.conns, reqs |-> b.reqs,
                    out |-> b.out, rout |-> b.rout, avail |-> AvailableB(b)]]

QuerySeq == SetToSeq(Queries)
Probes == [i \in 1..Len(QuerySeq) |->
             [key |-> QuerySeq[i][1], sticky |-> QuerySeq[i][2],
              adm |-> Admissible(QuerySeq[i][1], QuerySeq[i][2])]]

Snapshot == [step |-> last, list |-> list, objs |-> ObjSeq, policy |-> policy, metric |-> metric,
             probes |-> Probes, eligible |-> Eligible, coarse |-> Coarse(Eligible), fine |-> Fine]

GenInit == Init /\ hist = <<>> /\ done = FALSE
\* (simulation evaluates invariants on every candidate successor: the history is printed from the single
\*  successor of a complete history, so once per behaviour)
GenNext == \/ Mutate /\ hist' = Append(hist, Snapshot') /\ done' = FALSE
           \/ steps = MaxSteps /\ ~done /\ done' = TRUE /\ UNCHANGED <<vars, hist>>
GenSpec == GenInit /\ [][GenNext]_<<vars, hist, done>>

EmitHist == done => PrintT(<<"REPLAY", ToJson(hist)>>)
=============================================================================
