"""C17 at the listener (spec/CertListener.tla): the certificate history interleaved with the LISTENER operations that
touch the TLS context or the listener object - UpdateHttpsListener with / without alpn_protocols, DeactivateListener,
ActivateListener, RemoveListener + AddHttpsListener on the same address (other TLS versions / cipher list), a second
HTTPS listener with its own certificates (certificates are per address).  They must leave the served-certificate
function of every address unchanged.

CertResolver.tla proves that one resolver object serves what its abstract store admits; CertListener.tla composes on
top: per address the reference `loaded`, the content `own` of the listener's resolver (what the certificate commands
mutate) and `ctx`, the resolver the TLS context consults in a handshake (the listener's own one, or a detached one).

Called by tools/props/c17.py: start() once the resolver graph exists (background thread), finish() before the report
is closed.

1. model: TLC checks P_C17_ListenerServes (every handshake on an active listener is served what the certificates loaded
   for ITS address admit), P_C17_OnlyCertOpsChangeServed (action property: listener operations and commands of other
   addresses leave the served function unchanged) and P_C17_CommandsReachContext on the complete graph, no deviation.
   Self-tests: every deviation switch of the class (PatchDetachesResolver = seed C17-12, PatchSnapshotsResolver,
   PatchSwapsResolver, ReactivateDetaches, CertOpWrongListener) and every open one (ReaddForgets) must give a
   counterexample to P_C17_ListenerServes.
2. S->I: Gen_CertListener (TLC simulation, class-weighted) prints histories with, after every step, the prediction for
   every address (status; per probe name the admissible certificates); `replay_certs --mode listener` executes them on
   REAL workers (commands over the channel) and after every step performs a real rustls handshake over TCP for every
   probe name on every active listener: the fingerprint of the presented leaf must be in the spec's set.
3. I->S: `replay_certs --mode listener-drive` sends seeded random commands chosen without the spec, records answers and
   observations; TLC validates the trace against Trace_CertListener.tla; canary: one corrupted observation must be
   rejected at that event.
A verdict of a wire leg is re-executed alone with 4x patience and reported only if it shows again (loaded machine).
"""
import json
import os
import threading
import time
import concurrent.futures as cf

import vlib

PID = "C17"
MODULE_DEVIATIONS = ["ReaddForgets", "PatchDetachesResolver", "PatchSnapshotsResolver", "PatchSwapsResolver",
                     "ReactivateDetaches", "CertOpWrongListener"]
CLASS_DEVIATIONS = MODULE_DEVIATIONS[1:]
ACTIONS = ["CertCommand", "ListenerAdd", "ListenerRemove", "ListenerUp", "ListenerDown", "ListenerPatch"]
FINDING_OF = {"ReaddForgets": "readded-listener-forgets-certificates"}
PREFIX = "listener_"

CFG = """SPECIFICATION %(spec)s
CONSTANTS
  NVL = %(nvl)d
  Deviations = %(dev)s
  Flavours = %(flav)s
  NAddr = 2
%(tail)s
CHECK_DEADLOCK FALSE
"""
ALL_FLAVOURS = ["default", "tls12", "tls13", "ciphers"]


def tla_set(xs):
    return "{" + ", ".join('"%s"' % x for x in xs) + "}"


def write_cfg(wd, name, spec, nvl, dev, flav, tail):
    path = os.path.join(wd, name)
    with open(path, "w") as f:
        f.write(CFG % {"spec": spec, "nvl": nvl, "dev": tla_set(dev), "flav": tla_set(flav), "tail": tail})
    return path


def open_listener_deviations():
    return [d for d in vlib.open_deviations(PID) if d in MODULE_DEVIATIONS]


class Legs:
    def __init__(self, tier, wd, bins, graph):
        self.tier = tier
        self.wd = wd
        self.bins = bins
        self.graph = graph
        self.tlc = []
        self.violations = []     # (class, description, replay object, file name)
        self.extra = {}
        self.samples = []
        self.traces = 0
        self.distinct = 0
        self.evaluations = 0
        self.known = {}          # finding id -> occurrences
        self.error = None
        self.thread = None
        self.lock = threading.Lock()
        self.t0 = time.time()


def _harness(legs, args, timeout=1200):
    out = vlib.run_harness(legs.bins["replay_certs"], ["--input", legs.graph, "--verif-root", vlib.ROOT, "--repo", vlib.REPO] + args,
                           timeout=timeout)
    summ = [o for o in out if o.get("kind") == "summary"]
    if not summ:
        raise vlib.ToolError("replay_certs (listener leg) produced no summary")
    return summ[0], [o for o in out if o.get("kind") == "violation"]


def _confirm(legs, v, args):
    """Re-execute the history of a verdict alone, twice, with 4x patience: a defect of the code shows every time,
    a stalled worker thread on a loaded machine does not.  `args` are those of the run that produced the verdict
    (the spelling of the commands depends only on the seed and the index of the history)."""
    args = [a for a in args]
    i = args.index("--threads")
    args[i + 1] = "1"
    for _ in range(2):
        s, vs = _harness(legs, args + ["--patience", "4", "--only", str(v["hist_index"])])
        if not any(x["class"] == v["class"] for x in vs):
            return False
    return True


def _run(legs):
    thorough = legs.tier == "thorough"
    wd = legs.wd
    odevs = open_listener_deviations()
    seed = vlib.seed()
    # 1. model, no deviation, complete graph, coverage (vacuity guard)
    mc_tail = ("VIEW MCView\nINVARIANTS TypeOK P_C17_ListenerServes P_C17_CommandsReachContext\n"
               "PROPERTY P_C17_OnlyCertOpsChangeServed")
    r = vlib.tlc("CertListener", write_cfg(wd, "lst_mc.cfg", "Spec", 4 if thorough else 3, [], ["default", "tls12"], mc_tail),
                 PID, workers=4 if thorough else 3, timeout=1500, coverage=thorough)
    legs.tlc.append(r)
    if r["violated"]:
        legs.violations.append(("spec:" + r["violated"], "CertListener.tla itself violates %s" % r["violated"], r["out"][-3000:], PREFIX + "spec.json"))
        return
    if thorough:
        vlib.require_actions_covered(r, ACTIONS)   # (quick tier: -coverage triples the run; the self-tests below need every action)
    # self-tests: every deviation of the class and every open one must be refuted
    st_tail = "VIEW MCView\nINVARIANTS P_C17_ListenerServes"

    def selftest(d):
        rd = vlib.tlc("CertListener", write_cfg(wd, "lst_dev_%s.cfg" % d, "Spec", 3, [d], ["default", "tls12"], st_tail),
                      PID, workers=1, timeout=900)
        if rd["violated"] != "P_C17_ListenerServes":
            raise vlib.ToolError("deviation %s does not violate P_C17_ListenerServes in the model (%s)" % (d, rd["violated"]))
        return rd
    with cf.ThreadPoolExecutor(max_workers=3) as ex:
        for rd in ex.map(selftest, CLASS_DEVIATIONS + [d for d in odevs if d not in CLASS_DEVIATIONS]):
            legs.tlc.append(rd)
    vlib.log("listener: %d deviation switches refuted by TLC (P_C17_ListenerServes)" % (len(CLASS_DEVIATIONS) + len(odevs)))

    # 2. S->I: histories with predictions (open deviations on), replayed on real workers
    n_hist = 1600 if thorough else 96
    steps = 20 if thorough else 16
    gw = 1      # RandomElement: the workers of one simulation would repeat each other
    hist = os.path.join(wd, "listener_hist.ndjson")
    with open(hist, "w") as f:
        g = vlib.tlc("Gen_CertListener", write_cfg(wd, "lst_gen.cfg", "GenSpec", 8, odevs, ALL_FLAVOURS,
                                                   "  MaxSteps = %d\nINVARIANTS EmitHist" % steps),
                     PID, workers=gw, timeout=900, simulate="num=%d" % (n_hist // gw), depth=steps + 4,
                     want_replay=True, replay_sink=lambda o: f.write(json.dumps(o) + "\n"))
    if g["violated"]:
        raise vlib.ToolError("listener generator reported a violation: %s" % g["violated"])
    if g["n_replays"] < n_hist // 2:
        raise vlib.ToolError("listener generator produced only %d histories" % g["n_replays"])
    wire = {}
    for variant in ((0, 1, 2) if thorough else (seed % 2, 2)):
        args = ["--mode", "listener", "--hist", hist, "--variant", str(variant), "--seed", str(seed * 13 + variant),
                "--threads", "12" if thorough else "8"]
        s, vs = _harness(legs, args)
        ws = s["worker"]
        vlib.log("listener %s: %d histories, %d commands (%d listener operations), %d handshakes, %d void, classes %s" % (
            s["concretisation"], ws["histories"], ws["commands"], ws["listener_operations"], ws["tcp_tls_handshakes"], ws["void_runs"], s["classes"]))
        hist_lines = None
        # one verdict per class is confirmed and reported (at most 4 per run): the others repeat it
        firsts = {}
        for v in vs:
            firsts.setdefault(v["class"], v)
        if len(vs) > len(firsts):
            legs.extra["listener_verdicts_same_class_not_listed"] = legs.extra.get("listener_verdicts_same_class_not_listed", 0) + len(vs) - len(firsts)
        for v in list(firsts.values())[:4]:
            if _confirm(legs, v, args):
                if hist_lines is None:
                    with open(hist) as f:
                        hist_lines = f.read().splitlines()
                v["tlc_history"] = json.loads(hist_lines[v["hist_index"]])
                legs.violations.append((v["class"], json.dumps(v["detail"])[:300], v, PREFIX + "violation_%d_%d.json" % (variant, v["hist_index"])))
            else:
                legs.extra["listener_verdicts_not_reproduced"] = legs.extra.get("listener_verdicts_not_reproduced", 0) + 1
                vlib.log("listener: verdict %s of history %d did not show again with 4x patience: not reported" % (v["class"], v["hist_index"]))
        if ws["void_runs"]:
            vlib.log("listener: runs without verdict: %s" % ws["void_examples"][:3])
        for k, x in ws.items():
            if isinstance(x, int):
                wire[k] = wire.get(k, 0) + x
        legs.traces += sum(s["histories_by_length"].values())
        legs.distinct += s["distinct_histories"]
        legs.evaluations += ws["tcp_tls_handshakes"]
        if ws["void_runs"] * 4 > ws["histories"]:
            raise vlib.ToolError("listener leg: %d of %d runs without verdict (%s)" % (ws["void_runs"], ws["histories"], ws["void_examples"][:2]))
    if not legs.violations:
        vac = [k for k in ("served_loaded_certificate", "refused_as_predicted", "alpn_http11_as_predicted", "alpn_h2_as_predicted",
                           "tls12_as_predicted", "tls13_as_predicted", "steps_with_two_active_listeners", "alpn_patches_after_certificates",
                           "listener_readds_after_certificates", "activations_after_certificates") if wire.get(k, 0) == 0]
        if vac:
            raise vlib.ToolError("listener leg is vacuous: %s never observed" % vac)
    if wire.get("steps_showing_open_deviation", 0):
        for d in odevs:
            legs.known[FINDING_OF[d]] = legs.known.get(FINDING_OF[d], 0) + wire["steps_showing_open_deviation"]
    legs.extra["listener_leg"] = wire
    with open(hist) as f:
        first = json.loads(f.readline())
    legs.samples.append({"listener_history": ["%s a=%s v=%s f=%s %s" % (s["op"]["kind"], s["op"]["a"], s["op"]["v"], s["op"]["f"], s["op"]["k"]) for s in first],
                         "predicted_after_last_step": first[-1]["exp"]})

    # 3. I->S: commands chosen without the spec, trace validated by TLC; canary
    tr = os.path.join(wd, "listener_trace.ndjson")
    variant = (seed + 1) % 3
    args = ["--mode", "listener-drive", "--variant", str(variant), "--seed", str(seed * 17 + 3),
            "--walks", "600" if thorough else "60", "--len", "20" if thorough else "16",
            "--threads", "12" if thorough else "8", "--trace-out", tr]
    s, vs = _harness(legs, args)
    firsts = {}
    for v in vs:   # only command answers / failed handshakes are judged by the harness in this mode
        firsts.setdefault(v["class"], v)
    for v in list(firsts.values())[:4]:
        cargs = [a for a in args]
        cargs[cargs.index("--trace-out") + 1] = os.path.join(wd, "listener_trace_confirm.ndjson")
        if not _confirm(legs, v, cargs):
            legs.extra["listener_verdicts_not_reproduced"] = legs.extra.get("listener_verdicts_not_reproduced", 0) + 1
            continue
        legs.violations.append((v["class"], json.dumps(v["detail"])[:300], v, PREFIX + "drive_%d.json" % v["hist_index"]))
    tcfg = write_cfg(wd, "lst_trace.cfg", "TraceSpec", 8, odevs, ALL_FLAVOURS,
                     "INVARIANTS TypeOK\nCONSTRAINT Track\nPOSTCONDITION TraceAccepted")
    tv = vlib.tlc_trace("Trace_CertListener", tcfg, PID, tr, timeout=1500)
    legs.tlc.append(tv)
    import re
    import shutil
    if tv["accepted"]:
        legs.extra["listener_trace_events_validated"] = tv["consumed"]
        legs.traces += sum(s["histories_by_length"].values())
        legs.distinct += s["distinct_histories"]
        legs.evaluations += s["worker"]["tcp_tls_handshakes"]
        vlib.log("listener trace %s: %d events accepted" % (s["concretisation"], tv["consumed"]))
        lines = open(tr).read().splitlines()
        target = None
        for i, l in enumerate(lines):
            if i < len(lines) // 8:
                continue
            e = json.loads(l)
            hit = [(a, k) for a, o in enumerate(e.get("obs", [])) for k, x in enumerate(o["served"]) if x]
            if e.get("ev") in ("patch", "activate") and hit:
                a, k = hit[0]
                e["obs"][a]["served"][k] = 0
                lines[i] = json.dumps(e)
                target = i
                break
        if target is not None:
            bad = os.path.join(wd, "listener_trace_canary.ndjson")
            with open(bad, "w") as f:
                f.write("\n".join(lines) + "\n")
            cv = vlib.tlc_trace("Trace_CertListener", tcfg, PID, bad, timeout=1500)
            if cv["accepted"] or cv["consumed"] != target:
                raise vlib.ToolError("listener trace canary: corrupted event %d not rejected there (consumed %s)" % (target + 1, cv["consumed"]))
            vlib.log("listener trace canary: a loaded certificate turned into the default one after a listener operation is rejected at event %d" % (target + 1))
        else:
            raise vlib.ToolError("listener trace: no patch / activate event with a loaded certificate served (vacuous)")
    else:
        m = re.search(r'"FIRST-UNEXPLAINED", (.*)', tv["out"], re.S)
        keep = os.path.join(vlib.ROOT, "replays", PID, PREFIX + "trace_rejected.ndjson")
        os.makedirs(os.path.dirname(keep), exist_ok=True)
        shutil.copy(tr, keep)
        first = " ".join(m.group(1).split())[:500] if m else None
        legs.violations.append(("listener-trace:" + (tv["violated"] or "unexplained-event"),
                                "recorded listener trace is not a behaviour of CertListener.tla: consumed %s of %s; %s" % (tv["consumed"], tv["total"], first),
                                {"trace": keep, "consumed": tv["consumed"], "total": tv["total"], "violated": tv["violated"], "first_unexplained": first},
                                PREFIX + "trace_rejected.json"))


def start(tier, wd, bins, graph):
    legs = Legs(tier, wd, bins, graph)

    def guarded():
        try:
            _run(legs)
        except BaseException as e:   # reported by finish() in the main thread
            legs.error = e
    legs.thread = threading.Thread(target=guarded, name="c17-listener", daemon=True)
    legs.thread.start()
    return legs


def finish(legs, rep):
    legs.thread.join()
    if legs.error is not None:
        if isinstance(legs.error, vlib.ToolError):
            raise legs.error
        raise vlib.ToolError("listener legs: %r" % (legs.error,))
    for r in legs.tlc:
        rep.add_tlc(r)
    for klass, desc, obj, name in legs.violations:
        rep.violation(klass, desc, obj, name=name)
    for fid, n in legs.known.items():
        rep.known_finding_seen(fid)
        if fid in rep.known:
            rep.known[fid]["n"] += n - 1
    rep.extra.update(legs.extra)
    for s in legs.samples:
        rep.add_samples([s], 1)
    rep.cov["evaluations"] += legs.evaluations
    vlib.log("listener legs: %.1fs" % (time.time() - legs.t0))
    return legs.traces, legs.distinct


def handles(replay):
    return bool(replay) and os.path.basename(replay).startswith(PREFIX)


def replay(rep, wd, bins, graph, path):
    """--replay of a listener violation file: re-execute that history (with TLC's stored predictions) or
    re-validate the kept trace"""
    with open(path) as f:
        v = json.load(f)
    legs = Legs("quick", wd, bins, graph)
    if "trace" in v:
        tcfg = write_cfg(wd, "lst_trace.cfg", "TraceSpec", 8, open_listener_deviations(), ALL_FLAVOURS,
                         "INVARIANTS TypeOK\nCONSTRAINT Track\nPOSTCONDITION TraceAccepted")
        tv = vlib.tlc_trace("Trace_CertListener", tcfg, PID, v["trace"], timeout=1500)
        rep.add_tlc(tv)
        if not tv["accepted"]:
            rep.violation("listener-trace:" + (tv["violated"] or "unexplained-event"), "consumed %s of %s" % (tv["consumed"], tv["total"]), v, name=os.path.basename(path))
        rep.cov["traces_validated_against_impl"] = 1
        return
    if "tlc_history" not in v:
        raise vlib.ToolError("%s: no history with predictions stored" % path)
    one = os.path.join(wd, "listener_replay.ndjson")
    with open(one, "w") as f:
        f.write(json.dumps(v["tlc_history"]) + "\n")
    # same spelling of the commands: seed * 131 + index, the index is 0 here
    s, vs = _harness(legs, ["--mode", "listener", "--hist", one, "--variant", str(v.get("variant", 0)),
                            "--seed-exact", str(v.get("seed", 1) * 131 + v.get("hist_index", 0)), "--threads", "1"])
    vlib.log("replayed %d steps: %s" % (len(v["listener_steps"]), json.dumps(s["worker"])[:600]))
    for x in vs:
        rep.violation(x["class"], json.dumps(x["detail"])[:300], x, name=os.path.basename(path))
    rep.cov["traces_validated_against_impl"] = 1
