"""C10 - worker hand-over and soft stop lose no listener and cut no request.

(Response delivery, added after the seeded defect C01-11: Handover.tla's slots also go through respStreaming /
respTail (H1 and H2); drive_handover parks clients in the middle of a large response - tail held by the worker
behind a full socket or exhausted H2 windows with the backend gone, or a slow backend still sending - and
Trace_Handover.tla rejects a response that is cut, or short but clean, inside the graceful deadline. The
deviation QuiescedBeforeFlushed is the self-test of that part of P_C10b.)

(Intermediate stages, added after the seeded defect C10-22: an exchange has more stages than "request, then
response" - body withheld until 100 Continue, 103 Early Hints before the final response, upgrade handshake,
final response overtaking the upload, a second request pipelined behind the one in flight. Handover.tla has them
as slot stages (alphabet "flow", action Backend_Interim); drive_handover parks a client in each of them with a
backend that sends its next message only when told to, several shutdown passes after the stop; the deviation
ClosedAfterInterim is the self-test.)

Spec: spec/Handover.tla (protocol), spec/ScmManifest.tla (size arithmetic of the fd hand-off message),
spec/HandoverCodec.tla (generator/oracle of listener sets), spec/Trace_Handover.tla (trace validation).

1. MAX_FDS_OUT / MAX_BYTES_OUT are read from the linked crate (replay_scm --consts) and handed to TLC.
2. TLC model-checks P_C10 (+ the manifest arithmetic P_C10_ManifestFits) on Handover.tla, hand-over and plain soft
   stop, and the two liveness properties (every listener ends in the successor; the stop terminates).
3. Codec leg, S->I: TLC (HandoverCodec.tla) prints one listener set per size 0..MAX_FDS_OUT x address pattern
   (x protocol split) with the predicted manifest size and verdict; harness/replay_scm sends real bound sockets
   through a real ScmSocket pair and compares.
4. Protocol leg, I->S: harness/drive_handover runs scenarios on two real worker threads with clients parked at each
   request stage, hammers on every listener and crash points; Trace_Handover.tla + TLC decide each recorded run.
5. Canaries: two corrupted copies of an accepted run must be rejected (else tool error).
"""
import concurrent.futures
import json
import os

import vlib

PID = "C10"

MC_CFG = """SPECIFICATION %(spec)s
CONSTANTS
  MaxFds = %(maxfds)d
  BufBytes = %(bufbytes)d
  Addrs = {%(addrs)s}
  Reqs = {r1, r2}
  Successor = %(succ)s
  Alphabet = "%(alphabet)s"
  Deviations = {%(dev)s}
%(checks)s
CHECK_DEADLOCK FALSE
"""
CODEC_CFG = """SPECIFICATION Spec
CONSTANTS
  MaxFds = %(maxfds)d
  BufBytes = %(bufbytes)d
  Full = %(full)s
  Salt = %(salt)d
INVARIANTS EmitCase
CHECK_DEADLOCK FALSE
"""
TRACE_CFG = """SPECIFICATION TraceSpec
CONSTANTS
  MaxFds = %(maxfds)d
  BufBytes = %(bufbytes)d
  Addrs = {1, 2, 3}
  Reqs = {1, 2}
  Successor = %(succ)s
  Alphabet = "trace"
  Deviations = {}
INVARIANTS TypeOK P_C10
CONSTRAINT Track
POSTCONDITION TraceAccepted
CHECK_DEADLOCK FALSE
"""
SAFETY = "INVARIANTS TypeOK P_C10_Manifest P_C10"
LIVE = "PROPERTIES P_C10a_EndsInSuccessor P_C10d_StopTerminates"


def _write(wd, name, text):
    path = os.path.join(wd, name)
    with open(path, "w") as f:
        f.write(text)
    return path


def _scenario_class(run):
    c = run.get("cfg", {})

    def slot(s):
        d = [s.get("stage"), s.get("partial"), s.get("release")]
        if s.get("flow"):          # stages of an exchange beyond "request, then response"
            d.append(s["flow"])
        if s.get("resp"):          # response stages: how the response is framed, whether the backend closes, which stream
            d += [s["resp"].get("framing"), s["resp"].get("close"), bool(s.get("big_first")), bool(s.get("tcp_stall"))]
        return d
    return json.dumps([c.get("mode"), c.get("order"), c.get("crash"), c.get("deadline_s"),
                       [a.get("proto") for a in c.get("addrs", [])], [slot(s) for s in c.get("slots", [])]])


def _clean(o):
    """what TLC reads: no JSON null (the Json module cannot convert it), no measurements of the set-up"""
    if isinstance(o, dict):
        return {k: _clean(v) for k, v in o.items() if v is not None and k not in ("setup", "diagnosis")}
    if isinstance(o, list):
        return [_clean(v) for v in o]
    return o


def _next_event(run, stuck):
    """what the trace spec could not explain: the next ctl event and the next event of each hammer"""
    out = {"run": run.get("run"), "cfg": run.get("cfg")}
    ctl = run.get("ctl", [])
    k = stuck.get("ctl", 0)
    out["ctl_consumed"] = k
    out["next_ctl"] = ctl[k] if k < len(ctl) else None
    out["ctl_tail"] = ctl[max(0, k - 4):k + 2]
    # hammer events that are not plain successes (the usual suspects when every ctl event was explained)
    odd = []
    for hi, h in enumerate(run.get("ham", [])):
        for i, e in enumerate(h):
            if (e.get("e") == "End" and e.get("out") != "done") or (e.get("e") == "Conn" and not e.get("ok")):
                odd.append({"hammer": hi, "conn": h[i - 1] if e.get("e") == "End" and i else None, "event": e})
    out["hammer_suspects"] = odd[:12]
    return out


def _validate(rep, wd, name, runs, succ, consts, max_rounds):
    """TLC trace validation of `runs` (list of run objects). Returns (accepted_runs, states, generated).
    Every run TLC cannot explain is reported as a violation; it is then dropped and the rest re-validated."""
    accepted = 0
    todo = list(runs)
    rounds = 0
    while todo:
        rounds += 1
        path = os.path.join(wd, "%s_%d.ndjson" % (name, rounds))
        with open(path, "w") as f:
            for r in todo:
                f.write(json.dumps(_clean(r)) + "\n")
        cfg = _write(wd, "trace_%s.cfg" % name, TRACE_CFG % dict(consts, succ=succ))
        r = vlib.tlc_trace("Trace_Handover", cfg, PID, path, timeout=1500)
        rep.add_tlc(r)
        if r["accepted"]:
            accepted += len(todo)
            break
        # which run ?
        import re
        m = re.search(r'pos \|-> (\d+)', r["out"])
        mc = re.search(r'ctl \|-> (\d+)', r["out"])
        inv = r["violated"] if r["violated"] and "TraceAccepted" not in str(r["violated"]) else None
        if not m:
            # an invariant of the spec failed in a reached state, or TLC failed: no position known
            rep.violation("trace:%s:invariant:%s" % (name, inv or "unknown"),
                          "TLC reports %s while validating the recorded runs" % (inv or r["error"]), r["out"][-4000:])
            break
        pos = int(m.group(1))
        if pos < 1 or pos > len(todo):
            raise vlib.ToolError("trace validation: bad stuck position %s" % pos)
        bad = todo[pos - 1]
        accepted += pos - 1
        info = _next_event(bad, {"ctl": int(mc.group(1)) if mc else 0})
        nxt = info["next_ctl"] or {}
        klass = "trace:%s:%s" % (name, inv or nxt.get("e", "hammer"))
        if nxt.get("e") == "SlotEnd":      # the verdict first, the measurements after
            nxt = dict([(k, nxt[k]) for k in ("e", "r", "out", "got", "total", "end", "by", "be", "ms_since_stop_sent") if k in nxt])
        desc = "run %s (%s) is not a behaviour of Handover.tla: stuck before ctl event #%d %s" % (
            bad.get("run"), _scenario_class(bad), info["ctl_consumed"] + 1,
            json.dumps(nxt if nxt else {"hammer_suspects": [x["event"] for x in info["hammer_suspects"][:2]]})[:260])
        bad = dict(bad, diagnosis=info)
        rep.violation(klass, desc, bad, name="%s_run%s.json" % (name, bad.get("run")))
        todo = [r for r in todo[pos:] if r.get("run") != bad.get("run")]   # the other hammer parts of that run
        if rounds >= max_rounds:
            vlib.log("trace validation: stopping after %d unexplained runs (%d runs not examined)" % (rounds, len(todo)))
            break
    return accepted


def run(tier, replay=None):
    rep = vlib.Report(PID, tier)
    wd = vlib.workdir(PID)
    thorough = tier == "thorough"
    bins = vlib.cargo_build(["replay_scm", "drive_handover"])
    c = [o for o in vlib.run_harness(bins["replay_scm"], ["--consts"]) if o.get("kind") == "consts"]
    if not c:
        raise vlib.ToolError("replay_scm --consts printed nothing")
    consts = {"maxfds": int(c[0]["max_fds"]), "bufbytes": int(c[0]["max_bytes"])}
    rep.extra["MAX_FDS_OUT"] = consts["maxfds"]
    rep.extra["MAX_BYTES_OUT"] = consts["bufbytes"]

    if replay:
        # re-validate one saved run
        with open(replay) as f:
            txt = f.read()
        runs = [json.loads(txt)] if txt.lstrip().startswith("{") and "\n{" not in txt.strip() else \
               [json.loads(l) for l in txt.splitlines() if l.startswith("{")]
        for r in runs:
            succ = "TRUE" if r.get("cfg", {}).get("mode") == "handover" else "FALSE"
            _validate(rep, wd, "replay", [r], succ, consts, 1)
        rep.cov["rule"] = "replay of %s" % replay
        rep.finish()

    # ---- 2. design level (in the background, next to the conformance legs)
    a3 = "a1, a2, a3"
    req = dict(consts, alphabet="request", dev="")
    rsp = dict(consts, alphabet="response", dev="")
    a_resp = a3 if thorough else "a1, a2"      # the response stages do not interact with the listeners
    mc_jobs = [
        ("mc_handover", MC_CFG % dict(req, spec="Spec", addrs=a3, succ="TRUE", checks=SAFETY)),
        ("mc_softstop", MC_CFG % dict(req, spec="Spec", addrs=a3, succ="FALSE", checks=SAFETY)),
        ("live_handover", MC_CFG % dict(req, spec="FairSpec", addrs=(a3 if thorough else "a1, a2"), succ="TRUE", checks=LIVE)),
        ("live_softstop", MC_CFG % dict(req, spec="FairSpec", addrs="a1, a2", succ="FALSE", checks="PROPERTIES P_C10d_StopTerminates")),
        # the same protocol with the slots in the stages of the RESPONSE (awaiting it, streaming, tail buffered)
        ("mc_resp_handover", MC_CFG % dict(rsp, spec="Spec", addrs=a_resp, succ="TRUE", checks=SAFETY)),
        ("mc_resp_softstop", MC_CFG % dict(rsp, spec="Spec", addrs=a_resp, succ="FALSE", checks=SAFETY)),
        ("live_resp_softstop", MC_CFG % dict(rsp, spec="FairSpec", addrs="a1, a2", succ="FALSE", checks="PROPERTIES P_C10d_StopTerminates")),
    ]
    # ... and in the stages of an exchange with more steps than "request, then response" (body withheld until 100
    # Continue, 103 Early Hints, upgrade handshake, early final response, a pipelined second request)
    flw = dict(consts, alphabet="flow", dev="")
    mc_jobs += [
        ("mc_flow_handover", MC_CFG % dict(flw, spec="Spec", addrs=a_resp, succ="TRUE", checks=SAFETY)),
        ("mc_flow_softstop", MC_CFG % dict(flw, spec="Spec", addrs=a_resp, succ="FALSE", checks=SAFETY)),
        ("live_flow_softstop", MC_CFG % dict(flw, spec="FairSpec", addrs="a1, a2", succ="FALSE", checks="PROPERTIES P_C10d_StopTerminates")),
    ]
    if thorough:
        mc_jobs.append(("live_flow_handover", MC_CFG % dict(flw, spec="FairSpec", addrs="a1, a2", succ="TRUE", checks=LIVE)))
        mc_jobs.append(("live_resp_handover", MC_CFG % dict(rsp, spec="FairSpec", addrs="a1, a2", succ="TRUE", checks=LIVE)))
    pool = concurrent.futures.ThreadPoolExecutor(max_workers=4)
    futs = {}
    for name, text in mc_jobs:
        cfg = _write(wd, name + ".cfg", text)
        futs[name] = pool.submit(vlib.tlc, "Handover", cfg, PID, 3 if not thorough else 6, 2400, None, None,
                                 name in ("mc_handover", "mc_resp_handover", "mc_flow_handover") and thorough)

    # self-test of P_C10b: the defect class "a session is taken for finished before its response is flushed"
    # (deviation QuiescedBeforeFlushed) must be refuted by TLC, else the response stages bind nothing
    dcfg = _write(wd, "dev_quiesced.cfg", MC_CFG % dict(consts, alphabet="response", dev='"QuiescedBeforeFlushed"', spec="Spec",
                                                        addrs="a1", succ="FALSE", checks="INVARIANTS TypeOK P_C10"))
    fut_dev = pool.submit(vlib.tlc, "Handover", dcfg, PID, 2, 600)
    # self-test of the flow stages: the defect class "in a stopping worker the next complete message on a session
    # with a request in flight - an interim response - ends the session" (deviation ClosedAfterInterim)
    icfg = _write(wd, "dev_interim.cfg", MC_CFG % dict(consts, alphabet="flow", dev='"ClosedAfterInterim"', spec="Spec",
                                                       addrs="a1", succ="FALSE", checks="INVARIANTS TypeOK P_C10"))
    fut_dev2 = pool.submit(vlib.tlc, "Handover", icfg, PID, 2, 600)

    # ---- 3. codec leg
    gen_cfg = _write(wd, "codec_gen.cfg", CODEC_CFG % dict(consts, full="TRUE" if thorough else "FALSE", salt=vlib.seed() % 1000))
    cases = os.path.join(wd, "codec_cases.ndjson")
    seen_cases = set()

    def sink(o, f):
        k = json.dumps(o, sort_keys=True)
        if k not in seen_cases:          # TLC may evaluate the invariant of an initial state more than once
            seen_cases.add(k)
            f.write(k + "\n")

    with open(cases, "w") as f:
        g = vlib.tlc("HandoverCodec", gen_cfg, PID, workers=1, timeout=600, want_replay=True,
                     replay_sink=lambda o: sink(o, f))
    rep.add_tlc(g)
    g["n_replays"] = len(seen_cases)
    if g["violated"] or g["n_replays"] == 0:
        raise vlib.ToolError("codec generator produced %d cases (%s)" % (g["n_replays"], g["violated"]))
    if g["n_replays"] != g["distinct"]:
        raise vlib.ToolError("codec generator: %d cases for %d states" % (g["n_replays"], g["distinct"]))
    out = vlib.run_harness(bins["replay_scm"], ["--seed", str(vlib.seed())], stdin_path=cases, timeout=900)
    summ = [o for o in out if o.get("kind") == "summary"]
    if not summ:
        raise vlib.ToolError("replay_scm produced no summary")
    summ = summ[0]
    if summ["cases"] != g["n_replays"]:
        raise vlib.ToolError("replay_scm replayed %d of %d cases" % (summ["cases"], g["n_replays"]))
    for v in out:
        if v.get("kind") == "violation":
            rep.violation(v["class"], json.dumps(v["detail"])[:260], v)
    if summ["violations"] > len([v for v in out if v.get("kind") == "violation"]):
        vlib.log("replay_scm: %d violations in total (first ones reported)" % summ["violations"])
    rep.cov["evaluations"] += summ["sockets"]
    rep.add_samples(summ.get("samples", []), 2)
    rep.extra["codec"] = {k: summ[k] for k in ("cases", "sockets", "delivered", "distinct_sizes", "classes", "synthetic_items",
                                                 "v6_freebind", "max_manifest_bytes", "max_delivered_n")}

    # ---- 4. protocol leg
    args = ["--seed", str(vlib.seed()), "--tier", tier, "--par", "8" if thorough else "6"]
    dout = vlib.run_harness(bins["drive_handover"], args, timeout=3000)
    runs = sorted([o for o in dout if o.get("kind") == "run"], key=lambda r: r.get("run", 0))
    if not runs:
        raise vlib.ToolError("drive_handover recorded no run")
    invalid = [r for r in runs if r.get("invalid")]
    good = [r for r in runs if not r.get("invalid")]
    for r in invalid:
        vlib.log("scenario %s could not be set up: %s" % (r.get("run"), r.get("invalid")))
    if len(invalid) * 5 > len(runs):
        raise vlib.ToolError("%d of %d scenarios could not be set up (first: %s)" % (len(invalid), len(runs), invalid[0].get("invalid")))
    hand = [r for r in good if r["cfg"]["mode"] == "handover"]
    soft = [r for r in good if r["cfg"]["mode"] == "softstop"]
    max_rounds = 12 if thorough else 6

    def per_hammer(rs):
        """The hammers never interact (they only read the workers' state), and the cost of validating k of them
        together is the product of their positions. Quick tier: one copy of the run per hammer stream, i.e. each
        hammer must be explainable on its own (sound; it only gives up requiring ONE common schedule of the
        workers' silent steps for all hammers). Thorough tier: the streams are validated together."""
        if thorough:
            return rs
        out = []
        for r in rs:
            hs = r.get("ham", []) or [[]]
            for i, h in enumerate(hs):
                out.append(dict(r, ham=[h], part=i))
        return out

    n_parts = max(1, max(len(r.get("ham", [])) for r in good)) if not thorough else 1
    acc = _validate(rep, wd, "handover", per_hammer(hand), "TRUE", consts, max_rounds)
    acc += _validate(rep, wd, "softstop", per_hammer(soft), "FALSE", consts, max_rounds)
    acc = acc // n_parts
    ham_events = sum(len(h) for r in good for h in r.get("ham", []))
    raw = sum(r.get("raw_exchanges", 0) for r in good)
    rep.cov["evaluations"] += raw + sum(len(r.get("ctl", [])) for r in good)
    rep.extra["protocol"] = {"scenarios": len(runs), "not_set_up": len(invalid), "accepted": acc,
                             "ctl_events": sum(len(r.get("ctl", [])) for r in good), "hammer_events": ham_events,
                             "hammer_exchanges": raw,
                             "crash_scenarios": len([r for r in good if r["cfg"]["crash"] != "none"]),
                             "deadline_scenarios": len([r for r in good if r["cfg"]["deadline_s"]])}
    # response delivery: how many parked responses really had their tail held by the worker when the stop came
    tails = [e for r in good for e in r.get("ctl", []) if e.get("e") == "SlotEnd" and "total" in e and e.get("setup")]
    for e in tails:      # measured when the slot was parked (and confirmed by what arrived after the release, when all arrived)
        e["_held"] = e["held"] if isinstance(e.get("held"), int) else e["setup"].get("held_est")
    held = [e for e in tails if isinstance(e.get("_held"), int) and e["_held"] > 600]
    resp_runs = [r for r in good if any(s.get("resp") for s in r["cfg"].get("slots", []))]
    rep.extra["protocol"].update({"response_scenarios": len(resp_runs), "tail_slots": len(tails), "tail_slots_held_by_worker": len(held),
                                  "held_bytes_min_max": [min([e["_held"] for e in held] or [0]), max([e["_held"] for e in held] or [0])]})
    if len(tails) >= 4 and len(held) * 2 < len(tails) and not rep.violations:
        raise vlib.ToolError("only %d of %d parked responses had their tail in the worker when the stop came: the response leg is vacuous on this run"
                             % (len(held), len(tails)))
    # exchanges with intermediate stages: in how many of them did the backend's next message (interim response,
    # 101, early / first pipelined answer) leave after the stop was being processed and several passes had run
    flow_runs = [r for r in good if any(s.get("flow") for s in r["cfg"].get("slots", []))]
    gates = late_gates = interims_after_stop = 0
    for r in flow_runs:
        processing = False
        late = set()
        for e in r["ctl"]:
            if e.get("e") == "StopResp" and e.get("status") == "Processing":
                processing = True
            elif e.get("e") == "GateOpen":
                gates += 1
                if processing and (e.get("ms_since_stop_sent") or 0) >= 300:
                    late_gates += 1
                    late.add(e.get("r"))
            elif e.get("e") == "Interim" and e.get("r") in late:
                interims_after_stop += 1
    rep.extra["protocol"].update({"flow_scenarios": len(flow_runs), "flow_slots": gates, "flow_slots_released_after_stop": late_gates,
                                  "interim_responses_after_stop": interims_after_stop})
    if len(flow_runs) >= 4 and (late_gates * 2 < gates or interims_after_stop < 2) and not rep.violations:
        raise vlib.ToolError("only %d of %d parked exchanges were let go after the stop (%d interim responses seen after it): the flow leg is vacuous on this run"
                             % (late_gates, gates, interims_after_stop))
    for r in (good[:1] + resp_runs[:1] + flow_runs[:1]):
        rep.add_samples([{"scenario": json.loads(_scenario_class(r)), "ctl": [e.get("e") for e in r["ctl"]]}], 2)

    # ---- 5. canaries: the binding must reject corrupted runs
    if not rep.violations:
        base = next((r for r in hand if r["cfg"]["crash"] == "none" and any(e["e"] == "Probe" for e in r["ctl"])), None)
        if base is not None:
            can = []
            c1 = json.loads(json.dumps(base))
            for e in c1["ctl"]:
                if e["e"] == "Probe":
                    e["by"] = "old"           # an address still served by the old worker after the hand-over
                    break
            can.append(("probe-by-old", c1))
            c2 = json.loads(json.dumps(base))
            c2["ctl"] = [e for e in c2["ctl"] if not (e["e"] == "StopResp" and e.get("status") == "Ok")]
            can.append(("no-terminal-answer", c2))
            c3 = json.loads(json.dumps(base))
            for e in c3["ctl"]:
                if e["e"] == "Received" and e.get("pairs"):
                    e["pairs"][0]["bound"] = 0   # a descriptor that is not bound to its address
                    break
            can.append(("wrong-socket", c3))
            # a parked response that ends short but clean / is cut although nobody died and no deadline passed
            rbase = next((r for r in hand + soft if r["cfg"]["crash"] == "none" and
                          any(e.get("e") == "SlotEnd" and "total" in e and e.get("out") == "done" for e in r["ctl"])), None)
            if rbase is not None:
                for cname, out in (("short-response", "short"), ("cut-response", "cut")):
                    c4 = json.loads(json.dumps(rbase))
                    for e in c4["ctl"]:
                        if e.get("e") == "SlotEnd" and "total" in e and e.get("out") == "done":
                            e["out"], e["by"] = out, "none"
                            break
                    can.append((cname, c4))
            # an exchange that is cut right after its interim response although nobody died
            fbase = next((r for r in hand + soft if r["cfg"]["crash"] == "none" and any(e.get("e") == "Interim" for e in r["ctl"])), None)
            if fbase is not None:
                c5 = json.loads(json.dumps(fbase))
                rr = next(e["r"] for e in c5["ctl"] if e.get("e") == "Interim")
                k = next(i for i, e in enumerate(c5["ctl"]) if e.get("e") == "Interim")
                keep = []
                for i, e in enumerate(c5["ctl"]):
                    if i > k and e.get("r") == rr and e.get("e") in ("Interim", "SlotRelease"):
                        continue
                    if i > k and e.get("r") == rr and e.get("e") == "SlotEnd":
                        e = dict(e, out="cut", by="none")
                    keep.append(e)
                c5["ctl"] = keep
                can.append(("cut-after-interim", c5))
            def one_canary(item):
                cname, cr = item
                path = os.path.join(wd, "canary_%s.ndjson" % cname)
                with open(path, "w") as f:
                    f.write(json.dumps(_clean(cr)) + "\n")
                cfg = _write(wd, "trace_canary_%s.cfg" % cname, TRACE_CFG % dict(consts, succ="TRUE" if cr["cfg"]["mode"] == "handover" else "FALSE"))
                return cname, vlib.tlc_trace("Trace_Handover", cfg, PID, path, timeout=600)
            with concurrent.futures.ThreadPoolExecutor(max_workers=6) as cpool:
                for cname, r in cpool.map(one_canary, can):
                    if r["accepted"]:
                        raise vlib.ToolError("canary %s was accepted: the trace specification binds nothing" % cname)
            rep.extra["canaries_rejected"] = len(can)

    # ---- collect the design-level runs
    need = ["Master_AskReturn", "Master_ReceiveListeners", "Master_StartSuccessor", "Master_SendSoftStop", "New_Start",
            "New_Activate", "Old_ReturnListenSockets", "Old_Accept", "Old_SoftStop", "Old_ShutDownSessions", "Old_Exit",
            "Old_Die", "Backend_Respond", "Tick_Deadline"]
    rd = fut_dev.result()
    if not rd["violated"]:
        raise vlib.ToolError("deviation QuiescedBeforeFlushed is not refuted by P_C10: the response stages bind nothing")
    vlib.log("deviation QuiescedBeforeFlushed: TLC counterexample to %s as expected" % rd["violated"])
    rd2 = fut_dev2.result()
    if not rd2["violated"]:
        raise vlib.ToolError("deviation ClosedAfterInterim is not refuted by P_C10: the flow stages bind nothing")
    vlib.log("deviation ClosedAfterInterim: TLC counterexample to %s as expected" % rd2["violated"])
    rep.extra["deviation_selftest"] = {"QuiescedBeforeFlushed": rd["violated"], "ClosedAfterInterim": rd2["violated"]}
    for name, fut in futs.items():
        r = fut.result()
        rep.add_tlc(r)
        if r["violated"]:
            rep.violation("spec:%s:%s" % (name, r["violated"]),
                          "Handover.tla (%s, MAX_FDS_OUT=%d, MAX_BYTES_OUT=%d) violates %s" % (
                              name, consts["maxfds"], consts["bufbytes"], r["violated"]), r["out"][-6000:],
                          name="spec_%s.txt" % name)
            if rep.violations and rep.violations[-1][0].startswith("spec:"):
                rep.violations.insert(0, rep.violations.pop())     # design-level verdicts first
        if name == "mc_handover" and thorough and not r["violated"]:
            vlib.require_actions_covered(r, need)
        if name == "mc_resp_handover" and thorough and not r["violated"]:
            vlib.require_actions_covered(r, ["Backend_SendPart", "Backend_Finish", "Client_ReadSome", "Old_ShutDownSessions", "Old_Die", "Tick_Deadline"])
        if name == "mc_flow_handover" and thorough and not r["violated"]:
            vlib.require_actions_covered(r, ["Backend_Interim", "Backend_Respond", "Client_FinishBody", "Client_SendHead", "Old_ShutDownSessions", "Old_Die", "Tick_Deadline"])
    pool.shutdown()

    rep.cov["traces_validated_against_impl"] = acc + summ["delivered"]
    classes = {_scenario_class(r) for r in good}
    rep.cov["distinct_nontrivial"] = len(classes) + summ["cases"]
    rep.cov["exhaustive"] = bool(thorough)
    rep.cov["rule"] = ("codec: one listener set per size 0..%d x 7 address-class patterns%s, each built from real bound sockets, "
                       "sent through a real ScmSocket pair and compared pair by pair (address, same socket inode, getsockname, "
                       "bucket, order) with the size TLC predicts; protocol: distinct scenarios (mode, order of master steps, crash "
                       "point, listener set, stage x partial x release moment of two parked connections; for a connection parked in the "
                       "middle of its response: framing cl/chunked/close-delimited, backend closing or kept alive, H2 stream order, "
                       "tail held behind exhausted windows or behind a full socket; for an exchange parked in an intermediate stage: "
                       "which one - body withheld until 100 Continue, one or two 103 Early Hints (H1, H2), upgrade handshake, early final "
                       "response, pipelined second request), each run recorded on "
                       "real worker threads and decided by TLC against Trace_Handover.tla. distinct_nontrivial = distinct codec "
                       "cases + distinct scenario descriptors" % (consts["maxfds"], " x 6 protocol splits" if thorough else " (split picked by seed)"))
    rep.assumptions += [
        "the master side is the in-process replica of the hand-over (as e2e's Worker::upgrade): bin/src/command/upgrade.rs itself (fork/exec of a real worker) is not executed",
        "a worker 'dies' by losing its command channel; its thread then leaves client sockets open, which a dead process would not: hung connections on a killed worker are treated as cut",
        "which worker served a request is known from distinct mock backends configured for the old and the new worker",
        "clients and backends are prompt (backend delay 350 ms); client time-outs are 10 s, the acknowledgement is awaited 20 s",
        "response delivery: the worker's socket towards a client that does not read is given a small fixed send buffer by the harness (setsockopt from the same process; it stands for a host with a small tcp_wmem): left to itself Linux grows that buffer to megabytes and no tail ever waits in the worker's own buffer. Descriptors of the worker's sockets are only read (queue lengths) to steer and to measure a scenario, never for a verdict",
        "response delivery: the parked client never writes while it reads the end of a response (one WINDOW_UPDATE releases a tail held behind exhausted H2 windows, before anything is read): a write that reaches the worker after its close makes the kernel reset the connection and drop unsent data - the TCP reset problem of any close without lingering, not exercised here",
        "intermediate stages: the mock backend holds its next message (100 Continue, 103, 101, early answer, answer to the first of two pipelined requests) until the orchestrating thread lets it go, 300-700 ms after the Processing notice of the stop; the final response follows an interim one 250 ms later; a tunnel (after 101) is not protected: a stop closes it like a TCP relay; a pipelined request that no backend ever saw may be served or dropped",
        "addresses of the longest textual class (zoned link-local IPv6, 58 characters) cannot be bound: for them the descriptor is a real socket but only its identity (inode), not getsockname, is compared",
    ]
    rep.finish()
