---------------------------- MODULE MC_WorkerCtl ----------------------------
(* Constant definitions for the TLC configurations of WorkerCtl (C08).      *)
EXTENDS WorkerCtl

NoPreamble == <<>>
ServingPreamble == <<[k |-> "AddListener", a |-> "hA"], [k |-> "Activate", a |-> "hA"],
                     [k |-> "AddListener", a |-> "tC"], [k |-> "Activate", a |-> "tC"]>>

\* request-kind families (the generator explores one family at a time to keep the number of
\* transitions replayable; the exhaustive configuration takes their union)
VerbsListeners == ListenKinds \cup {"Status", "ReturnSockets", "SoftStop", "HardStop"}
VerbsRouting   == {"QueryCluster", "AddCluster", "RemoveCluster", "AddBackend", "RemoveBackend",
                   "AddHFront", "RemoveHFront", "AddTFront", "RemoveTFront",
                   "RemoveListener", "AddListener", "Activate", "Deactivate"}
VerbsWorker    == WorkerKinds \cup ClusterKinds \cup {"SoftStop", "HardStop", "ReturnSockets"}
VerbsAll       == WorkerKinds \cup ClusterKinds \cup BackendKinds \cup HFrontKinds \cup TFrontKinds
                  \cup ListenKinds \cup StopKinds
VerbsCore      == {"Status", "MetricDetailBad", "AddCluster", "AddClusterBadHc", "RemoveCluster",
                   "AddBackend", "RemoveBackend", "AddHFront", "RemoveHFront", "AddTFront", "RemoveTFront",
                   "AddListener", "RemoveListener", "Activate", "Deactivate", "UpdateListener",
                   "ReturnSockets", "SoftStop", "HardStop"}
VerbsRelisten  == {"AddHFront", "AddBackend", "RemoveBackend", "RemoveListener", "AddListener", "Activate", "Deactivate"}
HaPreamble == <<[k |-> "AddListener", a |-> "hA"], [k |-> "Activate", a |-> "hA"]>>
AfterStopKinds == {"SoftStop", "Status"}
\* C07, commands that touch sockets under OS-level faults (Faults = TRUE): the listener life-cycle
VerbsFaults    == {"AddListener", "RemoveListener", "Activate", "Deactivate", "UpdateListener", "ReturnSockets"}
\* ... and what a client is served once the address is free again (one http route, one tcp route)
VerbsFaultsServe == {"Activate", "Deactivate", "AddBackend", "AddHFront", "AddTFront"}
ServeNothingPreamble == <<[k |-> "AddListener", a |-> "hA"], [k |-> "AddListener", a |-> "tC"]>>
=============================================================================
