"""C09 - the main process's verdict to a client matches what the workers did (spec/MasterHub.tla).

1. TLC checks P_C09 (safety invariants, exhaustively on small constants and by simulation on larger
   ones) and the liveness part P_C09c (FairSpec) on the spec with no deviation: design level.
2. For every open deviation TLC is re-run with it switched on and must produce a counterexample.
3. S->I: MasterHubGen.tla makes TLC enumerate (single request: every assignment of behaviours to the
   workers x every arrival order, up to worker symmetry) or sample (several requests / three workers)
   scripted scenarios with the spec's predicted observable state before every event; harness/replay_hub
   executes each one against a REAL CommandHub with fake workers and compares after every step.
4. I->S: harness/drive_hub records free-running seeded random runs (more workers, concurrent clients,
   random delays) and TLC validates the recorded trace against Trace_MasterHub.tla; a corrupted copy
   of the trace (canary) must be rejected.
5. A timing probe measures when the earlier of two deadlines fires (reported, not a verdict).
"""
import concurrent.futures as cf
import json
import os
import random

import vlib

PID = "C09"
ALL_VERBS = ["worker", "workerBad", "query", "load", "stopHard", "stopSoft"]
INVS = ("TypeOK P_C09a_AtMostOneFinal P_C09b_OkMeansAllAcked P_C09d_RightClient "
        "P_C09e_NoStaleInFlight P_C09f_NoAnswerDropped P_C09_AnswersFollowTasks")
# invariants that stay true under the open deviations (P_C09b is what QueryAlwaysOk/StopAlwaysOk break)
INVS_CONF = ("TypeOK P_C09a_AtMostOneFinal P_C09d_RightClient P_C09e_NoStaleInFlight P_C09f_NoAnswerDropped "
             "P_C09_AnswersFollowTasks")
# State file shapes (MasterHub.tla `Files`), one decimal digit per record: 1 good, 2 refused by the main state,
# 3 does not parse; 0 = empty file, 9 = no such file. whole(parts) = the well-formed file of `parts` records.
MISSING, EMPTY = 9, 0


# the shapes drive_hub draws from (its --parts is 2)
TRACE_FILES = [11, 13, 113, 31, 3, 0, 9, 21, 22, 123]


def whole(parts):
    return int("1" * parts)


# every class of shape: damaged after k = 0, 1, 2 accepted records (with and without something behind the
# damage), empty, missing, records the main state refuses (alone, before/after an accepted one, before damage)
SHAPES_2 = [13, 113, 31, 3, EMPTY, MISSING, 2, 12, 21, 123, 1213]
# self-tests: deviation switches that model a defect class which is NOT an open finding; TLC must refute each
# (name, deviations, spec, invariants, property, verbs, reqs, workers)
SELF_TESTS = [
    ("LoadErrorKeepsTask", ["LoadErrorKeepsTask"], "Spec", "P_C09a_AtMostOneFinal", None, ["load"], [1], 2),
    ("CloseBeforeRead", ["CloseBeforeRead"], "Spec", "P_C09f_NoAnswerDropped", None, ["worker", "stopSoft"], [1], 2),
    ("DeadlineMasked", ["NoTimeoutHang", "DeadlineMasked"], "FairSpec", None, "P_C09c_DeadlinedAnswered",
     ["worker", "load"], [1, 3], 1),
]


def tset(xs):
    return "{" + ", ".join(('"%s"' % x) if isinstance(x, str) else str(x) for x in xs) + "}"


def base_consts(workers, reqs, verbs, t, parts, dup, proc, queue, devs, files=None):
    files = [whole(parts)] if files is None else files
    return ("  Workers = %s\n  Reqs = %s\n  Verbs = %s\n  T = %d\n  Parts = %d\n  FileCodes = %s\n  MaxDup = %d\n"
            "  MaxProc = %d\n  MaxQueue = %d\n  Deviations = %s\n" % (
                tset(range(1, workers + 1)), tset(reqs), tset(verbs), t, parts, tset(files), dup, proc, queue, tset(devs)))


def mc_cfg(wd, name, consts, spec="Spec", invs=INVS, prop=None):
    path = os.path.join(wd, name + ".cfg")
    with open(path, "w") as f:
        f.write("SPECIFICATION %s\nCONSTANTS\n%s" % (spec, consts))
        if invs:
            f.write("INVARIANTS %s\n" % invs)
        if prop:
            f.write("PROPERTY %s\n" % prop)
        f.write("CHECK_DEADLOCK FALSE\n")
    return path


def gen_cfg(wd, name, workers, nreq, v, behaviours, parts, devs, files=None):
    path = os.path.join(wd, name + ".cfg")
    with open(path, "w") as f:
        f.write("SPECIFICATION GenSpec\nCONSTANTS\n")
        f.write(base_consts(workers, range(1, nreq + 1), ALL_VERBS, 1, parts, 9, 9, 9, devs, files))
        f.write("  Behaviours = %s\n  V1 = %s\n  V2 = %s\n  V3 = %s\n" % (
            tset(behaviours), tset(v[0]), tset(v[1]), tset(v[2])))
        f.write("INVARIANTS Emit\nCHECK_DEADLOCK FALSE\n")
    return path


def violated(r):
    return r["violated"] or ("Temporal property" if "was violated" in r["out"] else None)


def scenario_key(s):
    return json.dumps([s["nw"], s["plan"], s.get("file"),
                       [[e["ev"], e["r"], e["w"], e["p"], e["st"], e.get("fast", False)] for e in s["events"]]])


def seq(v):
    """TLC's ToJson prints a function over 1..n as an array, over another domain as an object."""
    if isinstance(v, dict):
        return [v[k] for k in sorted(v, key=int)]
    return v


def finals(out):
    return [x for x in out if x != "processing"]


def deviation_class(s, r):
    """Which open deviation explains that the spec (= code) verdict differs from what the property demands."""
    kind = seq(s["plan"])[r]
    code = finals(seq(s["final"]["out"])[r])
    ideal = seq(s["ideal"])[r]
    if code == [ideal]:
        return None
    if not code:
        return "dev:NoTimeoutHang" if kind in ("load", "stopSoft") else "model:hang-without-deviation"
    if code == ["ok"] and ideal == "failure":
        if kind == "query":
            return "dev:QueryAlwaysOk"
        if kind in ("stopHard", "stopSoft"):
            return "dev:StopAlwaysOk"
        if kind == "load":
            return "dev:NoTimeoutHang"     # an answer after the worker timeout still counted as in time
    return "model:verdict-without-deviation"


def describe(s):
    ev = " ".join("%s(%s)" % (e["ev"], ",".join(str(e[k]) for k in ("r", "w", "p", "st") if e[k] not in (0, "")))
                  for e in s["events"])
    files = [("".join(k[0] for k in f) or "empty") if p == "load" else "-"
             for p, f in zip(seq(s["plan"]), seq(s.get("file", [])) or [[]] * 9)]
    return "workers=%d plan=%s files=%s script=%s: %s => out=%s ideal=%s" % (
        s["nw"], seq(s["plan"]), files, seq(s["script"]), ev, seq(s["final"]["out"]), seq(s["ideal"]))


def run(tier, replay=None):
    rep = vlib.Report(PID, tier)
    wd = vlib.workdir(PID)
    thorough = tier == "thorough"
    bins = vlib.cargo_build(["replay_hub", "drive_hub"])
    devs = vlib.open_deviations(PID)
    seed = vlib.seed()
    rnd = random.Random(seed)

    if replay:
        return run_replay(rep, wd, bins, devs, replay)

    # ---------------------------------------------------------------- 1+2: TLC on the design (background)
    jobs = []   # (name, module, cfg, kwargs, expectation)
    a1 = base_consts(2, [1], ALL_VERBS, 1, 1, 1, 1, 2, [])
    jobs.append(("mc_one_request", mc_cfg(wd, "mc_a1", a1), {}, "hold"))
    jobs.append(("mc_load_parts", mc_cfg(wd, "mc_b3", base_consts(2, [1], ["load"], 1, 2, 0, 0, 2, [])), {}, "hold"))
    jobs.append(("live", mc_cfg(wd, "live", base_consts(2, [1], ALL_VERBS, 1, 1, 1, 0, 2, []), spec="FairSpec",
                                prop="P_C09c_EveryRequestAnswered"), {}, "hold"))
    # load-state alone, every class of file shape (damaged after k records, empty, missing, refused records)
    jobs.append(("mc_load_files", mc_cfg(wd, "mc_files", base_consts(2, [1], ["load"], 1, 2, 0, 0, 2, [],
                                                                     files=[whole(2)] + SHAPES_2)), {}, "hold"))
    # a deadline fires whatever else is pending: holds with the open deviations ON (NoTimeoutHang excuses only
    # the task without deadline itself)
    jobs.append(("live_deadlined", mc_cfg(wd, "live_dl", base_consts(1, [1, 3], ["worker", "workerBad", "query", "load"],
                                                                     1, 1, 0, 0, 2, devs, files=[1, 3]),
                                          spec="FairSpec", invs=None, prop="P_C09c_DeadlinedAnswered"), {}, "hold"))
    for name, sdevs, sspec, sinv, sprop, sverbs, sreqs, snw in SELF_TESTS:
        sparts = 2 if "load" in sverbs and snw == 2 else 1
        jobs.append(("selftest_" + name,
                     mc_cfg(wd, "self_" + name, base_consts(snw, sreqs, sverbs, 1, sparts, 0, 0, 2, sdevs,
                                                            files=([whole(2), 13, 3, EMPTY] if sparts == 2 else [1])),
                            spec=sspec, invs=sinv, prop=sprop), {}, "violate"))
    sim = base_consts(2, [1, 2, 3], ["worker", "workerBad", "query", "load"], 2, 2, 1, 1, 2, [], files=[whole(2), 13, EMPTY])
    jobs.append(("sim_three_requests", mc_cfg(wd, "sim_c", sim),
                 {"simulate": "num=100000000", "depth": 60, "timeout": (600 if thorough else 25)}, "hold"))
    if thorough:
        jobs.append(("mc_load_dup", mc_cfg(wd, "mc_a2", base_consts(2, [1], ["load"], 1, 2, 1, 0, 2, [])), {}, "hold"))
        jobs.append(("mc_two_clients", mc_cfg(wd, "mc_c1", base_consts(2, [1, 3], ["worker", "query"], 1, 1, 0, 0, 2, [])),
                     {}, "hold"))
        jobs.append(("mc_one_worker_three_requests",
                     mc_cfg(wd, "mc_c2", base_consts(1, [1, 2, 3], ["worker", "workerBad", "query"], 1, 1, 1, 0, 2, [])),
                     {}, "hold"))
        jobs.append(("mc_three_workers", mc_cfg(wd, "mc_w3", base_consts(3, [1], ["worker", "query", "stopHard"], 2, 1, 1, 0, 2, [])),
                     {}, "hold"))
    for d in devs:
        if d == "NoTimeoutHang":
            cfg = mc_cfg(wd, "dev_" + d, base_consts(2, [1], ALL_VERBS, 1, 1, 0, 0, 2, [d]), spec="FairSpec",
                         prop="P_C09c_EveryRequestAnswered")
        else:
            cfg = mc_cfg(wd, "dev_" + d, base_consts(2, [1], ALL_VERBS, 1, 1, 1, 1, 2, [d]))
        jobs.append(("dev_" + d, cfg, {}, "violate"))

    def tlc_job(j):
        name, cfg, kw, expect = j
        kw = dict(kw)
        to = kw.pop("timeout", 3000 if thorough else 400)
        return name, expect, vlib.tlc("MasterHub", cfg, PID, workers=(6 if thorough else 3), timeout=to, **kw)

    pool = cf.ThreadPoolExecutor(max_workers=6 if thorough else 5)
    # ---------------------------------------------------------------- 3: generators
    B9 = ["ok", "failure", "silent", "closed", "close", "okclose", "dupok", "late", "procok"]
    B10 = B9 + ["failok"]
    skip = ["skip"]
    n_sim = 1500 if thorough else 100
    gens = [
        # name, workers, nreq, (V1,V2,V3), behaviours, parts, simulate, file shapes (None: the well-formed file)
        ("one_request_two_workers", 2, 1, (ALL_VERBS, skip, skip), B9, 2, None, None),
        ("one_request_one_worker", 1, 1, (ALL_VERBS, skip, skip), B10, 3, None, None),
        # hole C09-12: load-state over every class of file shape x worker behaviours, exhaustive
        ("load_file_shapes", 2, 1, (["load"], skip, skip), ["ok", "failure", "silent", "close", "okclose", "dupok"], 2, None,
         SHAPES_2),
        # a request with a deadline beside a load-state (no deadline) that waits for a silent worker, exhaustive
        ("deadline_beside_no_deadline", 2, 3, (["load"], skip, ["worker", "query"]), ["ok", "silent"], 1, None, [1]),
        ("two_clients", 2, 3, (["worker", "query", "load"], skip, ["worker", "query", "workerBad"]),
         ["ok", "failure", "silent", "dupok", "close"], 2, n_sim, [whole(2), 13, EMPTY]),
        ("same_client_twice", 2, 2, (["worker", "query", "load", "workerBad"], ["worker", "query", "stopHard", "stopSoft"], skip),
         ["ok", "failure", "silent", "close", "late"], 2, n_sim, [whole(2), 13, 113, 31, EMPTY, MISSING]),
        ("three_workers", 3, 1, (["worker", "query", "load", "stopHard"], skip, skip),
         ["ok", "failure", "silent", "dupok", "close", "procok"], 2, n_sim, [whole(2), 13, 12]),
    ]
    if thorough:
        gens.append(("three_requests", 2, 3, (["worker", "query"], ["worker", "load"], ["worker", "query", "load"]),
                     ["ok", "failure", "silent", "dupok", "okclose", "late"], 2, n_sim, [whole(2), 13, 113, EMPTY]))
    def gen_job(gspec):
        name, nw, nreq, v, beh, parts, simulate, files = gspec
        cfg = gen_cfg(wd, "gen_" + name, nw, nreq, v, beh, parts, devs, files)
        got = []
        kw = {"simulate": "num=%d" % simulate, "depth": 200} if simulate else {}
        g = vlib.tlc("MasterHubGen", cfg, PID, workers=3, timeout=900, want_replay=True,
                     replay_sink=got.append, **kw)
        return gspec, g, got

    gen_futures = [pool.submit(gen_job, g) for g in gens]
    futures = [pool.submit(tlc_job, j) for j in jobs]

    def drive_job():
        n_runs = 600 if thorough else 64
        trace = os.path.join(wd, "trace.ndjson")
        out = vlib.run_harness(bins["drive_hub"], ["--runs", str(n_runs), "--seed", str(seed), "--threads", "32",
                                                   "--out", trace, "--t", "2"], timeout=3000)
        return trace, out

    drive_future = pool.submit(drive_job)

    scenarios = {}
    exhaustive_gens = []
    for gf in gen_futures:
        (name, nw, nreq, v, beh, parts, simulate, _files), g, got = gf.result()
        if violated(g) or g["error"]:
            raise vlib.ToolError("generator %s failed: %s %s" % (name, violated(g), g["error"]))
        if not simulate:
            rep.add_tlc(g)
            exhaustive_gens.append(name)
        fresh = 0
        for s in got:
            s["batch"] = name
            s["parts"] = parts
            k = scenario_key(s)
            if k not in scenarios:
                scenarios[k] = s
                fresh += 1
        vlib.log("generator %s: %d scenarios (%d new)" % (name, len(got), fresh))
    scen = list(scenarios.values())
    rnd.shuffle(scen)
    # longest first would be better for the tail; hang scenarios take 4 s: put them first
    scen.sort(key=lambda s: 0 if any(seq(s["sent"])[r] and not finals(seq(s["final"]["out"])[r])
                                     for r in range(len(seq(s["sent"])))) else 1)
    for i, s in enumerate(scen):
        s["idx"] = i

    # ---------------------------------------------------------------- replay on the real hub
    by_parts = {}
    for s in scen:
        by_parts.setdefault(s["parts"], []).append(s)
    results = {}
    for parts, group in sorted(by_parts.items()):
        path = os.path.join(wd, "scenarios_p%d.ndjson" % parts)
        with open(path, "w") as f:
            for s in group:
                f.write(json.dumps(s) + "\n")
        out = vlib.run_harness(bins["replay_hub"], ["--threads", "96", "--seed", str(seed), "--parts", str(parts)],
                               stdin_path=path, timeout=3000)
        for o in out:
            if o.get("kind") == "result":
                results[o["idx"]] = o
    if len(results) != len(scen):
        raise vlib.ToolError("replay_hub returned %d results for %d scenarios" % (len(results), len(scen)))
    n_match = n_unreal = n_stale = 0
    nontrivial = set()
    for s in scen:
        res = results[s["idx"]]
        st = res["status"]
        if st == "tool-error":
            raise vlib.ToolError("replay_hub could not set a scenario up: %s" % res.get("detail"))
        if st == "unrealised":
            n_unreal += 1
            continue
        if st == "match":
            n_match += 1
            if any(e["ev"] in ("ans", "close", "tick") for e in s["events"]):
                nontrivial.add(scenario_key(s))
            for r in range(len(seq(s["sent"]))):
                if not seq(s["sent"])[r]:
                    continue
                k = deviation_class(s, r)
                if k:
                    rep.violation(k, "request %d: %s" % (r + 1, describe(s)), json.dumps(s) + "\n",
                                  name="scenario_%d.ndjson" % s["idx"])
            continue
        # mismatch. An implementation that does what the property demands where the spec (with an open
        # deviation switched on) predicted the known defect is not a violation.
        sent = seq(s["sent"])
        if (res["class"].startswith(("out:", "hang:"))
                and any(deviation_class(s, r) for r in range(len(sent)) if sent[r])
                and all(res["impl_finals"][r] == [seq(s["ideal"])[r]] for r in range(len(sent)) if sent[r])):
            n_stale += 1
            vlib.log("NOTE scenario %d: the implementation answers as the property demands where an open deviation "
                     "predicted otherwise (stale known finding?): %s" % (s["idx"], describe(s)))
            continue
        rep.violation("mismatch:" + res["class"],
                      "%s | %s" % (json.dumps(res["detail"])[:400], describe(s)),
                      json.dumps(s) + "\n", name="scenario_%d.ndjson" % s["idx"])
    vlib.log("replay: %d scenarios, %d matched, %d unrealised, %d better than an open deviation" % (
        len(scen), n_match, n_unreal, n_stale))
    if os.environ.get("C09_DEBUG_GATED"):
        for s in [s for s in scen if results[s["idx"]].get("gated_batches", 0) > 0 and results[s["idx"]]["status"] == "match"][:400]:
            vlib.log("GATED-MATCH " + describe(s))
    n_fast = sum(1 for s in scen if any(e.get("fast") for e in s["events"]))
    n_gated = sum(1 for s in scen if results[s["idx"]].get("gated_batches", 0) > 0)
    n_gated_match = sum(1 for s in scen if results[s["idx"]].get("gated_batches", 0) > 0 and results[s["idx"]]["status"] == "match")
    vlib.log("replay: %d scenarios with a non-quiescent batch (answer + hang-up in one poll turn), %d of them with the "
             "hub's loop parked (deterministic), %d of those matched" % (n_fast, n_gated, n_gated_match))
    if n_unreal > max(5, len(scen) // 5):
        raise vlib.ToolError("%d of %d scenarios could not be realised in time (machine overloaded?)" % (n_unreal, len(scen)))
    rep.add_samples([describe(s) for s in scen if len(s["events"]) >= 5][:3], 3)

    # ---------------------------------------------------------------- 4: I->S trace validation
    trace, out = drive_future.result()
    summ = [o for o in out if o.get("kind") == "summary"]
    if not summ:
        raise vlib.ToolError("drive_hub produced no summary")
    summ = summ[0]
    tcfg = os.path.join(wd, "trace.cfg")
    with open(tcfg, "w") as f:
        f.write("SPECIFICATION TraceSpec\nCONSTANTS\n")
        f.write(base_consts(4, range(1, 7), ALL_VERBS, 2, 2, 99, 99, 99, devs, files=TRACE_FILES))
        f.write("CONSTRAINT Track\nINVARIANTS %s\nPOSTCONDITION TraceAccepted\nCHECK_DEADLOCK FALSE\n" % INVS_CONF)
    tr = vlib.tlc_trace("Trace_MasterHub", tcfg, PID, trace, timeout=2400)
    rep.add_tlc(tr)
    runs_ok = 0
    if tr["accepted"]:
        runs_ok = summ["runs"]
    else:
        with open(trace) as f:
            evs = [json.loads(l) for l in f]
        k = tr["consumed"] or 0
        starts = summ["run_starts"]
        run_no = max(i for i, st in enumerate(starts) if st <= k + 1) if k + 1 >= starts[0] else 0
        lo = starts[run_no] - 1
        hi = starts[run_no + 1] - 1 if run_no + 1 < len(starts) else len(evs)
        runs_ok = run_no
        bad = evs[k] if k < len(evs) else {}
        klass = "trace:" + ("invariant:" + tr["violated"] if tr["violated"] else "rejected:" + str(bad.get("ev")))
        rep.violation(klass, "run %d of the driver is not a behaviour of MasterHub: event %d %s has no explanation; run info %s" % (
            run_no, k + 1 - lo, json.dumps(bad), json.dumps(summ["infos"][run_no])[:300]),
            "".join(json.dumps(e) + "\n" for e in evs[lo:hi]), name="trace_run_%d.ndjson" % run_no)
    vlib.log("trace validation: %d events of %d runs, accepted=%s" % (summ["events"], summ["runs"], tr["accepted"]))
    # canary: a corrupted verdict must be rejected, otherwise the binding is void
    if tr["accepted"]:
        with open(trace) as f:
            evs = [json.loads(l) for l in f]
        # candidates: an OK verdict of a mutating/load request that had no time to time out (fewer than T ticks
        # since it was sent) in a run without failures or closed workers: `failure` is then inexplicable
        fin = []
        run_start = 0
        for i, e in enumerate(evs):
            if e["ev"] == "reset":
                run_start = i
            if e["ev"] == "crecv" and e["st"] == "ok":
                since = [x for x in evs[run_start:i]]
                sends = [k for k, x in enumerate(since) if x["ev"] == "send" and x["r"] == e["r"]]
                if not sends or since[sends[-1]]["verb"] not in ("worker", "load"):
                    continue
                after = since[sends[-1]:]
                if sum(1 for x in after if x["ev"] == "tick") >= 2:
                    continue
                if any(x["ev"] == "close" or (x["ev"] == "ans" and x["st"] == "failure") for x in since):
                    continue
                fin.append(i)
        if fin:
            j = fin[rnd.randrange(len(fin))]
            evs[j]["st"] = "failure"
            cpath = os.path.join(wd, "trace_canary.ndjson")
            with open(cpath, "w") as f:
                f.write("".join(json.dumps(e) + "\n" for e in evs[:min(len(evs), j + 40)]))
            cr = vlib.tlc_trace("Trace_MasterHub", tcfg, PID, cpath, timeout=1200)
            if cr["accepted"] or (cr["consumed"] or 0) > j:
                if not rep.violations:
                    raise vlib.ToolError("canary: a trace with a flipped verdict at event %d was accepted" % (j + 1))
                vlib.log("canary: flipped verdict at event %d accepted (violations already recorded)" % (j + 1))
            else:
                vlib.log("canary trace rejected at event %s as expected (flipped event %d)" % (cr["consumed"], j + 1))
        else:
            vlib.log("canary: no suitable verdict in the trace to corrupt")

    # ---------------------------------------------------------------- 5: timing probe (measurement only)
    probe = [o for o in vlib.run_harness(bins["replay_hub"], ["--probe-latest", "600"], timeout=120) if o.get("kind") == "probe"]
    if probe:
        rep.extra["earlier_deadline_probe"] = probe[0]
    # Worker_Close / Hub_HandleWorkerClose concretised with a backlog: the hub still has unsent data for the
    # worker when it hangs up. The spec's prediction is the same as for any close: stopped, no longer targeted.
    cb = [o for o in vlib.run_harness(bins["replay_hub"], ["--probe-close-backlog", "6000"], timeout=180)
          if o.get("kind") == "probe_close_backlog"]
    if not cb or cb[0].get("error"):
        raise vlib.ToolError("close-with-backlog scenario did not run: %s" % (cb[:1],))
    cb = cb[0]
    rep.extra["close_with_backlog"] = cb
    if cb["wstate"] != cb["spec_wstate"] or cb["later_request"] != cb["spec_later_request"] or "Err" in cb["hub"]:
        rep.violation("mismatch:close-backlog",
                      "worker closed while the hub had unsent data for it: hub reports %s (spec %s), a later request "
                      "answered by the only live worker gets %s after %d ms (spec %s)" % (
                          cb["wstate"], cb["spec_wstate"], cb["later_request"], cb["later_request_ms"], cb["spec_later_request"]),
                      cb, name="close_backlog.json")

    # ---------------------------------------------------------------- collect the TLC jobs
    for fut in futures:
        name, expect, r = fut.result()
        rep.add_tlc(r)
        v = violated(r)
        if expect == "hold" and v:
            rep.violation("spec:" + v, "the specification itself violates %s in %s" % (v, name), r["out"][-6000:],
                          name="tlc_%s.txt" % name)
        if expect == "violate":
            if not v:
                raise vlib.ToolError("deviation %s no longer violates P_C09 in the model" % name)
            vlib.log("%s: TLC counterexample to %s as expected" % (name, v))
    pool.shutdown()

    rep.cov["traces_validated_against_impl"] = n_match + runs_ok
    rep.cov["evaluations"] = sum(len(s["events"]) + 1 for s in scen) + summ["events"]
    rep.cov["distinct_nontrivial"] = len(nontrivial) + runs_ok
    rep.cov["exhaustive"] = all(g[6] is None for g in gens)
    rep.extra["scenarios"] = {"total": len(scen), "matched": n_match, "unrealised": n_unreal,
                              "better_than_open_deviation": n_stale,
                              "non_quiescent_batches": n_fast, "non_quiescent_batches_gated": n_gated,
                              "per_batch": {b: sum(1 for s in scen if s["batch"] == b) for b in sorted({s["batch"] for s in scen})},
                              "exhaustive_batches": exhaustive_gens}
    rep.extra["trace"] = {"runs": summ["runs"], "events": summ["events"], "accepted": tr["accepted"],
                          "tlc_states": tr["distinct"]}
    rep.cov["rule"] = (
        "S->I: every terminal behaviour of MasterHubGen (workers' scripted behaviours chosen in the initial state, "
        "every arrival order, quiescent schedules) - exhaustive for one request x 1-2 workers x 6 verbs x 9-10 "
        "behaviours up to worker symmetry, TLC -simulate samples for two clients / two requests of one client / three "
        "workers; after every event the worker run states, every client's exact message sequence and every worker's "
        "received requests are compared with the spec. I->S: free-running random runs (1-4 workers, 1-3 clients, "
        "1-2 requests each; load-state files of 10 shapes - well-formed, cut off after k records, damaged from the start, "
        "empty, missing, refused records; the hub's loop parked now and then so that it finds several events in one poll "
        "turn; one run in six with a deadline pending beside a load-state without deadline on a quiet socket) "
        "accepted by Trace_MasterHub. S->I batches load_file_shapes (11 shapes x 6 behaviours x 2 workers) and "
        "deadline_beside_no_deadline are exhaustive; answer + hang-up batches are performed with the loop parked "
        "(one epoll event). distinct_nontrivial = distinct matched scenarios with at "
        "least one worker/timeout event (by event sequence) + accepted driver runs")
    rep.assumptions += [
        "worker_timeout = 1 s; a request without a final answer worker_timeout + 3 s after it was sent is a hang",
        "a client has one request outstanding per connection (answers carry no request id); stop verbs are only sent when nothing else is pending",
        "S->I schedules are quiescent (the hub is idle before every event, checked with ListWorkers round trips) except for a worker's hang-up right behind its own answer (performed with the hub's loop parked: one poll turn); other non-quiescent interleavings are covered by the I->S leg and by TLC on the spec",
        "a damaged state-file record lies within load_state's first read buffer (200000 bytes)",
        "UpgradeMain/UpgradeWorker/ReloadConfiguration fan-outs are not driven (they fork processes / read a config file); ReloadConfiguration shares Timeout::None with LoadState",
    ]
    rep.finish()


def run_replay(rep, wd, bins, devs, path):
    with open(path) as f:
        first = json.loads(f.readline())
    if "events" in first:
        first["idx"] = 0
        p2 = os.path.join(wd, "replay.ndjson")
        with open(p2, "w") as f:
            f.write(json.dumps(first) + "\n")
        out = vlib.run_harness(bins["replay_hub"], ["--threads", "1", "--seed", str(vlib.seed()),
                                                    "--parts", str(first.get("parts", 2))], stdin_path=p2, timeout=600)
        res = [o for o in out if o.get("kind") == "result"][0]
        print(describe(first))
        print(json.dumps(res, indent=1))
        if res["status"] == "mismatch":
            rep.violation("mismatch:" + res["class"], json.dumps(res["detail"])[:400], json.dumps(first) + "\n",
                          name="replayed.ndjson")
        else:
            sent = seq(first["sent"])
            for r in range(len(sent)):
                k = deviation_class(first, r) if sent[r] else None
                if k:
                    rep.violation(k, describe(first), json.dumps(first) + "\n", name="replayed.ndjson")
        rep.cov["traces_validated_against_impl"] = 1
    else:
        tcfg = os.path.join(wd, "trace.cfg")
        with open(tcfg, "w") as f:
            f.write("SPECIFICATION TraceSpec\nCONSTANTS\n")
            f.write(base_consts(4, range(1, 7), ALL_VERBS, 2, 2, 99, 99, 99, devs, files=TRACE_FILES))
            f.write("CONSTRAINT Track\nINVARIANTS %s\nPOSTCONDITION TraceAccepted\nCHECK_DEADLOCK FALSE\n" % INVS_CONF)
        tr = vlib.tlc_trace("Trace_MasterHub", tcfg, PID, path, timeout=1200)
        rep.add_tlc(tr)
        print("accepted=%s consumed=%s of %s" % (tr["accepted"], tr["consumed"], tr["total"]))
        if not tr["accepted"]:
            with open(path) as f:
                data = f.read()
            rep.violation("trace:rejected", "recorded run is not a behaviour of MasterHub (event %s)" % tr["consumed"], data,
                          name="replayed_trace.ndjson")
        rep.cov["traces_validated_against_impl"] = 1
    rep.cov["samples"] = ["replay of %s" % path]
    rep.finish()
