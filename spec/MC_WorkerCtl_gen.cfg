\* Generator (listener life-cycle family): one TLC state per (spec state, request) transition,
\* one REPLAY line each; open deviations on. tools/props/c08.py writes the other families.
SPECIFICATION GenSpec
CONSTANTS
  Listeners = {"hA", "tC", "sD", "uE"}
  Clusters = {}
  HFronts = {}
  TFronts = {}
  UFronts = {}
  Backends = {}
  Verbs <- VerbsListeners
  MaxReq = 4
  AfterStop <- AfterStopKinds
  Deviations = {"OrphanFronts", "TcpFrontLastWins"}
  Deterministic = TRUE
  Preamble <- NoPreamble
  Traffic = FALSE
  Faults = FALSE
  Emit = TRUE
VIEW GenView
INVARIANTS EmitState
CHECK_DEADLOCK FALSE
