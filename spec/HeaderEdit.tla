----------------------------- MODULE HeaderEdit -----------------------------
(***************************************************************************)
(* C13 - header rewriting of sozu as a FUNCTION of                         *)
(*   (listener configuration, peer address class, frontend protocol,       *)
(*    backend protocol, frontend header edits, client header list,         *)
(*    client trailer list, backend response header list).                  *)
(*                                                                         *)
(* Code modelled (one operator per stage of the code):                     *)
(*   FrontRejects      pkawa::handle_header / classify_invalid_h2_header   *)
(*   Editor            kawa_h1/editor.rs::on_request_headers               *)
(*   FrontendReqEdits  mux/router.rs::apply_request_rewrites_and_headers   *)
(*   BackConvert       mux/converter.rs (H2BlockConverter) / kawa h1 conv. *)
(*   TrailersOut       pkawa::handle_trailer, kawa h1 trailer phase        *)
(*   RespEditor        kawa_h1/editor.rs::on_response_headers              *)
(*   FrontendRespEdits mux/shared.rs::apply_response_header_edits (+HSTS)  *)
(*   FrontConvert      converter toward the client                         *)
(*                                                                         *)
(* Header lists are sequences of tokens (strings are atomic in TLC); the   *)
(* harness owns the token -> bytes table (several concretisations each:    *)
(* case variants of names, values with commas/quotes).  Output elements    *)
(* are records [n, v, src]: n = lower-case field name (or the symbols      *)
(* "CORR" = configured correlation header name), v = sequence of atoms     *)
(* (client token values and proxy symbols), src = who produced the field.  *)
(* Where the code is free (position of proxy-added fields, one Cookie      *)
(* field vs one per crumb) the harness compares modulo that freedom: the   *)
(* relation is "same multiset, client-originated fields in client order".  *)
(*                                                                         *)
(* TLC enumerates cases through a trivial state machine: Init picks the    *)
(* configuration and a focus, Next appends one token to one of the lists.  *)
(***************************************************************************)
EXTENDS Naturals, Sequences, FiniteSets, SequencesExt, TLC, Json

CONSTANTS MaxReq,        \* max request header tokens
          MaxTr,         \* max request trailer tokens
          MaxResp,       \* max response header tokens
          Deviations,    \* open known findings modelled as the code behaves: used for the PREDICTIONS (conformance)
          CheckDeviations, \* deviations switched on while checking P_C13: {} (the property), {d} to see d break it
          Emit,          \* TRUE: print REPLAY lines (generator)
          SampleMod,     \* generator: emit a non-core case iff Hash(c) % SampleMod = SampleRes
          SampleRes,
          Shape          \* "quick" | "thorough": how much configuration coupling for pairs of tokens

VARIABLE c               \* the case

\* Open known findings (known_findings.json), each a switchable branch modelling what the code does:
\*  NominatedToH2      a field nominated by the client's Connection header (RFC 9110 7.6.1) is forwarded
\*                     to an HTTP/2 backend (the converter only drops the fixed RFC 9113 8.2.2 list);
\*  H1TrailerIdentity  identity fields (X-Real-IP, X-Forwarded-For, Forwarded, X-Request-Id, correlation
\*                     header) sent as HTTP/1.1 chunked trailers reach the backend (only HTTP/2 trailers
\*                     are filtered, pkawa::handle_trailer);
\*  TrailerCorr        the correlation header sent as an HTTP/2 trailer reaches the backend (handle_trailer
\*                     filters four fixed names, not the configured correlation header name).
\*
\* NominatedToH2 is the SAME code defect in both directions (one converter): a field nominated by the
\* BACKEND's Connection header reaches an HTTP/2 client. It covers ONLY fields whose sole reason to be
\* connection-specific is that nomination: a field of the fixed list below stays dropped with the switch on.
\*
\* Self-test switches (never open findings, never used for predictions): they model the defect CLASS
\* "a field of the fixed connection-specific list crosses into HTTP/2" and TLC must refute each:
\*  ConnFieldToH2Backend  the converter toward an HTTP/2 BACKEND lets one fixed-list name through
\*                        (a gap in its first-byte pre-filter: Proxy-Connection);
\*  ConnFieldToH2Client   the converter toward an HTTP/2 CLIENT lets one fixed-list name through
\*                        (Keep-Alive in a response of an HTTP/1.1 backend).
OpenDeviations == {"H1TrailerIdentity", "TrailerCorr", "NominatedToH2"}
SelfTestDeviations == {"ConnFieldToH2Backend", "ConnFieldToH2Client"}
AllDeviations == OpenDeviations \cup SelfTestDeviations
ASSUME Deviations \subseteq OpenDeviations /\ CheckDeviations \subseteq AllDeviations

---------------------------------------------------------------------------
(* Alphabets *)

\* Connection-specific names: EVERY name the RFCs and sozu's code list has a token, in both directions:
\*   request   Connection (close | keep-alive | x-hop | "Upgrade, HTTP2-Settings"), Keep-Alive, Proxy-Connection,
\*             Transfer-Encoding (the request is sent chunked on HTTP/1.1), Upgrade, TE (trailers | gzip),
\*             HTTP2-Settings, and X-Hop (connection-specific only when nominated);
\*   response  Connection (close | x-rhop), Keep-Alive, Proxy-Connection, Transfer-Encoding (the backend answers
\*             chunked), Upgrade, and X-Rhop (connection-specific only when nominated).
\* The harness spells every name in lower / upper / mixed case on HTTP/1.1 legs (requests AND responses).
ReqTokens == {"a1", "a2", "hop", "ckO", "ckS", "ckB", "ckD", "xff", "fwd", "xri", "xfproto", "xfport",
              "rid1", "rid2", "corr", "cClose", "cKA", "cHop", "teTr", "teGz", "upg",
              "pconn", "ka", "h2s", "cUpg", "tenc"}
\* "tKA": a connection-specific name in an HTTP/1.1 chunked trailer section (HTTP/1.1 fronts only: in an HTTP/2
\* trailer block it makes the request malformed after its header block was forwarded - C02/C03's domain)
TrTokens  == {"tPlain", "tXri", "tXff", "tFwd", "tRid", "tCorr", "tKA"}
RespTokens == {"r1", "r2", "sc", "sts", "rcorr", "rClose",
               "rKA", "rPconn", "rUpg", "rTenc", "rCHop", "rHop"}

Name(t) ==
  CASE t \in {"a1", "a2"}          -> "x-a"
    [] t = "hop"                   -> "x-hop"
    [] t \in {"xff", "tXff"}       -> "x-forwarded-for"
    [] t \in {"fwd", "tFwd"}       -> "forwarded"
    [] t \in {"xri", "tXri"}       -> "x-real-ip"
    [] t = "xfproto"               -> "x-forwarded-proto"
    [] t = "xfport"                -> "x-forwarded-port"
    [] t \in {"rid1", "rid2", "tRid"} -> "x-request-id"
    [] t \in {"corr", "tCorr", "rcorr"} -> "CORR"
    [] t \in {"cClose", "cKA", "cHop", "cUpg", "rClose", "rCHop"} -> "connection"
    [] t \in {"teTr", "teGz"}      -> "te"
    [] t \in {"upg", "rUpg"}       -> "upgrade"
    [] t \in {"pconn", "rPconn"}   -> "proxy-connection"
    [] t \in {"ka", "rKA", "tKA"}  -> "keep-alive"
    [] t \in {"tenc", "rTenc"}     -> "transfer-encoding"
    [] t = "h2s"                   -> "http2-settings"
    [] t = "rHop"                  -> "x-rhop"
    [] t = "tPlain"                -> "x-t"
    [] t \in {"r1", "r2"}          -> "x-r"
    [] t = "sc"                    -> "set-cookie"
    [] t = "sts"                   -> "strict-transport-security"
    [] OTHER                       -> "cookie"

CookieTokens == {"ckO", "ckS", "ckB", "ckD"}
\* crumbs carried by a Cookie token, in order. "S:good" / "S:bad" carry the listener's sticky name
\* (valid / invalid session id), "D" is a cookie whose name is the DEFAULT sticky name.
Crumbs(t) == CASE t = "ckO" -> <<"o1">>
               [] t = "ckS" -> <<"S:good">>
               [] t = "ckB" -> <<"o2", "S:bad", "o3">>
               [] t = "ckD" -> <<"D">>
               [] OTHER     -> <<>>

\* RFC 9113 8.2.2 connection-specific fields; "te" only with a value other than "trailers"
ConnSpecificNames == {"connection", "proxy-connection", "transfer-encoding", "upgrade", "keep-alive"}
IsConnSpecificTok(t) == Name(t) \in ConnSpecificNames \/ t = "teGz"
\* what must never be written on an HTTP/2 leg: the list above plus HTTP2-Settings (RFC 7540 3.2.1: a
\* connection option of the h2c upgrade, meaningless beyond the hop; the converter lists it too). An HTTP/2
\* REQUEST carrying it is not malformed (FrontRejects uses the RFC 9113 list only).
NoCrossNames == ConnSpecificNames \cup {"http2-settings"}
IsNoCrossTok(t) == Name(t) \in NoCrossNames \/ t = "teGz"
\* response tokens only an HTTP/1.1 backend can send (from an HTTP/2 backend they are malformed: C02's domain)
H1OnlyRespTokens == {"rClose", "rKA", "rPconn", "rUpg", "rTenc", "rCHop"}

IdentityNames == {"x-real-ip", "x-forwarded-for", "forwarded", "x-request-id", "CORR"}

---------------------------------------------------------------------------
(* Cases *)

Fronts == { [front |-> "h1", tls |-> FALSE], [front |-> "h1", tls |-> TRUE], [front |-> "h2", tls |-> TRUE] }

Configs ==
  { k \in [ fp : Fronts, back : {"h1", "h2c"}, peer : {"v4", "v6", "pv4", "pv6"},
            elide : BOOLEAN, send : BOOLEAN, corrName : {"default", "custom"},
            stickyName : {"default", "custom"}, stickyCluster : BOOLEAN,
            edits : {"none", "set", "del"}, hsts : BOOLEAN ] :
      k.hsts => k.fp.tls }        \* HSTS is rejected on plain HTTP listeners at configuration time

TypeOK == /\ c.k \in Configs /\ c.f \in {"base", "req", "tr", "resp"}
          /\ c.req \in Seq(ReqTokens) /\ c.tr \in Seq(TrTokens) /\ c.resp \in Seq(RespTokens)

ViaProxy(k) == k.peer \in {"pv4", "pv6"}
\* the true client address: PROXY-protocol source if the listener expects one, else the TCP peer
TruePeer(k) == IF ViaProxy(k) THEN "PROXY_SRC" ELSE "SOCK_PEER"
\* the address the listener was reached on: PROXY destination, else the listener's address
TruePublic(k) == IF ViaProxy(k) THEN "PROXY_DST" ELSE "LISTENER"
Scheme(k) == IF k.fp.tls THEN "https" ELSE "http"

\* what the code uses (session_address / public_address after the expect-proxy state)
SessionAddr(k) == TruePeer(k)
PublicAddr(k)  == TruePublic(k)

---------------------------------------------------------------------------
(* Atoms and elements *)

Tok(t)  == [t |-> "tok", x |-> t]                     \* the value the client / backend sent in token t
Sym(s, a) == [t |-> "sym", x |-> s, a |-> a]           \* proxy-computed: s in IP, FWD, SCHEME, PORT, ID, STICKYSET, HSTS, LIT
El(n, v, src) == [n |-> n, v |-> v, src |-> src]

IpAtom(k)   == Sym("IP", SessionAddr(k))
FwdAtom(k)  == [t |-> "sym", x |-> "FWD", a |-> SessionAddr(k), by |-> PublicAddr(k), proto |-> Scheme(k)]
PortAtom(k) == Sym("PORT", PublicAddr(k))
SchemeAtom(k) == Sym("SCHEME", Scheme(k))
IdAtom      == Sym("ID", "request")

---------------------------------------------------------------------------
(* Request side *)

\* pkawa::handle_header: an H2 request carrying a connection-specific field is malformed
\* (stream error PROTOCOL_ERROR): it never reaches a backend.
FrontRejects(k, req) == k.fp.front = "h2" /\ \E i \in DOMAIN req : IsConnSpecificTok(req[i])

IsSticky(k, crumb) == crumb \in {"S:good", "S:bad"} \/ (crumb = "D" /\ k.stickyName = "default")
AllCrumbs(req) == FlattenSeq([i \in DOMAIN req |-> Crumbs(req[i])])
CookiesOut(k, req) == SelectSeq(AllCrumbs(req), LAMBDA cr : ~IsSticky(k, cr))
StickyFound(k, req) ==
  LET s == SelectSeq(AllCrumbs(req), LAMBDA cr : IsSticky(k, cr))
  IN IF s = <<>> THEN "none" ELSE IF s[Len(s)] = "S:good" THEN "good" ELSE "bad"

LastIdx(req, toks) == LET s == {i \in DOMAIN req : req[i] \in toks} IN IF s = {} THEN 0 ELSE CHOOSE i \in s : \A j \in s : j <= i
Has(req, toks) == \E i \in DOMAIN req : req[i] \in toks

\* on_request_headers: the walk over the client's fields (cookies live in the jar, see CookiesOut)
WalkEl(k, req, i) ==
  LET t == req[i] IN
  CASE t \in CookieTokens -> <<>>
    [] t = "xri" /\ k.elide -> <<>>
    [] t = "corr" -> <<>>                                   \* a client-supplied correlation header is elided
    [] t \in {"rid1", "rid2"} /\ i # LastIdx(req, {"rid1", "rid2"}) -> <<>>     \* only the last request id is kept
    [] t = "xff" /\ i = LastIdx(req, {"xff"}) -> << El(Name(t), <<Tok(t), IpAtom(k)>>, "client") >>
    [] t = "fwd" /\ i = LastIdx(req, {"fwd"}) -> << El(Name(t), <<Tok(t), FwdAtom(k)>>, "client") >>
    [] OTHER -> << El(Name(t), <<Tok(t)>>, "client") >>

Walk(k, req) == FlattenSeq([i \in DOMAIN req |-> WalkEl(k, req, i)])

\* on_request_headers: fields pushed after the walk (the code's order; the position is not part of the contract)
Added(k, req) ==
     (IF Has(req, {"xff"}) THEN <<>> ELSE << El("x-forwarded-for", <<IpAtom(k)>>, "proxy") >>)
  \o (IF Has(req, {"fwd"}) THEN <<>> ELSE << El("forwarded", <<FwdAtom(k)>>, "proxy") >>)
  \o (IF k.send THEN << El("x-real-ip", <<IpAtom(k)>>, "proxy") >> ELSE <<>>)
  \o (IF Has(req, {"xfport"}) THEN <<>> ELSE << El("x-forwarded-port", <<PortAtom(k)>>, "proxy") >>)
  \o (IF Has(req, {"xfproto"}) THEN <<>> ELSE << El("x-forwarded-proto", <<SchemeAtom(k)>>, "proxy") >>)
  \o (IF Has(req, {"rid1", "rid2"}) THEN <<>> ELSE << El("x-request-id", <<IdAtom>>, "proxy") >>)
  \o << El("CORR", <<IdAtom>>, "proxy") >>

Editor(k, req) == Walk(k, req) \o Added(k, req)

\* apply_request_rewrites_and_headers: "del" = delete x-a, "set" = append x-op (operator value)
FrontendReqEdits(k, hs) ==
  CASE k.edits = "del" -> SelectSeq(hs, LAMBDA e : e.n # "x-a")
    [] k.edits = "set" -> hs \o << El("x-op", <<Sym("LIT", "opv")>>, "op") >>
    [] OTHER -> hs

\* H2BlockConverter: connection-specific fields do not cross into HTTP/2.
\* Nominated: the field names listed by the message's own Connection header(s) (RFC 9110 7.6.1).
Nominated(req) == (IF Has(req, {"cHop"}) THEN {"x-hop"} ELSE {})
             \cup (IF Has(req, {"cUpg"}) THEN {"upgrade", "http2-settings"} ELSE {})
             \cup (IF Has(req, {"cKA"}) THEN {"keep-alive"} ELSE {})
NominatedResp(resp) == IF Has(resp, {"rCHop"}) THEN {"x-rhop"} ELSE {}
\* the fixed list of the converter (its first-byte pre-filter + is_connection_specific_header), minus the
\* name a self-test switch lets through
FixedDrop(gap, e) ==
  \/ (e.n \in NoCrossNames /\ e.n \notin gap)
  \/ (e.n = "te" /\ e.v = <<Tok("teGz")>>)
DropOnH2(D, req, e) ==
  \/ FixedDrop(IF "ConnFieldToH2Backend" \in D THEN {"proxy-connection"} ELSE {}, e)
  \/ ("NominatedToH2" \notin D /\ e.n \in Nominated(req))
BackConvert(D, k, req, hs) ==
  IF k.back = "h2c" THEN SelectSeq(hs, LAMBDA e : ~DropOnH2(D, req, e)) ELSE hs

\* trailers: pkawa::handle_trailer (H2 front) / kawa trailer phase (H1 front)
TrailerDropped(D, k, t) ==
  IF k.fp.front = "h2"
  THEN \/ Name(t) \in {"x-real-ip", "x-forwarded-for", "forwarded", "x-request-id"}
       \/ (Name(t) = "CORR" /\ "TrailerCorr" \notin D)
  ELSE \/ (Name(t) \in IdentityNames /\ "H1TrailerIdentity" \notin D)
       \/ (k.back = "h2c" /\ Name(t) \in NoCrossNames)      \* trailers pass the same converter as headers
TrailersOut(D, k, tr) ==
  LET kept == SelectSeq(tr, LAMBDA t : ~TrailerDropped(D, k, t))
  IN [i \in DOMAIN kept |-> El(Name(kept[i]), <<Tok(kept[i])>>, "client")]

EditRequestD(D, k, req, tr) ==
  IF FrontRejects(k, req)
  THEN [outcome |-> "reject", hdrs |-> <<>>, cookies |-> <<>>, trailers |-> <<>>]
  ELSE [outcome  |-> "forward",
        hdrs     |-> BackConvert(D, k, req, FrontendReqEdits(k, Editor(k, req))),
        cookies  |-> CookiesOut(k, req),
        trailers |-> TrailersOut(D, k, tr)]
\* the prediction the implementation is compared with: the code as it is, open findings included
EditRequest(k, req, tr) == EditRequestD(Deviations, k, req, tr)

---------------------------------------------------------------------------
(* Response side *)

RespWalk(resp) == [i \in DOMAIN resp |-> El(Name(resp[i]), <<Tok(resp[i])>>, "backend")]

\* on_response_headers. The sticky Set-Cookie is pushed when the router selected a backend for THIS request
\* on a sticky cluster and the client did not present that backend's id; when a multiplexed backend
\* connection is reused the router does not select again and the cookie is not announced: the function
\* leaves it free (StickyMay), the property only bounds it.
StickyMay(k, req) ==
  IF k.stickyCluster /\ StickyFound(k, req) # "good"
  THEN << El("set-cookie", <<Sym("STICKYSET", k.stickyName)>>, "proxy") >> ELSE <<>>
RespEditor(k, req, resp) == RespWalk(resp) \o << El("CORR", <<IdAtom>>, "proxy") >>

\* apply_response_header_edits: operator edits, then the listener's HSTS default (SetIfAbsent)
FrontendRespEdits(k, resp, hs) ==
  LET afterDel == IF k.edits = "del" THEN SelectSeq(hs, LAMBDA e : e.n # "x-r") ELSE hs
      opSet    == IF k.edits = "set" THEN << El("x-rop", <<Sym("LIT", "ropv")>>, "op") >> ELSE <<>>
      hstsAdd  == IF k.hsts /\ ~Has(resp, {"sts"})
                  THEN << El("strict-transport-security", <<Sym("HSTS", "listener")>>, "proxy") >> ELSE <<>>
  IN afterDel \o opSet \o hstsAdd

\* the same converter toward an HTTP/2 client
DropOnH2Resp(D, resp, e) ==
  \/ FixedDrop(IF "ConnFieldToH2Client" \in D THEN {"keep-alive"} ELSE {}, e)
  \/ ("NominatedToH2" \notin D /\ e.n \in NominatedResp(resp))
FrontConvert(D, k, resp, hs) ==
  IF k.fp.front = "h2" THEN SelectSeq(hs, LAMBDA e : ~DropOnH2Resp(D, resp, e)) ELSE hs

EditResponseD(D, k, req, resp) ==
  [hdrs |-> FrontConvert(D, k, resp, FrontendRespEdits(k, resp, RespEditor(k, req, resp))),
   may  |-> StickyMay(k, req)]            \* elements that may additionally be present (at most once each)
EditResponse(k, req, resp) == EditResponseD(Deviations, k, req, resp)

---------------------------------------------------------------------------
(* The property *)

Count(hs, n) == Cardinality({i \in DOMAIN hs : hs[i].n = n})
IsSubSeq(s, t) ==        \* s is an order-preserving subsequence of t (lengths are tiny)
  LET R[i \in 0..Len(s), j \in 0..Len(t)] ==
        IF i = 0 THEN TRUE
        ELSE IF j = 0 THEN FALSE
        ELSE (s[i] = t[j] /\ R[i-1, j-1]) \/ R[i, j-1]
  IN R[Len(s), Len(t)]

\* the client's end-to-end fields: everything except cookies (compared separately), sozu's own metadata,
\* what the operator deletes, and connection-specific fields (incl. those nominated by Connection) on an H2 leg
MetaNames == {"x-forwarded-for", "forwarded", "x-real-ip", "x-forwarded-proto", "x-forwarded-port", "x-request-id", "CORR"}
EndToEndTokens(k, req) ==
  SelectSeq(req, LAMBDA t : /\ t \notin CookieTokens
                            /\ Name(t) \notin MetaNames
                            /\ ~(k.edits = "del" /\ Name(t) = "x-a")
                            /\ ~(k.back = "h2c" /\ (IsNoCrossTok(t) \/ Name(t) \in Nominated(req))))
ClientTokensOf(hs) == LET cs == SelectSeq(hs, LAMBDA e : e.src = "client" /\ e.n \notin MetaNames) IN [i \in DOMAIN cs |-> cs[i].v[1].x]

\* every address / scheme / port in a proxy-added element is the true one
TruthfulAtom(k, a) ==
  a.t = "sym" =>
    CASE a.x = "IP"     -> a.a = TruePeer(k)
      [] a.x = "FWD"    -> a.a = TruePeer(k) /\ a.by = TruePublic(k) /\ a.proto = Scheme(k)
      [] a.x = "PORT"   -> a.a = TruePublic(k)
      [] a.x = "SCHEME" -> a.a = Scheme(k)
      [] OTHER          -> TRUE
Truthful(k, hs) == \A i \in DOMAIN hs : \A j \in DOMAIN hs[i].v : TruthfulAtom(k, hs[i].v[j])

\* proxy-added elements carry no client-supplied atom; appended elements end with the proxy's atom
SpoofFree(k, req, hs) ==
  /\ \A i \in DOMAIN hs : hs[i].src = "proxy" => \A j \in DOMAIN hs[i].v : hs[i].v[j].t = "sym"
  /\ \A i \in DOMAIN hs : (hs[i].n = "CORR") => hs[i].src = "proxy"
  /\ k.elide => \A i \in DOMAIN hs : (hs[i].n = "x-real-ip") => hs[i].src = "proxy"
  /\ k.send => \E i \in DOMAIN hs : hs[i] = El("x-real-ip", <<IpAtom(k)>>, "proxy")
  \* the forwarded chain ends with the element sozu appended
  /\ \E i \in DOMAIN hs : hs[i].n = "x-forwarded-for" /\ hs[i].v[Len(hs[i].v)] = IpAtom(k)
       /\ \A j \in DOMAIN hs : (hs[j].n = "x-forwarded-for" /\ j > i) => FALSE
  /\ \E i \in DOMAIN hs : hs[i].n = "forwarded" /\ hs[i].v[Len(hs[i].v)] = FwdAtom(k)
       /\ \A j \in DOMAIN hs : (hs[j].n = "forwarded" /\ j > i) => FALSE
  \* X-Forwarded-Proto/Port describe the listener when the client sent none
  /\ ~Has(req, {"xfproto"}) => Count(hs, "x-forwarded-proto") = 1
  /\ ~Has(req, {"xfport"})  => Count(hs, "x-forwarded-port") = 1

NoConnSpecificOnH2(k, req, hs) ==
  k.back = "h2c" => \A i \in DOMAIN hs : /\ hs[i].n \notin NoCrossNames
                                          /\ hs[i].v # <<Tok("teGz")>>
                                          /\ hs[i].n \notin Nominated(req)

P_Request(D, k, req, tr) ==
  LET o == EditRequestD(D, k, req, tr) IN
  o.outcome = "forward" =>
    /\ Truthful(k, o.hdrs)
    /\ Count(o.hdrs, "x-request-id") = 1
    /\ Count(o.hdrs, "CORR") = 1
    /\ IsSubSeq(EndToEndTokens(k, req), ClientTokensOf(o.hdrs))
    /\ ClientTokensOf(o.hdrs) = EndToEndTokens(k, req)            \* ... and nothing else of the client's
    /\ o.cookies = SelectSeq(AllCrumbs(req), LAMBDA cr : ~IsSticky(k, cr))
    /\ NoConnSpecificOnH2(k, req, o.hdrs)
    /\ SpoofFree(k, req, o.hdrs)
    /\ \A i \in DOMAIN o.trailers : o.trailers[i].n \notin IdentityNames
    /\ k.back = "h2c" => \A i \in DOMAIN o.trailers : o.trailers[i].n \notin NoCrossNames
    /\ IsSubSeq(SelectSeq(tr, LAMBDA t : Name(t) \notin IdentityNames /\ ~(k.back = "h2c" /\ Name(t) \in NoCrossNames)),
                [i \in DOMAIN o.trailers |-> o.trailers[i].v[1].x])

\* responses reach the client intact plus only the documented additions
AllowedRespAdditions(k, req, resp) ==
     {El("CORR", <<IdAtom>>, "proxy")}
  \cup (IF k.hsts /\ ~Has(resp, {"sts"}) THEN {El("strict-transport-security", <<Sym("HSTS", "listener")>>, "proxy")} ELSE {})
  \cup (IF k.edits = "set" THEN {El("x-rop", <<Sym("LIT", "ropv")>>, "op")} ELSE {})
P_Response(D, k, req, resp) ==
  LET o == EditResponseD(D, k, req, resp)
      backendEls == SelectSeq(o.hdrs, LAMBDA e : e.src = "backend")
      kept == SelectSeq(resp, LAMBDA t : /\ ~(k.edits = "del" /\ Name(t) = "x-r")
                                         /\ ~(k.fp.front = "h2" /\ (IsNoCrossTok(t) \/ Name(t) \in NominatedResp(resp))))
  IN /\ [i \in DOMAIN backendEls |-> backendEls[i].v[1].x] = kept
     /\ {o.hdrs[i] : i \in {j \in DOMAIN o.hdrs : o.hdrs[j].src # "backend"}} = AllowedRespAdditions(k, req, resp)
     /\ Cardinality({j \in DOMAIN o.hdrs : o.hdrs[j].src # "backend"}) = Cardinality(AllowedRespAdditions(k, req, resp))
     \* connection-specific fields never cross into HTTP/2: responses of HTTP/1.1 backends too
     /\ k.fp.front = "h2" => \A i \in DOMAIN o.hdrs : /\ o.hdrs[i].n \notin NoCrossNames
                                                       /\ o.hdrs[i].n \notin NominatedResp(resp)
     \* the only optional addition is the cluster's sticky cookie, and only where one is due
     /\ \A i \in DOMAIN o.may : /\ o.may[i] = El("set-cookie", <<Sym("STICKYSET", k.stickyName)>>, "proxy")
                                /\ k.stickyCluster /\ StickyFound(k, req) # "good"

P_Case(D, s) == /\ P_Request(D, s.k, s.req, s.tr)
                /\ (~FrontRejects(s.k, s.req) => P_Response(D, s.k, s.req, s.resp))
P_C13 == P_Case(CheckDeviations, c)

---------------------------------------------------------------------------
(* Enumeration *)
(* Which part of the product request x trailers x response x configuration *)
(* is explored is fixed by a FOCUS chosen in Init (so that TLC never        *)
(* generates a successor it then has to discard):                           *)
(*  base  every configuration, empty lists;                                 *)
(*  req   request lists of exactly L tokens, response list empty; the       *)
(*        response-only configuration bits are coupled to request bits      *)
(*        (each value still occurs) and for L >= 2 (quick) / L >= 3 the     *)
(*        bits that only rename things are coupled too;                     *)
(*  tr    at most one header token, then 1..MaxTr trailer tokens;           *)
(*  resp  the request is one of the three sticky-cookie situations, then    *)
(*        1..MaxResp response tokens; request-only bits coupled.            *)

ReqFocusReqs == { <<>>, <<"ckS">>, <<"ckB">> }

ReqCfgOK(k, L) ==
  /\ k.hsts = (k.fp.tls /\ k.elide)
  /\ k.stickyCluster = k.send
  /\ ((Shape = "quick" /\ L = 2) =>
        /\ k.stickyName = k.corrName
        /\ k.peer \in (IF k.elide THEN {"v4", "pv6"} ELSE {"v6", "pv4"}))
  /\ (L >= 3 =>
        /\ k.stickyName = k.corrName
        /\ k.peer = (IF k.elide THEN "pv6" ELSE "v4")
        /\ k.edits = (IF k.send THEN "del" ELSE "none"))
TrCfgOK(k) ==
  /\ k.hsts = (k.fp.tls /\ k.elide) /\ k.stickyCluster = k.send /\ k.send = k.elide
  /\ k.edits = "none" /\ k.stickyName = k.corrName
  /\ k.peer \in (IF k.elide THEN {"v4", "pv6"} ELSE {"v6", "pv4"})
RespCfgOK(k) ==
  /\ k.elide = k.hsts /\ k.send = k.stickyCluster
  /\ k.peer = (IF k.corrName = "custom" THEN "pv6" ELSE "v4")

Case(f, L, k) == [f |-> f, L |-> L, k |-> k, req |-> <<>>, tr |-> <<>>, resp |-> <<>>]

Init == c \in    {Case("base", 0, k) : k \in Configs}
             \cup UNION {{Case("req", L, k) : k \in {k \in Configs : ReqCfgOK(k, L)}} : L \in 1..MaxReq}
             \cup {Case("tr", 1, k) : k \in {k \in Configs : TrCfgOK(k)}}
             \cup {Case("resp", 1, k) : k \in {k \in Configs : RespCfgOK(k)}}

Next ==
  \/ /\ c.f = "req" /\ Len(c.req) < c.L
     /\ \E t \in ReqTokens : (t = "tenc" => ~Has(c.req, {"tenc"}))     \* a message has ONE framing (C03's domain)
                              /\ c' = [c EXCEPT !.req = Append(@, t)]
  \/ /\ c.f = "tr" /\ c.tr = <<>> /\ Len(c.req) < 1
     /\ \E t \in ReqTokens : c' = [c EXCEPT !.req = Append(@, t)]
  \/ /\ c.f = "tr" /\ Len(c.tr) < MaxTr
     /\ \E t \in TrTokens : (t = "tKA" => c.k.fp.front = "h1") /\ c' = [c EXCEPT !.tr = Append(@, t)]
  \/ /\ c.f = "resp" /\ c.req = <<>> /\ c.resp = <<>>
     /\ \E r \in ReqFocusReqs \ {<<>>} : c' = [c EXCEPT !.req = r]
  \/ /\ c.f = "resp" /\ Len(c.resp) < MaxResp
     /\ \E t \in RespTokens : (c.k.back = "h2c" => t \notin H1OnlyRespTokens)   \* invalid HTTP/2 from a backend: C02's domain
                               /\ (t = "rTenc" => ~Has(c.resp, {"rTenc"}))
                               /\ c' = [c EXCEPT !.resp = Append(@, t)]
Spec == Init /\ [][Next]_c

\* a case is complete (worth emitting) when its focus' list is non-empty / has the chosen length
Complete(s) == CASE s.f = "base" -> TRUE
                 [] s.f = "req"  -> Len(s.req) = s.L
                 [] s.f = "tr"   -> Len(s.tr) > 0
                 [] s.f = "resp" -> Len(s.resp) > 0

---------------------------------------------------------------------------
(* Generator: one REPLAY line per selected case, with both predictions. *)

SeqIdx(S, t) == CHOOSE i \in 1..Len(S) : S[i] = t
ReqTokSeq == SetToSeq(ReqTokens)
TrTokSeq == SetToSeq(TrTokens)
RespTokSeq == SetToSeq(RespTokens)
RECURSIVE HashSeq(_, _, _)
HashSeq(S, s, acc) == IF s = <<>> THEN acc ELSE HashSeq(S, Tail(s), (acc * 31 + SeqIdx(S, Head(s))) % 65521)
B(b) == IF b THEN 1 ELSE 0
HashCfg(k) == B(k.elide) + 2 * B(k.send) + 4 * B(k.hsts) + 8 * B(k.stickyCluster) + 16 * B(k.fp.tls)
              + 32 * B(k.fp.front = "h2") + 64 * B(k.back = "h2c") + 128 * B(k.corrName = "custom")
              + 256 * B(k.stickyName = "custom") + 512 * B(k.peer \in {"v6", "pv6"}) + 1024 * B(ViaProxy(k))
              + 2048 * B(k.edits = "set") + 4096 * B(k.edits = "del")
Hash(s) == (HashSeq(ReqTokSeq, s.req, 7) * 131 + HashSeq(TrTokSeq, s.tr, 3) * 17 + HashSeq(RespTokSeq, s.resp, 5) * 29
            + HashCfg(s.k) * 37) % 1000003

\* always emitted: the sampling only thins the bulk
Selected(s) == Complete(s) /\ Hash(s) % SampleMod = SampleRes % SampleMod

\* Every open deviation must still break the property in the model: one witness case per deviation, evaluated
\* by TLC at start-up (the thorough tier also re-runs the whole model check with the deviation on).
WitnessCfg == [fp |-> [front |-> "h1", tls |-> FALSE], back |-> "h2c", peer |-> "v4", elide |-> TRUE, send |-> TRUE,
               corrName |-> "custom", stickyName |-> "default", stickyCluster |-> FALSE, edits |-> "none", hsts |-> FALSE]
WitnessH2H1 == [WitnessCfg EXCEPT !.fp = [front |-> "h2", tls |-> TRUE], !.back = "h1"]
Witness(d) ==
  CASE d = "NominatedToH2"     -> [k |-> WitnessCfg, req |-> <<"cHop", "hop">>, tr |-> <<>>, resp |-> <<>>]
    [] d = "H1TrailerIdentity" -> [k |-> WitnessCfg, req |-> <<>>, tr |-> <<"tXri">>, resp |-> <<>>]
    [] d = "TrailerCorr"       -> [k |-> [WitnessCfg EXCEPT !.fp = [front |-> "h2", tls |-> TRUE]], req |-> <<>>, tr |-> <<"tCorr">>, resp |-> <<>>]
    [] d = "ConnFieldToH2Backend" -> [k |-> WitnessCfg, req |-> <<"pconn">>, tr |-> <<>>, resp |-> <<>>]
    [] d = "ConnFieldToH2Client"  -> [k |-> WitnessH2H1, req |-> <<>>, tr |-> <<>>, resp |-> <<"rKA">>]
ASSUME \A d \in AllDeviations : P_Case({}, Witness(d)) /\ ~P_Case({d}, Witness(d))
\* NominatedToH2 has a second face (response direction) ...
ASSUME LET w == [k |-> WitnessH2H1, req |-> <<>>, tr |-> <<>>, resp |-> <<"rCHop", "rHop">>]
       IN P_Case({}, w) /\ ~P_Case({"NominatedToH2"}, w)
\* ... and is NARROW: with it on, every field of the fixed list still never reaches HTTP/2, also when a
\* Connection header happens to nominate it - so a leak of such a field is never explained by the open finding.
NarrowReqs == { <<"pconn">>, <<"ka">>, <<"h2s">>, <<"upg">>, <<"tenc">>, <<"teGz">>, <<"cClose">>,
                <<"cKA", "ka">>, <<"cUpg", "upg">>, <<"cUpg", "h2s">>, <<"cHop", "pconn">>, <<"cHop", "hop", "ka">> }
NarrowResps == { <<"rClose">>, <<"rKA">>, <<"rPconn">>, <<"rUpg">>, <<"rTenc">>, <<"rCHop", "rKA">>, <<"rCHop", "rHop", "rPconn">> }
ASSUME \A r \in NarrowReqs :
         LET o == EditRequestD({"NominatedToH2"}, WitnessCfg, r, <<>>)
         IN \A i \in DOMAIN o.hdrs : o.hdrs[i].n \notin NoCrossNames /\ o.hdrs[i].v # <<Tok("teGz")>>
ASSUME \A r \in NarrowResps :
         LET o == EditResponseD({"NominatedToH2"}, WitnessH2H1, <<>>, r)
         IN \A i \in DOMAIN o.hdrs : o.hdrs[i].n \notin NoCrossNames

\* which open deviations shape the prediction of this case (for the evidence: known findings seen in replay)
DevRelevant(d, s) ==
  /\ d \in Deviations
  /\ ~FrontRejects(s.k, s.req)
  /\ CASE d = "NominatedToH2"     -> ((s.k.back = "h2c" /\ Has(s.req, {"cHop"}) /\ Has(s.req, {"hop"}))
                                       \/ (s.k.fp.front = "h2" /\ Has(s.resp, {"rCHop"}) /\ Has(s.resp, {"rHop"})))
       [] d = "H1TrailerIdentity" -> s.k.fp.front = "h1" /\ \E i \in DOMAIN s.tr : Name(s.tr[i]) \in IdentityNames
       [] d = "TrailerCorr"       -> s.k.fp.front = "h2" /\ Has(s.tr, {"tCorr"})
       [] OTHER -> FALSE

EmitCase ==
  (Emit /\ Selected(c)) =>
    PrintT(<<"REPLAY", ToJson([k |-> c.k, req |-> c.req, tr |-> c.tr, resp |-> c.resp, h |-> Hash(c),
                               found |-> StickyFound(c.k, c.req),
                               devs |-> {d \in Deviations : DevRelevant(d, c)},
                               ereq |-> EditRequest(c.k, c.req, c.tr),
                               eresp |-> EditResponse(c.k, c.req, c.resp)])>>)
=============================================================================
