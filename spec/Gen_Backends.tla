---------------------------- MODULE Gen_Backends ----------------------------
(* S->I generator for Backends.tla: TLC as generator and oracle. *)
EXTENDS MC_Backends, Json, SequencesExt

---------------------------------------------------------------------------
(* Generator: random mutation histories; after every step the spec's prediction of the whole      *)
(* state and, for every query, the set of admissible answers.                                     *)

CONSTANT Focus      \* "none" | "aff" | "backoff" (the focused generators below)
VARIABLES hist, done,
          cls       \* focused generators: the class of the next step

ObjSeq == LET ids == SetToSortSeq(Live, <)
          IN [i \in 1..Len(ids) |->
                LET b == objs[ids[i]]
                IN [oid |-> ids[i], id |-> b.id, addr |-> b.addr, backup |-> b.backup, sticky |-> b.sticky,
                    w |-> b.weight, st |-> b.status, h |-> b.healthy, cs |-> b.cs, cf |-> b.cf,
                    tries |-> b.tries, wait |-> Waiting(b), wsec |-> b.wait, age |-> b.age, left |-> Monus(b.wait, b.age),
                    conns |-> b.conns, reqs |-> b.reqs,
                    out |-> b.out, rout |-> b.rout, avail |-> AvailableB(b)]]

QuerySeq == SetToSeq(Queries)
Probes == [i \in 1..Len(QuerySeq) |->
             [key |-> QuerySeq[i][1], sticky |-> QuerySeq[i][2],
              adm |-> Admissible(QuerySeq[i][1], QuerySeq[i][2])]]

Snapshot == [step |-> last, list |-> list, objs |-> ObjSeq, policy |-> policy, metric |-> metric,
             probes |-> Probes, eligible |-> Eligible, coarse |-> Coarse(Eligible), fine |-> Fine, basis |-> basis,
             mt |-> MaxTries, ac |-> AgeCap]      \* what the replayer needs to know of the instance

GenInit == Init /\ hist = <<>> /\ done = FALSE /\ cls = 0
\* (simulation evaluates invariants on every candidate successor: the history is printed from the single
\*  successor of a complete history, so once per behaviour)
GenNext == \/ Mutate /\ hist' = Append(hist, Snapshot') /\ done' = FALSE /\ UNCHANGED cls
           \/ steps = MaxSteps /\ ~done /\ done' = TRUE /\ UNCHANGED <<vars, hist, cls>>
GenSpec == GenInit /\ [][GenNext]_<<vars, hist, done, cls>>

EmitHist == done => PrintT(<<"REPLAY", ToJson(hist)>>)

---------------------------------------------------------------------------
(* Focused generators.  TLC's simulator draws uniformly among ALL successor states, so an action with   *)
(* many instances (AddBackend: slots x configurations) crowds out the ones with few (SetPolicy, Elapse).  *)
(* Here the class of the next step is drawn first (`cls`, uniformly), then an instance of that class:    *)
(*   "aff"     - the policy object is (re)installed on a populated cluster whose eligible set keeps       *)
(*               moving (health, back-off, time), affinity policies only: the same (key, eligible set,   *)
(*               list) is reached by many different histories, which is what the replayer's memo needs;   *)
(*   "backoff" - failure / time / success sequences on few backends: a failure long after the last        *)
(*               success, a success after a failure followed at once by selections, failure streaks with   *)
(*               growing windows up to the cap of the real budget.                                         *)

NClasses == 8
AnyAdd == \E s \in Slots, c \in Configs : AddBackend(s, c)

FocusAff(c) ==
  CASE c = 1 -> AnyAdd
    [] c = 2 -> \E a \in Addrs : RemoveBackend(a)
    [] c \in {3, 4} -> \E p \in Policies \cap {"hrw", "maglev"} : SetPolicy(p, "conns")
    [] c = 5 -> IF Live # {} THEN \E o \in Live : HealthDown(o, 1) ELSE AnyAdd
    [] c = 6 -> IF Live # {} THEN \E o \in Live : HealthUp(o, 1) ELSE AnyAdd
    [] c = 7 -> IF Live # {} THEN \E o \in Live : \E w \in 1..MaxW(MaxTries) : RetryFail(o, w) ELSE AnyAdd
    [] OTHER -> \E d \in Elapses : Elapse(d)

\* just as long as the longest open window lasts (failure streaks need a failure right after the window)
MaxLeft == LET S == {Monus(objs[o].wait, objs[o].age) : o \in Live}
           IN IF S = {} THEN 0 ELSE CHOOSE m \in S : \A x \in S : x <= m

FocusBackoff(c) ==
  CASE c = 1 -> AnyAdd
    [] c \in {2, 3, 4} -> IF Live # {} THEN \E o \in Live : \E w \in 1..MaxW(MaxTries) : RetryFail(o, w) ELSE AnyAdd
    [] c = 5 -> Elapse(IF MaxLeft > 0 THEN MaxLeft ELSE 1)
    [] c = 6 -> \E d \in Elapses : Elapse(d)
    [] c = 7 -> IF Live # {} THEN \E o \in Live : RetrySucceed(o) ELSE AnyAdd
    [] OTHER -> \/ \E o \in Live, th \in Thresholds : HealthDown(o, th)
                \/ \E o \in Live, th \in Thresholds : HealthUp(o, th)
                \/ \E o \in Live : SetClosing(o)
                \/ \E p \in Policies : SetPolicy(p, "conns")

\* the first steps populate the cluster
FocusStep == IF steps < (IF Focus = "aff" THEN 3 ELSE 2) THEN AnyAdd
             ELSE IF Focus = "aff" THEN FocusAff(cls) ELSE FocusBackoff(cls)

FocusInit == Init /\ hist = <<>> /\ done = FALSE /\ cls \in 1..NClasses
FocusNext == \/ FocusStep /\ hist' = Append(hist, Snapshot') /\ done' = FALSE /\ cls' \in 1..NClasses
             \/ steps = MaxSteps /\ ~done /\ done' = TRUE /\ UNCHANGED <<vars, hist, cls>>
FocusSpec == FocusInit /\ [][FocusNext]_<<vars, hist, done, cls>>
=============================================================================
