"""C14 - sozu respects every HTTP/2 peer limit and keeps transfers moving (spec/H2Flow.tla).

1. TLC checks P_C14 (safety: windows, frame size, concurrent streams, identifiers, HPACK table size, own
   windows, progress made observable; vacuity: what sozu owes is always enabled) on small constants, for
   both roles of sozu on a connection (server of a TLS frontend / client of an h2c backend), and the
   liveness part (every body completes under a peer that eventually grants window; the peer is never
   permanently unable to send) under fairness.
2. For every open deviation (known_findings.json) TLC is re-run with it switched on and must give a
   counterexample.
3. S->I: TLC (-simulate on Gen_H2Flow, seeded) generates peer schedules (SETTINGS incl. one mid-stream
   change, WINDOW_UPDATE schedules, stream openings, sync points); they are concretised (several byte
   scales) and executed by the harness's raw H2 endpoint against a real worker.
4. I->S: seeded random and fixed boundary schedules (initial window 0 / 1 / 65 535 / 2^30, max frame
   16 384 .. 2^24-1, drips of +1, bursts, stream-only / connection-only updates, shrink mid-body, 1-4
   concurrent streams, bodies 0 .. MBs, paused readers, uploads larger than sozu's own windows).
   In 3 and 4 the endpoint owns the ledger; TLC validates every recorded connection against
   spec/Trace_H2Flow.tla (one file per role of sozu) and names the P_C14 formula that fails.
   Full-duplex schedules (fixed + seeded): the endpoint stops reading while bodies far larger than the socket
   buffers flow towards it - sozu's write blocks in the middle of a DATA frame - and keeps SENDING on the same
   connection (DATA, then PING / SETTINGS / an illegal WINDOW_UPDATE): the control frames sozu owes must wait
   for the frame boundary (P_C14_WholeFrames at the ledger; spec/H2Wire.tla is the model of the writer, TLC
   refutes each slip of that class).  The mux_ready_exit hook counts how often the situation was realised.
5. Canary (self-test of the binding): a copy of a trace with one DATA frame enlarged beyond its window must
   be rejected, otherwise exit 2.
"""
import json
import os
import re

import vlib
from props import h2wire

PID = "C14"

MC = """SPECIFICATION %(spec)s
CONSTANTS
  Role = "%(role)s"
  Ids = %(ids)s
  MaxWin = %(maxwin)d
  ConnInit = %(conninit)d
  Default <- D_Default
  SettingsVals <- %(sv)s
  HdrArgs <- %(ha)s
  MaxSettings = %(maxset)d
  Bodies = %(bodies)s
  Ups = %(ups)s
  Grants = %(grants)s
  HdrLens = %(hdrlens)s
  RecvInit = %(recvinit)d
  RecvConn = %(recvconn)d
  Reaper = %(reaper)s
  Legal = %(legal)s
  Resets = %(resets)s
  BurstMin = 2
  Deviations = %(dev)s
%(checks)s
CHECK_DEADLOCK FALSE
"""
SAFETY = ("INVARIANTS TypeOK P_C14_Windows P_C14_NewStreamWindow P_C14_FrameSize P_C14_WholeFrames P_C14_MaxStreams P_C14_StreamIds "
          "P_C14_Hpack P_C14_StreamStates P_C14_OwnWindows P_C14_Progress P_C14_NeverDropped P_C14_WriterAwake P_C14_OwedIsEnabled\n"
          "PROPERTIES P_C14_WindowSteps")
ACTIONS = ["Peer_Settings", "Peer_Open", "Peer_Respond", "Peer_WindowUpdate", "Peer_SendData", "Peer_Starve", "Peer_Rst", "Sozu_Settings",
           "Sozu_AckSettings", "Sozu_Goaway", "Sozu_Rst", "Sozu_SendHeaders", "Sozu_SendCont", "Sozu_SendData", "Sozu_WindowUpdate",
           "Sozu_Park", "Env_Stall"]
# slips of the class "an event that reopens a send window does not wake the (event-driven) writer": switches of H2Flow.tla that
# are never on in conformance; TLC must refute each of them (self-test of P_C14_WriterAwake / the liveness clause)
WAKE_SLIPS = ["WuWakesFromZeroOnly", "AckWakesFromZeroOnly"]
LIVE = "INVARIANTS TypeOK\nPROPERTIES P_C14_BodiesComplete P_C14_PeerNeverStuck"

TRACE_CFG = """SPECIFICATION TraceSpec
CONSTANTS
  Role = "%(role)s"
  Ids <- TraceIds
  MaxWin = 2147483647
  ConnInit = 65535
  Default <- TraceDefault
  SettingsVals <- TraceNone
  MaxSettings = 1000000
  Bodies <- TraceNone
  Ups <- TraceNone
  Grants <- TraceNone
  HdrLens <- TraceNone
  RecvInit = 65535
  RecvConn = 1048576
  Reaper = TRUE
  Legal = FALSE
  Resets = TRUE
  BurstMin = 2500
  Deviations = %(dev)s
CONSTRAINT Track
POSTCONDITION TraceAccepted
CHECK_DEADLOCK FALSE
"""

GEN_CFG = """SPECIFICATION GenSpec
CONSTANTS
  Role = "%(role)s"
  Ids = %(ids)s
  MaxWin = 4
  ConnInit = 2
  Default <- D_Default
  SettingsVals <- SV_Gen
  HdrArgs <- HA_Plain
  MaxSettings = %(maxset)d
  Bodies = %(bodies)s
  Ups = %(ups)s
  Grants = {1, 2}
  HdrLens = {1}
  RecvInit = 2
  RecvConn = 2
  Reaper = FALSE
  Legal = TRUE
  Resets = FALSE
  BurstMin = 2
  Deviations = {}
  MaxHist = %(maxhist)d
CHECK_DEADLOCK FALSE
"""


def tla(xs):
    if isinstance(xs, (set, list, tuple)):
        return "{" + ", ".join(tla(x) for x in sorted(xs)) + "}"
    if isinstance(xs, bool):
        return "TRUE" if xs else "FALSE"
    if isinstance(xs, str):
        return '"%s"' % xs
    return str(xs)


def write(path, text):
    with open(path, "w") as f:
        f.write(text)
    return path


def mc_cfg(wd, name, checks=SAFETY, spec="Spec", role="server", ids=(1, 3), maxwin=4, conninit=2, sv="SV_Win",
           ha="HA_Plain", maxset=2, bodies=(3,), ups=(0,), grants=(1, 2), hdrlens=(1,), recvinit=2, recvconn=2,
           reaper=False, legal=True, dev=(), resets=False):
    return write(os.path.join(wd, name), MC % {
        "spec": spec, "role": role, "ids": tla(list(ids)), "maxwin": maxwin, "conninit": conninit, "sv": sv, "ha": ha,
        "maxset": maxset, "bodies": tla(list(bodies)), "ups": tla(list(ups)), "grants": tla(list(grants)),
        "hdrlens": tla(list(hdrlens)), "recvinit": recvinit, "recvconn": recvconn, "reaper": tla(reaper),
        "legal": tla(legal), "resets": tla(resets), "dev": tla(list(dev)), "checks": checks})


def model_configs(wd, thorough):
    """(name, path) - every config is small enough for its tier."""
    c = []
    # send windows: 2 streams, one mid-stream SETTINGS change (shrink below in-flight, grow), every WINDOW_UPDATE schedule
    if thorough:
        c.append(("windows-2streams", mc_cfg(wd, "mc_win2.cfg", ids=(1, 3), bodies=(3,), maxwin=4, grants=(1, 2))))
    else:
        c.append(("windows-2streams", mc_cfg(wd, "mc_win2.cfg", ids=(1, 3), bodies=(2,), maxwin=2, grants=(1, 2))))
    # one stream, full window range, body up to 4, both frame sizes and every initial window incl. 0
    # (the peer may also give the stream up: Resets)
    c.append(("windows-1stream", mc_cfg(wd, "mc_win1.cfg", ids=(1,), bodies=(0, 4) if thorough else (3,), sv="SV_Send", ha="HA_Upd",
                                        maxwin=4 if thorough else 3, grants=(1, 2), legal=True, resets=True)))
    # SETTINGS_INITIAL_WINDOW_SIZE changed again and again under in-flight data: three SETTINGS frames (decrease below
    # the bytes already sent => negative window, WINDOW_UPDATE that crosses zero in one step, increase from <= 0)
    c.append(("windows-resettings", mc_cfg(wd, "mc_reset.cfg", ids=(1,), bodies=(3,), sv="SV_Win", maxwin=4 if thorough else 3,
                                           grants=(1, 2) if not thorough else (1, 2, 3), maxset=3)))
    # illegal WINDOW_UPDATEs (overflow), the reaper, error answers
    c.append(("errors-reaper", mc_cfg(wd, "mc_err.cfg", ids=(1,), bodies=(2,), sv="SV_Small", ha="HA_Upd", maxwin=3, grants=(1, 3),
                                      reaper=True, legal=False, maxset=1 if not thorough else 2, resets=True)))
    # sozu as the client of an h2c backend: stream limit, identifiers, header blocks in two frames, HPACK table
    c.append(("client-limits", mc_cfg(wd, "mc_cli.cfg", role="client", ids=(1, 3), bodies=(0, 1), ups=(0, 1) if thorough else (0,),
                                      sv="SV_Limits", ha="HA_All", maxwin=2, grants=(1,), hdrlens=(1, 2), recvinit=1, recvconn=2,
                                      maxset=2 if thorough else 1)))
    # receive side: sozu's own windows (enlargement, credits at the threshold, per-frame stream credits)
    c.append(("receive", mc_cfg(wd, "mc_recv.cfg", ids=(1, 3) if thorough else (1,), bodies=(0,), ups=(0, 3), sv="SV_One", maxwin=4,
                                grants=(1,), recvinit=2, recvconn=4, conninit=2, maxset=1, resets=not thorough)))
    return c


def live_configs(wd, thorough):
    if not thorough:
        return [("live-server", mc_cfg(wd, "mc_live_s.cfg", checks=LIVE, spec="FairSpec", ids=(1,), bodies=(2,), ups=(1,), sv="SV_Win",
                                       maxwin=2, conninit=1, grants=(1,), recvinit=1, recvconn=2, maxset=1, resets=True)),
                ("live-client", mc_cfg(wd, "mc_live_c.cfg", checks=LIVE, spec="FairSpec", role="client", ids=(1,), bodies=(1,), ups=(1,),
                                       sv="SV_Win", maxwin=2, conninit=1, grants=(1,), recvinit=1, recvconn=2, maxset=1))]
    return [("live-server", mc_cfg(wd, "mc_live_s.cfg", checks=LIVE, spec="FairSpec", ids=(1,), bodies=(2,), ups=(2,), sv="SV_Win",
                                   maxwin=3, conninit=1, grants=(1,), recvinit=1, recvconn=2, resets=True)),
            ("live-client", mc_cfg(wd, "mc_live_c.cfg", checks=LIVE, spec="FairSpec", role="client", ids=(1,), bodies=(2,), ups=(1,),
                                   sv="SV_Small", ha="HA_Upd", maxwin=3, conninit=1, grants=(1,), recvinit=1, recvconn=2, maxset=1)),
            ("live-2streams", mc_cfg(wd, "mc_live_2.cfg", checks=LIVE, spec="FairSpec", ids=(1, 3), bodies=(2,), ups=(0,),
                                     sv="SV_Small", ha="HA_Upd", maxwin=2, conninit=1, grants=(1,), recvinit=1, recvconn=1, maxset=1))]


# ------------------------------------------------------------------------------------------------
# S->I: TLC-generated schedules, concretised

SCALES = [
    # (bytes per model unit, max frame for model value 1, for 2, upload unit)
    (16384, 16384, 32768),
    (16385, 16384, 65536),
    (30000, 16385, 16777215),
    (100, 16384, 20000),
    (65535, 32768, 16384),
]


def concretise(hist, role, sid, variant):
    """abstract schedule (list of records printed by Gen_H2Flow) -> scenario for drive_h2flow"""
    unit, f1, f2 = SCALES[variant % len(SCALES)]
    frame = {1: f1, 2: f2}
    tbl = {0: 0, 1: 4096}
    ops = []
    streams = []
    slot_of = {}
    first = True
    for h in hist:
        op = h["op"]
        if op == "settings":
            o = {"op": "settings", "initWin": h["initWin"] * unit, "maxFrame": frame[h["maxFrame"]], "tbl": tbl[h["tbl"]]}
            o["maxStreams"] = 100 if role == "server" else h["maxStreams"]
            ops.append(o)
            if first and role == "server":
                ops.append({"op": "sync"})
            first = False
        elif op == "open":
            if first:
                ops += [{"op": "settings"}, {"op": "sync"}]
                first = False
            slot_of[h["sid"]] = len(streams) + 1
            streams.append({"down": h["b"] * unit + (variant % 3) - 1 if h["b"] else 0, "up": h["u"] * 20000})
            ops.append({"op": "open", "down": streams[-1]["down"], "up": streams[-1]["up"]})
        elif op == "wu" and h["sid"] != 0 and h.get("w", 0) < 0 < h.get("w", 0) + h["n"]:
            # the update that lifts a negative window above zero in the model does so on the wire too, whatever the
            # race between sozu's DATA and the peer's SETTINGS made of the real window: the endpoint computes the
            # increment from its ledger (op wu-cross) once sozu has acknowledged the SETTINGS and drained
            ops += [{"op": "sync"}, {"op": "wu-cross", "slot": slot_of.get(h["sid"], (h["sid"] + 1) // 2), "extra": (h["w"] + h["n"]) * unit}]
        elif op == "wu":
            ops.append({"op": "wu", "slot": 0 if h["sid"] == 0 else slot_of.get(h["sid"], (h["sid"] + 1) // 2), "n": h["n"] * unit})
        elif op == "sync":
            ops.append({"op": "sync"})
    if not ops or ops[0]["op"] != "settings":
        ops = [{"op": "settings"}] + ([{"op": "sync"}] if role == "server" else []) + ops
    modes = [{"mode": "drip", "k": max(1, unit // 3)}, {"mode": "burst", "k": 1 << 20}, {"mode": "eager"}, {"mode": "burst", "k": unit}]
    fin = dict(modes[variant % len(modes)])
    fin["op"] = "finish"
    ops.append(fin)
    sc = {"id": sid, "kind": "front" if role == "server" else "back", "front": "h2", "listener": "tls",
          "label": "tlc:%s:v%d" % (role, variant), "streams": streams,
          "peer": {"ops": ops, "up_chunk": 16384, "pad": 0}, "driver": {"up_chunk": 16384}, "deadline_ms": 90000}
    return sc


def generate_schedules(rep, wd, thorough):
    out = []
    seen = set()
    # (role, Ids, Bodies, Ups, simulated behaviours per TLC worker, schedules kept, SETTINGS frames, class filter)
    # class "resettings": SETTINGS_INITIAL_WINDOW_SIZE changed under in-flight data - only schedules with a WINDOW_UPDATE
    # that finds a NEGATIVE window and lifts it above zero in one step, or with three SETTINGS frames, are kept
    plans = [("server", "{1, 3}", "{0, 2, 3}", "{0, 1}", 60 if not thorough else 400, 70 if not thorough else 600, 2, False),
             ("client", "{1, 3}", "{1, 3}", "{0, 1}", 30 if not thorough else 150, 30 if not thorough else 250, 2, False),
             ("server", "{1, 3}", "{2, 3}", "{0}", 800 if not thorough else 4000, 24 if not thorough else 200, 3, True),
             ("client", "{1, 3}", "{3}", "{0}", 600 if not thorough else 3000, 12 if not thorough else 100, 3, True)]
    sid = 30000
    for role, ids, bodies, ups, num, keep, maxset, focus in plans:
        cfg = write(os.path.join(wd, "gen_%s%s.cfg" % (role, "_rs" if focus else "")),
                    GEN_CFG % {"role": role, "ids": ids, "bodies": bodies, "ups": ups, "maxhist": 14 if not focus else 18, "maxset": maxset})
        g = vlib.tlc("Gen_H2Flow", cfg, PID, workers=2, timeout=240, simulate="num=%d" % num, depth=80, want_replay=True)
        if g["violated"]:
            raise vlib.ToolError("generator run reported %s" % g["violated"])
        rep.cov["transitions"] += g["generated"]
        n_role = 0
        n_cross = 0
        def crosses(hist):
            return any(h["op"] == "wu" and h["sid"] != 0 and h.get("w", 0) < 0 < h.get("w", 0) + h["n"] for h in hist)
        replays = g["replays"]
        if focus:
            # class weighting: the (rare, ~1 in 80) behaviours with a crossing update first, at most 2/3 of what is kept
            first = [h for h in replays if crosses(h)][: max(1, 2 * keep // 3)]
            replays = first + [h for h in replays if not crosses(h)]
        for hist in replays:
            peer_ops = [h for h in hist if h["op"] != "sync"]
            if role == "server" and not any(h["op"] == "open" for h in hist):
                continue
            if role == "client":
                # the streams of a backend connection are opened by the cooperative client: 1..2 uploads
                nstreams = len({h["sid"] for h in hist if h["op"] == "wu" and h["sid"] != 0}) or 1
            crossing = crosses(hist)
            if focus and not (crossing or len([h for h in hist if h["op"] == "settings"]) >= 3):
                continue
            key = (role, json.dumps([{k: v for k, v in h.items() if k != "w"} for h in hist], sort_keys=True))
            if key in seen or not peer_ops:
                continue
            seen.add(key)
            sid += 1
            sc = concretise(hist, role, sid, vlib.seed() + n_role)
            if focus:
                sc["label"] = sc["label"].replace("tlc:", "tlc:resettings%s:" % ("-cross" if crossing else ""))
                n_cross += 1 if crossing else 0
            if role == "client":
                unit = SCALES[(vlib.seed() + n_role) % len(SCALES)][0]
                sc["streams"] = [{"down": 1000 * k, "up": (2 + k) * unit + k} for k in range(min(2, nstreams))]
                sc["front"] = "h2"
            out.append(sc)
            n_role += 1
            if n_role >= keep:
                break
        vlib.log("generator %s%s: %d behaviours, %d distinct schedules%s" % (
            role, " (SETTINGS under in-flight data)" if focus else "", g["n_replays"], n_role,
            ", %d with a WINDOW_UPDATE that lifts a negative window above zero" % n_cross if focus else ""))
        if focus and n_cross == 0:
            raise vlib.ToolError("generator %s: no schedule in which a WINDOW_UPDATE crosses zero from a negative window" % role)
    return out


# ------------------------------------------------------------------------------------------------
# trace validation

_RE_VERDICT = re.compile(r'<<"VERDICT", "(.*)">>')
# uses of an open deviation by the trace, one TLC register (and one line of the POSTCONDITION) per deviation
_RE_DEVUSED = {"LoopBudget": re.compile(r'<<"DEVIATIONS-USED", (\d+)>>'),
               "ResetDropsFrameTail": re.compile(r'<<"DEVIATION-RESETDROP-USED", (\d+)>>')}
# open deviation -> id of the finding in known_findings.json
DEV_FINDING = {"LoopBudget": "loop-budget-drops-connection", "ResetDropsFrameTail": "reset-drops-frame-tail"}


def split_runs(path):
    runs = []
    with open(path) as f:
        for line in f:
            line = line.rstrip("\n")
            if not line:
                continue
            if '"ev":"reset"' in line:
                runs.append([])
            if runs:
                runs[-1].append(line)
    return runs


def verdict_of(t):
    m = _RE_VERDICT.search(t["out"])
    if not m:
        return None
    return json.loads(json.loads('"' + m.group(1) + '"'))


def validate(rep, wd, role, runs, devs, tag, max_rounds=8):
    """Validate the runs (lists of ndjson lines) of one role; returns (accepted runs, violations).
    Trace_H2Flow stops at the first state in which a P_C14 formula (or T_Conforms) is false and names it;
    the violating run is then set aside and the rest validated again."""
    cfg = write(os.path.join(wd, "trace_%s.cfg" % role), TRACE_CFG % {"role": role, "dev": tla(list(devs))})
    violations = []
    accepted = 0
    remaining = list(runs)
    rounds = 0
    while remaining:
        rounds += 1
        path = os.path.join(wd, "trace_%s_%s_%d.ndjson" % (tag, role, rounds))
        with open(path, "w") as f:
            for r in remaining:
                f.write("\n".join(r) + "\n")
        total = sum(len(r) for r in remaining)
        t = vlib.tlc_trace("Trace_H2Flow", cfg, PID, path, timeout=900)
        rep.cov["states"] += t["distinct"]
        rep.cov["transitions"] += t["generated"]
        if rounds == 1:
            for d in devs:
                m = _RE_DEVUSED[d].search(t["out"]) if d in _RE_DEVUSED else None
                for _ in range(int(m.group(1)) if m else 0):
                    rep.known_finding_seen(DEV_FINDING.get(d, d))
        if t["accepted"] and t["consumed"] == total:
            accepted += len(remaining)
            break
        v = verdict_of(t)
        if v is None:
            raise vlib.ToolError("trace validation of %s rejected the trace without a verdict" % path)
        idx = v["at"]                      # 1-based index of the event that led to the failing state
        pos = 0
        k = 0
        for k, r in enumerate(remaining):
            if pos + len(r) >= idx:
                break
            pos += len(r)
        culprit = remaining[k]
        head = json.loads(culprit[0])
        failed = sorted(v.get("failed") or ["rejected"])
        klass = failed[0]
        if klass == "T_Conforms" and v.get("bad"):
            klass = "T_Conforms:" + str(v["bad"][1])
        ev = json.loads(culprit[min(len(culprit) - 1, max(0, idx - pos - 1))]) if idx > pos else {}
        violations.append({"class": klass, "failed": failed, "role": role, "label": head.get("label"), "scen": head.get("scen"),
                           "run": head.get("run"), "event_index": idx - pos, "event": ev, "ledger": v.get("state"), "trace": culprit})
        accepted += k
        remaining = remaining[k + 1:]
        if rounds >= max_rounds:
            vlib.log("trace validation: stopping after %d violating connections (%d connections not examined)" % (rounds, len(remaining)))
            break
    return accepted, violations


def canary(wd, role, runs, devs):
    """a DATA frame enlarged past the window must be rejected"""
    for r in runs:
        evs = [json.loads(x) for x in r]
        for j, e in enumerate(evs):
            if e.get("ev") == "SozuData" and e.get("n", 0) > 0:
                evs[j] = dict(e, n=e["n"] + 2000000000)
                path = os.path.join(wd, "canary_%s.ndjson" % role)
                with open(path, "w") as f:
                    for x in evs:
                        f.write(json.dumps(x) + "\n")
                cfg = write(os.path.join(wd, "trace_canary_%s.cfg" % role), TRACE_CFG % {"role": role, "dev": tla(list(devs))})
                t = vlib.tlc_trace("Trace_H2Flow", cfg, PID, path, timeout=300)
                v = verdict_of(t)
                if t["accepted"] or not v or "P_C14_Windows" not in v.get("failed", []):
                    raise vlib.ToolError("canary: a trace with an oversized DATA frame was accepted by Trace_H2Flow")
                return "P_C14_Windows"
    return None


_RE_PANIC_AT = re.compile(r"panicked at ([^\s:]+):(\d+):\d+:")
_RE_REGISTRY = re.compile(r"^.*/registry/src/[^/]+/([A-Za-z0-9_-]+?)-\d+\.\d+\.\d+[^/]*/(?:src/)?(.*)$")
_RE_SOZU_SRC = re.compile(r"^.*/((?:lib|command|bin)/src/.*)$")
_RE_SOZU_FRAME = re.compile(r"^\s*\d+:\s+(.*sozu_lib::.*)$")


def panic_class(summ):
    """class of a worker-thread panic = panic location (registry / checkout prefix and crate version removed) +
    innermost function of sozu on the stack: `worker-panic:kawa/storage/repr.rs:612:flush_stream_out`.
    A different call site (or a different line of the same crate) is a different class, so an open finding that lists
    one panic never hides another."""
    msg = summ.get("worker_panic") or ""
    entries = [p for p in summ.get("panics") or [] if msg and msg in p]
    # the worker's panic is the one whose stack goes through the event loop of sozu
    entries.sort(key=lambda p: 0 if "sozu_lib::server::Server" in p else 1)
    if not entries:
        return "worker-panic", None
    head, _, stack = entries[0].partition(" | ")
    m = _RE_PANIC_AT.search(head)
    if not m:
        return "worker-panic", entries[0]
    path, line = m.group(1), m.group(2)
    r = _RE_REGISTRY.match(path)
    s = _RE_SOZU_SRC.match(path)
    if r:
        path = "%s/%s" % (r.group(1), r.group(2))
    elif s:
        path = "sozu/" + s.group(1)
    func = "?"
    for fr in stack.split(" <- "):
        f = _RE_SOZU_FRAME.match(fr)
        if not f:
            continue
        name = f.group(1).strip()
        name = re.sub(r"::\{\{closure\}\}", "", name)
        name = re.sub(r"::h[0-9a-f]{16}$", "", name)
        func = re.sub(r"<[^<>]*>", "", name.rsplit("::", 1)[-1]) or "?"
        break
    return "worker-panic:%s:%s:%s" % (path, line, func), entries[0]


def run(tier, replay=None):
    rep = vlib.Report(PID, tier)
    wd = vlib.workdir(PID)
    thorough = tier == "thorough"
    bins = vlib.cargo_build(["drive_h2flow"])
    devs = vlib.open_deviations(PID)
    workers = 12 if thorough else 6

    if replay:
        # a saved violation: one run of one role
        with open(replay) as f:
            v = json.load(f)
        acc, viol = validate(rep, wd, v["role"], [v["trace"]], devs, "replay")
        for x in viol:
            rep.violation(x["class"], "%s at event %d of %s" % (x["class"], x["event_index"], x["label"]), x)
        rep.cov["traces_validated_against_impl"] = acc
        rep.finish()

    # 1. design level
    taken = {}
    for name, cfg in model_configs(wd, thorough):
        r = vlib.tlc("MC_H2Flow", cfg, PID, workers=workers, timeout=2400 if thorough else 400, coverage=thorough)
        rep.add_tlc(r)
        for a, (_d, n) in r["actions"].items():
            taken[a] = taken.get(a, 0) + n
        if r["violated"]:
            rep.violation("spec:" + r["violated"], "the specification itself violates %s (%s)" % (r["violated"], name), r["out"])
    if thorough:
        # vacuity: every action of the spec is taken in at least one of the bounded configurations
        dead = [a for a in ACTIONS if taken.get(a, 0) == 0]
        if dead:
            raise vlib.ToolError("vacuous model runs: actions never taken in any configuration: %s" % dead)
    for name, cfg in live_configs(wd, thorough):
        r = vlib.tlc("MC_H2Flow", cfg, PID, workers=workers, timeout=2400 if thorough else 400)
        rep.add_tlc(r)
        if r["violated"]:
            rep.violation("spec:" + r["violated"], "the specification itself violates %s (%s)" % (r["violated"], name), r["out"])
    # 2. every open deviation still breaks the property in the model
    for d in devs:
        rd = vlib.tlc("MC_H2Flow", mc_cfg(wd, "mc_dev_%s.cfg" % d, role="server", ids=(1,), bodies=(2,), ups=(0,), sv="SV_One",
                                          maxwin=2, grants=(1,), dev=(d,), maxset=1, resets=True), PID, workers=workers, timeout=600)
        rep.add_tlc(rd)
        if not rd["violated"]:
            raise vlib.ToolError("deviation %s no longer violates P_C14 in the model" % d)
        vlib.log("deviation %s: TLC counterexample to %s as expected" % (d, rd["violated"]))

    # 2a. self-test: every slip of the class "a reopened window does not wake the writer" is refuted by TLC
    for d in WAKE_SLIPS:
        rd = vlib.tlc("MC_H2Flow", mc_cfg(wd, "mc_slip_%s.cfg" % d, ids=(1,), bodies=(3,), sv="SV_Win", maxwin=3, grants=(1, 2), dev=(d,),
                                          maxset=3), PID, workers=workers, timeout=600)
        rep.add_tlc(rd)
        if rd["violated"] != "P_C14_WriterAwake":
            raise vlib.ToolError("slip %s is not refuted by P_C14_WriterAwake (TLC: %s)" % (d, rd["violated"]))
        vlib.log("slip %s: TLC counterexample to %s as expected" % (d, rd["violated"]))
        if not thorough and d != WAKE_SLIPS[0]:
            continue
        # ... and breaks the liveness clause (quick tier: the first slip only, on the smallest constants that reach a negative window)
        rl = vlib.tlc("MC_H2Flow", mc_cfg(wd, "mc_slip_live_%s.cfg" % d, checks=LIVE, spec="FairSpec", ids=(1,), bodies=(2,), ups=(0,),
                                          sv="SV_Win", maxwin=2, conninit=1 if thorough else 2, grants=(1, 2) if thorough else (2,), recvinit=1,
                                          recvconn=2, dev=(d,), maxset=2),
                      PID, workers=workers, timeout=600)
        rep.add_tlc(rl)
        if rl["violated"] != "P_C14_BodiesComplete":
            raise vlib.ToolError("slip %s does not break P_C14_BodiesComplete under fairness (TLC: %s)" % (d, rl["violated"]))

    # 2b. the writer of the connection (spec/H2Wire.tla): whole frames only, every slip of that class refuted
    h2wire.check(rep, wd, PID, thorough)

    # 3. + 4. schedules against a real worker
    scen_path = os.path.join(wd, "tlc_scenarios.ndjson")
    tlc_scen = generate_schedules(rep, wd, thorough)
    with open(scen_path, "w") as f:
        for s in tlc_scen:
            f.write(json.dumps(s) + "\n")
    out_s = os.path.join(wd, "impl_server.ndjson")
    out_c = os.path.join(wd, "impl_client.ndjson")
    res = vlib.run_harness(bins["drive_h2flow"],
                           ["--seed", str(vlib.seed()), "--tier", tier, "--scenarios", scen_path, "--fixed",
                            "--random", str(400 if thorough else 70), "--duplex", str(30 if thorough else 6), "--threads", "8" if thorough else "6",
                            "--out-server", out_s, "--out-client", out_c], timeout=2400 if thorough else 900)
    summ = [o for o in res if o.get("kind") == "summary"]
    if not summ:
        raise vlib.ToolError("drive_h2flow produced no summary")
    summ = summ[0]
    runs_meta = [o for o in res if o.get("kind") == "run"]
    vlib.log("drive_h2flow: %d scenarios, %d connections (%d done, %d closed, %d stalled, %d garbled, %d inconclusive), %.1f MB of DATA, %.1fs" % (
        summ["scenarios"], summ["runs"], summ["done"], summ["closed"], summ["stall"], summ.get("garbled", 0), summ["inconclusive"],
        summ["data_bytes"] / 1e6, summ["wall_s"]))
    vlib.log("sidecar liveness probes (silence of sozu while the ledger says it owes a frame): %d" % summ.get("sidecar_probes", 0))
    rep.extra["sidecar_liveness_probes"] = summ.get("sidecar_probes", 0)
    half = (summ.get("half_frame_wu_pending", 0), summ.get("half_frame_zero_deferred", 0))
    vlib.log("full-duplex schedules: %d park snapshots with a half-written stream frame and WINDOW_UPDATEs queued behind it, %d with an answer "
             "deferred in the zero buffer" % half)
    if summ.get("worker_panic"):
        klass, where = panic_class(summ)
        vlib.log("the worker thread panicked (%s): %d schedules were not started against the dead worker" % (klass, summ.get("not_started", 0)))
        rep.violation(klass,"the worker thread panicked: %s%s" % (summ["worker_panic"], (" - " + where.split(" | ")[0].replace("\n", " ")) if where else ""), summ)
    for o in res:
        if o.get("kind") == "harness-panic":
            raise vlib.ToolError("harness panic in scenario %s: %s" % (o.get("label"), o.get("msg")))
    if summ.get("worker_wedged"):
        # P_C14_Progress at the scale of the worker: nothing moves any more, on any connection
        rep.violation("worker-wedged", "%s (%d connections could not be judged)" % (summ["worker_wedged"], summ["inconclusive"]), summ)
    incon = summ["inconclusive"] + len([o for o in res if o.get("kind") == "note"])
    # (a dead or wedged worker explains the connections that could not be judged: a violation, never a tool error)
    # (so do stalled / garbled connections: the other endpoints of their scenarios give up; judged after the trace validation,
    # a tool error never takes the place of a violation)
    too_many_incon = (not summ.get("worker_wedged") and not summ.get("worker_panic") and (summ["runs"] == 0 or incon * 5 > summ["runs"]))
    if too_many_incon and summ["runs"] == 0:
        raise vlib.ToolError("drive_h2flow validated no connection at all")

    total_acc = 0
    labels = set()
    for role, path in (("server", out_s), ("client", out_c)):
        runs = split_runs(path)
        if not runs:
            continue
        can = canary(wd, role, runs, devs)
        if can:
            vlib.log("canary (%s): rejected with %s as expected" % (role, can))
        acc, viol = validate(rep, wd, role, runs, devs, "impl")
        total_acc += acc
        for r in runs:
            labels.add(json.loads(r[0]).get("label"))
        for x in viol:
            rep.violation(x["class"], "%s: %s at event %d (%s) of connection %s [%s]" % (
                x["role"], x["class"], x["event_index"], json.dumps(x["event"])[:120], x["run"], x["label"]), x,
                name="violation_%s_%s.json" % (x["role"], x["run"]))
    if too_many_incon and not rep.violations:
        raise vlib.ToolError("too many inconclusive connections (%d of %d): machine overloaded or the worker is wedged" % (incon, summ["runs"]))
    # vacuity guard of the full-duplex schedules (never in the way of a violation): on a tree where the property holds
    # the hook must have shown the situation they exist for - a control frame waiting behind a half-written stream frame
    if not rep.violations and half[0] == 0:
        raise vlib.ToolError("the full-duplex schedules never blocked a write inside a frame with WINDOW_UPDATEs pending "
                             "(mux_ready_exit hook: ew >= 0 and wu > 0 never seen): machine too slow / socket buffers changed?")
    rep.extra["half_written_frame_with_pending_window_updates_snapshots"] = half[0]
    rep.extra["half_written_frame_with_deferred_zero_answer_snapshots"] = half[1]
    rep.cov["traces_validated_against_impl"] = total_acc
    rep.cov["evaluations"] = sum(o.get("events", 0) for o in runs_meta)
    rep.cov["distinct_nontrivial"] = len(labels)
    rep.cov["rule"] = ("distinct_nontrivial = distinct schedules (label = origin: TLC-generated with its concretisation variant, fixed "
                       "boundary schedule, or seeded random schedule with its parameters) whose connections were validated by TLC; "
                       "traces_validated_against_impl = connections (runs) accepted by Trace_H2Flow; evaluations = ledger events")
    rep.extra["inconclusive_connections"] = incon
    rep.extra["tlc_generated_schedules"] = len(tlc_scen)
    rep.extra["data_megabytes_through_sozu"] = round(summ["data_bytes"] / 1e6, 1)
    by_origin = {}
    for o in runs_meta:
        if o.get("outcome") in ("done", "closed"):
            by_origin.setdefault(str(o.get("label", "")).split(":")[0], []).append(
                "%s [sozu as %s, %d ledger events, %d streams, %s]" % (o.get("label"), o.get("role"), o.get("events", 0), o.get("streams", 0), o.get("outcome")))
    for origin in ("fixed", "tlc", "rand"):  # "rand:duplex:..." labels count as rand, "fixed:...:duplex-..." as fixed
        rep.add_samples(by_origin.get(origin, [])[:: max(1, len(by_origin.get(origin, [])) // 3)], 3)
    rep.assumptions += [
        "a peer WINDOW_UPDATE is entered in the ledger when it is sent and new SETTINGS when sozu acknowledges them (exact for shrinks, never stricter than the wire for growth)",
        "liveness in the implementation is observed, not proved: a stall is recorded only if the worker (one event loop) answered two PING round trips on a SIDECAR connection begun after the peer's last frame - nothing is sent on the checked connection, a frame there would wake sozu's writer - and the checked connection stayed silent for the grace period, twice, while the ledger says sozu owes a frame; an unanswered sidecar makes the connection inconclusive",
        "TLC's model is bounded (windows <= 4, two streams, bodies <= 4, at most two SETTINGS); real sizes (2^31-1 windows, MB bodies, 2^24-1 frames) are reached only through trace validation of sampled schedules",
        "the checked peer stays below sozu's flood thresholds (C15): at most 30 connection-level WINDOW_UPDATEs per second, a PING round trip every 1000 frames, bodies cut into at most ~200 frames - except the two schedules that reproduce the open finding LoopBudget",
        "the origin behind sozu (mock HTTP/1.1 server, cooperative H2 client) is prompt; sozu's stall reaper is allowed once the peer's clock shows a stream window-blocked for half the configured h2_stream_idle_timeout",
    ]
    rep.finish()
