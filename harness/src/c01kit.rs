//! C01 kit (included with #[path] by drive_relay / replay_relay): position-coded bodies, non-blocking
//! plain / TLS byte streams, HTTP/1.1 wire codec (Content-Length, chunked, close-delimited), event log,
//! worker-idle monitor, worker set-up with the four protocol pairs.
#![allow(dead_code)]

use std::collections::{HashMap, VecDeque};
use std::io::{Read, Write};
use std::net::{SocketAddr, TcpStream};
use std::os::unix::io::AsRawFd;
use std::sync::atomic::{AtomicBool, AtomicU64, Ordering};
use std::sync::{Arc, Mutex};
use std::time::{Duration, Instant};

use serde_json::{Value, json};

// ------------------------------------------------------------------------------------------------
// rng

#[derive(Clone)]
pub struct Rng(pub u64);
impl Rng {
    pub fn next(&mut self) -> u64 {
        self.0 = self.0.wrapping_add(0x9E37_79B9_7F4A_7C15);
        mix(self.0)
    }
    pub fn below(&mut self, n: u64) -> u64 {
        if n == 0 { 0 } else { self.next() % n }
    }
    pub fn pick<T: Copy>(&mut self, xs: &[T]) -> T {
        xs[self.below(xs.len() as u64) as usize]
    }
    pub fn chance(&mut self, num: u64, den: u64) -> bool {
        self.below(den) < num
    }
}

#[inline]
pub fn mix(mut z: u64) -> u64 {
    z = (z ^ (z >> 30)).wrapping_mul(0xBF58_476D_1CE4_E5B9);
    z = (z ^ (z >> 27)).wrapping_mul(0x94D0_49BB_1331_11EB);
    z ^ (z >> 31)
}

// ------------------------------------------------------------------------------------------------
// position code: byte i of message (seed, stream, dir) is a fixed function of (seed, stream, dir, i)

#[derive(Clone, Copy, Debug)]
pub struct Code {
    key: u64,
}
impl Code {
    pub fn new(seed: u64, stream: u32, dir: u8) -> Code {
        Code { key: mix(seed ^ ((stream as u64) << 32) ^ ((dir as u64 + 1) << 56)) }
    }
    #[inline]
    fn block(&self, blk: u64) -> u64 {
        mix(self.key ^ blk.wrapping_mul(0x9E37_79B9_7F4A_7C15))
    }
    #[inline]
    pub fn at(&self, i: u64) -> u8 {
        (self.block(i >> 3) >> ((i & 7) * 8)) as u8
    }
    pub fn fill(&self, off: u64, buf: &mut [u8]) {
        let mut i = off;
        let mut k = 0;
        while k < buf.len() {
            let b = self.block(i >> 3).to_le_bytes();
            let start = (i & 7) as usize;
            let n = (8 - start).min(buf.len() - k);
            buf[k..k + n].copy_from_slice(&b[start..start + n]);
            k += n;
            i += n as u64;
        }
    }
    /// absolute offset of the first byte that differs from the code, or -1
    pub fn first_bad(&self, off: u64, buf: &[u8]) -> i64 {
        let mut i = off;
        let mut k = 0;
        while k < buf.len() {
            let b = self.block(i >> 3).to_le_bytes();
            let start = (i & 7) as usize;
            let n = (8 - start).min(buf.len() - k);
            if buf[k..k + n] != b[start..start + n] {
                for j in 0..n {
                    if buf[k + j] != b[start + j] {
                        return (i + j as u64) as i64;
                    }
                }
            }
            k += n;
            i += n as u64;
        }
        -1
    }
}

// ------------------------------------------------------------------------------------------------
// non-blocking byte streams

#[derive(Debug, Clone, PartialEq)]
pub enum IoRes {
    N(usize),
    WouldBlock,
    Eof,
    Err(String),
}

pub trait Io: Send {
    fn rd(&mut self, buf: &mut [u8]) -> IoRes;
    /// returns N(k) with k possibly 0 when nothing can be accepted now
    fn wr(&mut self, buf: &[u8]) -> IoRes;
    /// push bytes buffered below the application (TLS records); true when nothing is left
    fn flush(&mut self) -> bool;
    fn fd(&self) -> i32;
    /// plaintext already decrypted and waiting (TLS); poll() would not report it
    fn has_buffered_input(&self) -> bool {
        false
    }
    fn shutdown_wr(&mut self);
    fn abort(&mut self);
}

pub struct PlainIo(pub TcpStream);
impl PlainIo {
    pub fn new(s: TcpStream) -> PlainIo {
        s.set_nonblocking(true).ok();
        s.set_nodelay(true).ok();
        PlainIo(s)
    }
}
impl Io for PlainIo {
    fn rd(&mut self, buf: &mut [u8]) -> IoRes {
        match self.0.read(buf) {
            Ok(0) => IoRes::Eof,
            Ok(n) => IoRes::N(n),
            Err(e) if e.kind() == std::io::ErrorKind::WouldBlock || e.kind() == std::io::ErrorKind::Interrupted => IoRes::WouldBlock,
            Err(e) => IoRes::Err(format!("{:?}", e.kind())),
        }
    }
    fn wr(&mut self, buf: &[u8]) -> IoRes {
        match self.0.write(buf) {
            Ok(n) => IoRes::N(n),
            Err(e) if e.kind() == std::io::ErrorKind::WouldBlock || e.kind() == std::io::ErrorKind::Interrupted => IoRes::N(0),
            Err(e) => IoRes::Err(format!("{:?}", e.kind())),
        }
    }
    fn flush(&mut self) -> bool {
        true
    }
    fn fd(&self) -> i32 {
        self.0.as_raw_fd()
    }
    fn shutdown_wr(&mut self) {
        let _ = self.0.shutdown(std::net::Shutdown::Write);
    }
    fn abort(&mut self) {
        set_linger0(self.0.as_raw_fd());
        let _ = self.0.shutdown(std::net::Shutdown::Both);
    }
}

pub struct TlsIo {
    pub conn: rustls::ClientConnection,
    pub sock: TcpStream,
    tcp_eof: bool,
}
impl TlsIo {
    /// blocking handshake (vh::h2::tls_connect), then non-blocking
    pub fn connect(addr: SocketAddr, sni: &str, alpn: &[&[u8]], rcvbuf: Option<usize>, timeout: Duration) -> Result<TlsIo, String> {
        let (s, _) = vh::h2::tls_connect(addr, sni, alpn, timeout)?;
        let rustls::StreamOwned { mut conn, sock } = s;
        if let Some(n) = rcvbuf {
            set_sockbuf(sock.as_raw_fd(), Some(n), None);
        }
        sock.set_nonblocking(true).map_err(|e| e.to_string())?;
        conn.set_buffer_limit(Some(64 * 1024));
        Ok(TlsIo { conn, sock, tcp_eof: false })
    }
    pub fn alpn(&self) -> Option<Vec<u8>> {
        self.conn.alpn_protocol().map(|a| a.to_vec())
    }
}
impl Io for TlsIo {
    fn rd(&mut self, buf: &mut [u8]) -> IoRes {
        loop {
            match self.conn.reader().read(buf) {
                Ok(0) => return IoRes::Eof,
                Ok(n) => return IoRes::N(n),
                Err(e) if e.kind() == std::io::ErrorKind::WouldBlock => {}
                Err(e) => return IoRes::Err(format!("tls read {:?}", e.kind())),
            }
            if self.tcp_eof {
                return IoRes::Eof;
            }
            match self.conn.read_tls(&mut self.sock) {
                Ok(0) => {
                    self.tcp_eof = true;
                }
                Ok(_) => {}
                Err(e) if e.kind() == std::io::ErrorKind::WouldBlock || e.kind() == std::io::ErrorKind::Interrupted => return IoRes::WouldBlock,
                Err(e) => return IoRes::Err(format!("{:?}", e.kind())),
            }
            if let Err(e) = self.conn.process_new_packets() {
                return IoRes::Err(format!("tls: {e}"));
            }
        }
    }
    fn wr(&mut self, buf: &[u8]) -> IoRes {
        if !self.flush() {
            return IoRes::N(0);
        }
        let n = match self.conn.writer().write(buf) {
            Ok(n) => n,
            Err(e) => return IoRes::Err(format!("tls write {:?}", e.kind())),
        };
        self.flush();
        IoRes::N(n)
    }
    fn flush(&mut self) -> bool {
        while self.conn.wants_write() {
            match self.conn.write_tls(&mut self.sock) {
                Ok(0) => return false,
                Ok(_) => {}
                Err(_) => return false,
            }
        }
        true
    }
    fn fd(&self) -> i32 {
        self.sock.as_raw_fd()
    }
    fn has_buffered_input(&self) -> bool {
        false
    }
    fn shutdown_wr(&mut self) {
        self.conn.send_close_notify();
        self.flush();
        let _ = self.sock.shutdown(std::net::Shutdown::Write);
    }
    fn abort(&mut self) {
        set_linger0(self.sock.as_raw_fd());
        let _ = self.sock.shutdown(std::net::Shutdown::Both);
    }
}

pub fn set_sockbuf(fd: i32, rcv: Option<usize>, snd: Option<usize>) {
    unsafe {
        if let Some(n) = rcv {
            let v = n as libc::c_int;
            libc::setsockopt(fd, libc::SOL_SOCKET, libc::SO_RCVBUF, &v as *const _ as *const libc::c_void, 4);
        }
        if let Some(n) = snd {
            let v = n as libc::c_int;
            libc::setsockopt(fd, libc::SOL_SOCKET, libc::SO_SNDBUF, &v as *const _ as *const libc::c_void, 4);
        }
    }
}

pub fn set_linger0(fd: i32) {
    let l = libc::linger { l_onoff: 1, l_linger: 0 };
    unsafe {
        libc::setsockopt(fd, libc::SOL_SOCKET, libc::SO_LINGER, &l as *const _ as *const libc::c_void, std::mem::size_of::<libc::linger>() as u32);
    }
}

/// wait for readiness of `fd` (POLLIN always, POLLOUT when `want_out`) for at most `ms` milliseconds
pub fn wait_fd(fd: i32, want_in: bool, want_out: bool, ms: i32) -> (bool, bool) {
    let mut ev: libc::c_short = 0;
    if want_in {
        ev |= libc::POLLIN;
    }
    if want_out {
        ev |= libc::POLLOUT;
    }
    if ev == 0 {
        std::thread::sleep(Duration::from_millis(ms.max(0) as u64));
        return (false, false);
    }
    let mut p = libc::pollfd { fd, events: ev, revents: 0 };
    let r = unsafe { libc::poll(&mut p, 1, ms) };
    if r <= 0 {
        return (false, false);
    }
    (p.revents & (libc::POLLIN | libc::POLLHUP | libc::POLLERR) != 0, p.revents & libc::POLLOUT != 0)
}

pub fn connect_plain(addr: SocketAddr, rcvbuf: Option<usize>, timeout: Duration) -> Result<TcpStream, String> {
    // SO_RCVBUF must be set before connect to bound the advertised window: use a raw socket
    use std::os::unix::io::FromRawFd;
    unsafe {
        let fd = libc::socket(libc::AF_INET, libc::SOCK_STREAM | libc::SOCK_CLOEXEC, 0);
        if fd < 0 {
            return Err("socket()".into());
        }
        set_sockbuf(fd, rcvbuf, None);
        let s = TcpStream::from_raw_fd(fd);
        let SocketAddr::V4(a) = addr else { return Err("ipv4 only".into()) };
        let sa = libc::sockaddr_in {
            sin_family: libc::AF_INET as u16,
            sin_port: a.port().to_be(),
            sin_addr: libc::in_addr { s_addr: u32::from_ne_bytes(a.ip().octets()) },
            sin_zero: [0; 8],
        };
        let t0 = Instant::now();
        loop {
            let r = libc::connect(fd, &sa as *const _ as *const libc::sockaddr, std::mem::size_of::<libc::sockaddr_in>() as u32);
            if r == 0 {
                break;
            }
            let e = std::io::Error::last_os_error();
            if e.kind() == std::io::ErrorKind::Interrupted && t0.elapsed() < timeout {
                continue;
            }
            return Err(format!("connect: {e}"));
        }
        Ok(s)
    }
}

// ------------------------------------------------------------------------------------------------
// event log: one global vector; the events of one (run, stream, dir, role) are always pushed by a single
// thread, so their relative order in the vector is that thread's program order.

#[derive(Clone, Copy, PartialEq, Eq, Hash, Debug, PartialOrd, Ord)]
pub struct MsgKey {
    pub run: u64,
    pub stream: u32,
    /// 0 = request, 1 = response
    pub dir: u8,
}

pub struct Log {
    pub evs: Mutex<Vec<(MsgKey, u8, Value)>>, // role 0 = sender, 1 = receiver
}
impl Log {
    pub fn new() -> Arc<Log> {
        Arc::new(Log { evs: Mutex::new(Vec::new()) })
    }
    pub fn push(&self, key: MsgKey, role: u8, v: Value) {
        self.evs.lock().unwrap().push((key, role, v));
    }
    pub fn take_run(&self, run: u64) -> Vec<(MsgKey, u8, Value)> {
        let mut g = self.evs.lock().unwrap();
        let mut out = Vec::new();
        let mut keep = Vec::with_capacity(g.len());
        for e in g.drain(..) {
            if e.0.run == run { out.push(e) } else { keep.push(e) }
        }
        *g = keep;
        out
    }
}

pub fn dir_name(d: u8) -> &'static str {
    if d == 0 { "req" } else { "resp" }
}

// run-level progress: when did ANY observer of a run last move a payload byte (milliseconds since the first use).
// A peer loop only sees its own connection; a body that sozu and the kernels have buffered completely keeps moving on
// the other connection of the exchange long after this one went quiet (5 MB towards a 512-byte reader with a 4 KiB
// receive buffer), with the worker asleep most of the time: that is slowness, not a stall.
static RUN_PROGRESS: [AtomicU64; 4096] = [const { AtomicU64::new(0) }; 4096];
static T_ZERO: std::sync::OnceLock<Instant> = std::sync::OnceLock::new();
fn now_ms() -> u64 {
    T_ZERO.get_or_init(Instant::now).elapsed().as_millis() as u64 + 1
}
pub fn note_run_progress(run: u64) {
    RUN_PROGRESS[(run % 4096) as usize].store(now_ms(), Ordering::Relaxed);
}
/// did an observer of one of these runs (or of a run sharing its slot: only ever delays a verdict) move a byte within `d`?
pub fn runs_moved_within(runs: &[u64], d: Duration) -> bool {
    let now = now_ms();
    runs.iter().any(|r| {
        let t = RUN_PROGRESS[(*r % 4096) as usize].load(Ordering::Relaxed);
        t != 0 && now.saturating_sub(t) < d.as_millis() as u64
    })
}

/// Sender-side recorder of one message: coalesces Sent events.
pub struct SendRec {
    pub key: MsgKey,
    pub log: Arc<Log>,
    pub who: &'static str, // "Client" | "Backend"
    pend: Option<(u64, u64)>,
    pub sent: u64,
    pub ended: bool,
}
impl SendRec {
    pub fn new(key: MsgKey, log: Arc<Log>, who: &'static str) -> SendRec {
        SendRec { key, log, who, pend: None, sent: 0, ended: false }
    }
    pub fn sent(&mut self, off: u64, len: u64) {
        if len == 0 {
            return;
        }
        note_run_progress(self.key.run);
        match self.pend.as_mut() {
            Some((a, l)) if *a + *l == off && *l < 128 * 1024 => *l += len,
            _ => {
                self.flush();
                self.pend = Some((off, len));
            }
        }
        self.sent = off + len;
    }
    pub fn flush(&mut self) {
        if let Some((a, l)) = self.pend.take() {
            self.log.push(self.key, 0, json!({"ev": format!("{}Sent", self.who), "k":"sent", "run": self.key.run, "s": self.key.stream,
                "d": dir_name(self.key.dir), "off": a, "len": l}));
        }
    }
    pub fn end(&mut self, kind: &str, why: &str) {
        if self.ended {
            return;
        }
        self.ended = true;
        self.flush();
        self.log.push(self.key, 0, json!({"ev": format!("{}EndSent", self.who), "k":"endsent", "run": self.key.run, "s": self.key.stream,
            "d": dir_name(self.key.dir), "kind": kind, "at": self.sent, "why": why}));
    }
}

/// Receiver-side recorder of one message: checks the position code, coalesces Rcvd events.
pub struct RecvRec {
    pub key: MsgKey,
    pub log: Arc<Log>,
    pub who: &'static str,
    pub code: Code,
    pend: Option<(u64, u64)>,
    pub rcvd: u64,
    pub ended: bool,
    pub corrupt: bool,
}
impl RecvRec {
    pub fn new(key: MsgKey, seed: u64, log: Arc<Log>, who: &'static str) -> RecvRec {
        RecvRec { key, log, who, code: Code::new(seed, key.stream, key.dir), pend: None, rcvd: 0, ended: false, corrupt: false }
    }
    pub fn data(&mut self, data: &[u8]) {
        if data.is_empty() || self.ended {
            return;
        }
        note_run_progress(self.key.run);
        let off = self.rcvd;
        let bad = if self.corrupt { -1 } else { self.code.first_bad(off, data) };
        if bad >= 0 {
            self.flush();
            self.corrupt = true;
            let k = (bad as u64 - off) as usize;
            self.log.push(self.key, 1, json!({"ev": format!("{}Rcvd", self.who), "k":"rcvd", "run": self.key.run, "s": self.key.stream,
                "d": dir_name(self.key.dir), "off": off, "len": data.len(), "bad": bad,
                "got": data[k..(k + 8).min(data.len())].to_vec(), "want": (0..8u64).map(|j| self.code.at(bad as u64 + j)).collect::<Vec<u8>>()}));
        } else {
            match self.pend.as_mut() {
                Some((a, l)) if *a + *l == off && *l < 128 * 1024 => *l += data.len() as u64,
                _ => {
                    self.flush();
                    self.pend = Some((off, data.len() as u64));
                }
            }
        }
        self.rcvd += data.len() as u64;
    }
    pub fn flush(&mut self) {
        if let Some((a, l)) = self.pend.take() {
            self.log.push(self.key, 1, json!({"ev": format!("{}Rcvd", self.who), "k":"rcvd", "run": self.key.run, "s": self.key.stream,
                "d": dir_name(self.key.dir), "off": a, "len": l, "bad": -1}));
        }
    }
    pub fn end(&mut self, kind: &str, why: &str) {
        if self.ended {
            return;
        }
        self.ended = true;
        self.flush();
        self.log.push(self.key, 1, json!({"ev": format!("{}EndRcvd", self.who), "k":"endrcvd", "run": self.key.run, "s": self.key.stream,
            "d": dir_name(self.key.dir), "kind": kind, "at": self.rcvd, "why": why}));
    }
    pub fn stall(&mut self, why: &str) {
        if self.ended {
            return;
        }
        self.ended = true;
        self.flush();
        self.log.push(self.key, 1, json!({"ev": "Stall", "k":"stall", "run": self.key.run, "s": self.key.stream,
            "d": dir_name(self.key.dir), "at": self.rcvd, "why": why}));
    }
}

// ------------------------------------------------------------------------------------------------
// worker-idle monitor: samples the scheduler state of the worker thread. A stall verdict is only given
// when the worker thread was asleep (state S) in nearly all samples of the last 10 s and used no CPU.

pub struct IdleMon {
    samples: Mutex<VecDeque<(Instant, bool, u64)>>, // (when, sleeping, cpu ticks)
    stop: AtomicBool,
    pub tid: AtomicU64,
}

impl IdleMon {
    pub fn start(thread_name: &str) -> Arc<IdleMon> {
        let m = Arc::new(IdleMon { samples: Mutex::new(VecDeque::new()), stop: AtomicBool::new(false), tid: AtomicU64::new(0) });
        let name: String = thread_name.chars().take(15).collect();
        let m2 = m.clone();
        std::thread::Builder::new().name("idlemon".into()).spawn(move || {
            let mut tid: Option<u64> = None;
            while !m2.stop.load(Ordering::Relaxed) {
                if tid.is_none() {
                    if let Ok(rd) = std::fs::read_dir("/proc/self/task") {
                        for e in rd.flatten() {
                            if let Ok(c) = std::fs::read_to_string(e.path().join("comm")) {
                                if c.trim() == name {
                                    tid = e.file_name().to_string_lossy().parse().ok();
                                }
                            }
                        }
                    }
                    if let Some(t) = tid {
                        m2.tid.store(t, Ordering::Relaxed);
                    }
                }
                if let Some(t) = tid {
                    if let Ok(st) = std::fs::read_to_string(format!("/proc/self/task/{t}/stat")) {
                        // pid (comm) state ... utime(14) stime(15)
                        if let Some(p) = st.rfind(')') {
                            let f: Vec<&str> = st[p + 2..].split(' ').collect();
                            let sleeping = f.first().map(|s| *s == "S").unwrap_or(false);
                            let ticks = f.get(11).and_then(|x| x.parse::<u64>().ok()).unwrap_or(0) + f.get(12).and_then(|x| x.parse::<u64>().ok()).unwrap_or(0);
                            let mut g = m2.samples.lock().unwrap();
                            g.push_back((Instant::now(), sleeping, ticks));
                            while g.len() > 2000 {
                                g.pop_front();
                            }
                        }
                    } else {
                        tid = None; // thread gone
                        let mut g = m2.samples.lock().unwrap();
                        g.push_back((Instant::now(), true, 0));
                    }
                }
                std::thread::sleep(Duration::from_millis(50));
            }
        }).expect("idlemon");
        m
    }
    pub fn stop(&self) {
        self.stop.store(true, Ordering::Relaxed);
    }
    /// was the worker asleep during (nearly) all of the last `window`? None when too few samples exist.
    pub fn idle_for(&self, window: Duration) -> Option<bool> {
        let g = self.samples.lock().unwrap();
        let now = Instant::now();
        let inwin: Vec<&(Instant, bool, u64)> = g.iter().filter(|s| now.duration_since(s.0) <= window).collect();
        if inwin.len() < (window.as_millis() / 50 / 3) as usize || inwin.is_empty() {
            return None; // the monitor itself was starved: cannot tell
        }
        if now.duration_since(inwin[0].0) < window.mul_f32(0.8) {
            return None;
        }
        let asleep = inwin.iter().filter(|s| s.1).count();
        let ticks = inwin.last().unwrap().2.saturating_sub(inwin[0].2);
        Some(asleep * 100 >= inwin.len() * 95 && ticks <= 10)
    }
}

/// Progress watchdog used by every peer loop: a stall is declared only after `STALL_AFTER` without any
/// byte moving on the connection, at least `MIN_ATTEMPTS` fruitless waits, and the worker idle.
pub const STALL_AFTER: Duration = Duration::from_secs(12);
pub const HARD_CAP: Duration = Duration::from_secs(90);
pub const MIN_ATTEMPTS: u32 = 40;

pub enum Verdict {
    Wait,
    Stall,
    Inconclusive,
}

pub struct Watch {
    pub last: Instant,
    pub attempts: u32,
    pub mon: Arc<IdleMon>,
}
impl Watch {
    pub fn new(mon: Arc<IdleMon>) -> Watch {
        Watch { last: Instant::now(), attempts: 0, mon }
    }
    pub fn progress(&mut self) {
        self.last = Instant::now();
        self.attempts = 0;
    }
    pub fn fruitless(&mut self) -> Verdict {
        self.attempts += 1;
        let idle = self.last.elapsed();
        if idle < STALL_AFTER || self.attempts < MIN_ATTEMPTS {
            return Verdict::Wait;
        }
        match self.mon.idle_for(Duration::from_secs(10)) {
            Some(true) => Verdict::Stall,
            _ if idle > HARD_CAP => Verdict::Inconclusive,
            _ => Verdict::Wait,
        }
    }
}

// ------------------------------------------------------------------------------------------------
// wire segments: bytes to write, with the payload range they carry

pub struct Seg {
    pub bytes: Vec<u8>,
    pub pay_start: usize,
    pub pay_len: usize,
    pub pay_off: u64,
    /// index of the message (stream) this payload belongs to; usize::MAX for pure meta
    pub owner: usize,
}
impl Seg {
    pub fn meta(bytes: Vec<u8>) -> Seg {
        Seg { bytes, pay_start: 0, pay_len: 0, pay_off: 0, owner: usize::MAX }
    }
    /// payload bytes contained in bytes[from..to]
    pub fn payload_in(&self, from: usize, to: usize) -> (u64, u64) {
        let a = from.max(self.pay_start);
        let b = to.min(self.pay_start + self.pay_len);
        if b > a { (self.pay_off + (a - self.pay_start) as u64, (b - a) as u64) } else { (0, 0) }
    }
}

#[derive(Clone, Copy, Debug, PartialEq, serde::Serialize, serde::Deserialize)]
pub enum Framing {
    /// Content-Length
    Cl,
    /// chunked, chunk sizes drawn from the seed
    Chunked,
    /// response only: no length, ends with the connection
    Close,
}

/// chunk / DATA frame size distribution around the boundaries the property names
pub fn piece_size(rng: &mut Rng, remaining: u64, cap: u64) -> u64 {
    let t = rng.below(10);
    let n = match t {
        0 => 1,
        1 => 1 + rng.below(16),
        2 => 9,
        3 => 16384 - rng.below(11),
        4 => 16384 + rng.below(11),
        5 => 16375 + rng.below(19),
        6 => 1 + rng.below(1024),
        7 => 4096 + rng.below(8192),
        8 => 65535 + rng.below(3) - 1,
        _ => 1 + rng.below(40000),
    };
    n.min(cap).min(remaining).max(1.min(remaining))
}

/// Lazily produces the wire bytes of one HTTP/1.1 message body (the head is given by the caller).
pub struct H1BodyGen {
    pub framing: Framing,
    pub size: u64,
    pub off: u64,
    pub code: Code,
    pub rng: Rng,
    pub owner: usize,
    chunk_left: u64,
    finished: bool,
    pub small_chunks: bool,
}
impl H1BodyGen {
    pub fn new(framing: Framing, size: u64, code: Code, seed: u64, owner: usize) -> H1BodyGen {
        H1BodyGen { framing, size, off: 0, code, rng: Rng(seed), owner, chunk_left: 0, finished: false, small_chunks: false }
    }
    pub fn is_finished(&self) -> bool {
        self.finished
    }
    /// next segment, None when the body (including its terminator) is complete
    pub fn next(&mut self) -> Option<Seg> {
        if self.finished {
            return None;
        }
        match self.framing {
            Framing::Cl | Framing::Close => {
                if self.off >= self.size {
                    self.finished = true;
                    return None;
                }
                let n = (self.size - self.off).min(64 * 1024) as usize;
                let mut b = vec![0u8; n];
                self.code.fill(self.off, &mut b);
                let s = Seg { bytes: b, pay_start: 0, pay_len: n, pay_off: self.off, owner: self.owner };
                self.off += n as u64;
                Some(s)
            }
            Framing::Chunked => {
                if self.off >= self.size {
                    self.finished = true;
                    return Some(Seg::meta(b"0\r\n\r\n".to_vec()));
                }
                let cap = if self.small_chunks { 64 } else { 1 << 20 };
                let n = piece_size(&mut self.rng, self.size - self.off, cap) as usize;
                let mut b = format!("{:x}\r\n", n).into_bytes();
                let st = b.len();
                b.resize(st + n, 0);
                self.code.fill(self.off, &mut b[st..st + n]);
                b.extend_from_slice(b"\r\n");
                let s = Seg { bytes: b, pay_start: st, pay_len: n, pay_off: self.off, owner: self.owner };
                self.off += n as u64;
                Some(s)
            }
        }
    }
}

// ------------------------------------------------------------------------------------------------
// HTTP/1.1 decoder

#[derive(Debug, Clone)]
pub struct H1Head {
    pub start: String,
    pub headers: Vec<(String, String)>,
}
impl H1Head {
    pub fn get(&self, name: &str) -> Option<&str> {
        self.headers.iter().find(|(k, _)| k.eq_ignore_ascii_case(name)).map(|(_, v)| v.as_str())
    }
    pub fn status(&self) -> u16 {
        self.start.split(' ').nth(1).and_then(|s| s.parse().ok()).unwrap_or(0)
    }
    pub fn path(&self) -> &str {
        self.start.split(' ').nth(1).unwrap_or("")
    }
}

enum BodyMode {
    None,
    Cl(u64),
    ChunkSize(Vec<u8>),
    ChunkData(u64),
    ChunkCrlf(u8),
    Trailers(Vec<u8>),
    Close,
}

pub enum H1Out<'a> {
    Head(&'a H1Head),
    Body(&'a [u8]),
    End,
    Error(String),
}

pub struct H1Dec {
    response: bool,
    headbuf: Vec<u8>,
    mode: Option<BodyMode>, // None = reading head
    pub done: bool,
    pub failed: bool,
    pub head: Option<H1Head>,
}

impl H1Dec {
    pub fn new(response: bool) -> H1Dec {
        H1Dec { response, headbuf: Vec::new(), mode: None, done: false, failed: false, head: None }
    }
    pub fn in_head(&self) -> bool {
        self.mode.is_none() && !self.done
    }
    pub fn started(&self) -> bool {
        !self.headbuf.is_empty() || self.mode.is_some()
    }
    pub fn close_delimited(&self) -> bool {
        matches!(self.mode, Some(BodyMode::Close))
    }
    /// consume bytes of one message; returns how many were consumed (the rest belongs to the next one)
    pub fn feed(&mut self, mut data: &[u8], sink: &mut dyn FnMut(H1Out)) -> usize {
        let total = data.len();
        while !data.is_empty() && !self.done && !self.failed {
            match self.mode.take() {
                None => {
                    // head: look for CRLFCRLF
                    let old = self.headbuf.len();
                    self.headbuf.extend_from_slice(data);
                    let from = old.saturating_sub(3);
                    if let Some(p) = self.headbuf[from..].windows(4).position(|w| w == b"\r\n\r\n") {
                        let end = from + p + 4;
                        let used = end - old;
                        data = &data[used..];
                        let text = String::from_utf8_lossy(&self.headbuf[..end]).to_string();
                        self.headbuf.clear();
                        let mut lines = text.split("\r\n");
                        let start = lines.next().unwrap_or("").to_string();
                        let mut headers = Vec::new();
                        for l in lines {
                            if let Some(c) = l.find(':') {
                                headers.push((l[..c].trim().to_string(), l[c + 1..].trim().to_string()));
                            }
                        }
                        let head = H1Head { start, headers };
                        let te_chunked = head.headers.iter().any(|(k, v)| k.eq_ignore_ascii_case("transfer-encoding") && v.to_ascii_lowercase().contains("chunked"));
                        let cl = head.get("content-length").and_then(|v| v.parse::<u64>().ok());
                        let status = head.status();
                        let mode = if self.response && ((100..200).contains(&status) || status == 204 || status == 304) {
                            BodyMode::None
                        } else if te_chunked {
                            BodyMode::ChunkSize(Vec::new())
                        } else if let Some(n) = cl {
                            if n == 0 { BodyMode::None } else { BodyMode::Cl(n) }
                        } else if self.response {
                            BodyMode::Close
                        } else {
                            BodyMode::None
                        };
                        sink(H1Out::Head(&head));
                        self.head = Some(head);
                        if let BodyMode::None = mode {
                            self.done = true;
                            sink(H1Out::End);
                        } else {
                            self.mode = Some(mode);
                        }
                    } else {
                        if self.headbuf.len() > 256 * 1024 {
                            self.failed = true;
                            sink(H1Out::Error("no end of head in 256 KiB".into()));
                        }
                        data = &[];
                    }
                }
                Some(BodyMode::None) => unreachable!(),
                Some(BodyMode::Cl(rem)) => {
                    let n = (rem.min(data.len() as u64)) as usize;
                    sink(H1Out::Body(&data[..n]));
                    data = &data[n..];
                    if rem - n as u64 == 0 {
                        self.done = true;
                        sink(H1Out::End);
                    } else {
                        self.mode = Some(BodyMode::Cl(rem - n as u64));
                    }
                }
                Some(BodyMode::Close) => {
                    sink(H1Out::Body(data));
                    data = &[];
                    self.mode = Some(BodyMode::Close);
                }
                Some(BodyMode::ChunkSize(mut acc)) => {
                    let mut used = 0;
                    let mut complete = false;
                    for &b in data {
                        used += 1;
                        acc.push(b);
                        if acc.ends_with(b"\r\n") {
                            complete = true;
                            break;
                        }
                        if acc.len() > 64 {
                            break;
                        }
                    }
                    data = &data[used..];
                    if complete {
                        let line = String::from_utf8_lossy(&acc[..acc.len() - 2]).to_string();
                        let hex = line.split(';').next().unwrap_or("").trim().to_string();
                        match u64::from_str_radix(&hex, 16) {
                            Ok(0) => self.mode = Some(BodyMode::Trailers(Vec::new())),
                            Ok(n) if !hex.is_empty() => self.mode = Some(BodyMode::ChunkData(n)),
                            _ => {
                                self.failed = true;
                                sink(H1Out::Error(format!("bad chunk size line {:?}", line)));
                            }
                        }
                    } else if acc.len() > 64 {
                        self.failed = true;
                        sink(H1Out::Error(format!("chunk size line too long: {:?}", String::from_utf8_lossy(&acc))));
                    } else {
                        self.mode = Some(BodyMode::ChunkSize(acc));
                    }
                }
                Some(BodyMode::ChunkData(rem)) => {
                    let n = (rem.min(data.len() as u64)) as usize;
                    sink(H1Out::Body(&data[..n]));
                    data = &data[n..];
                    if rem - n as u64 == 0 {
                        self.mode = Some(BodyMode::ChunkCrlf(0));
                    } else {
                        self.mode = Some(BodyMode::ChunkData(rem - n as u64));
                    }
                }
                Some(BodyMode::ChunkCrlf(k)) => {
                    let want = if k == 0 { b'\r' } else { b'\n' };
                    if data[0] != want {
                        self.failed = true;
                        sink(H1Out::Error(format!("chunk data not followed by CRLF (got byte {})", data[0])));
                    } else {
                        data = &data[1..];
                        self.mode = Some(if k == 0 { BodyMode::ChunkCrlf(1) } else { BodyMode::ChunkSize(Vec::new()) });
                    }
                }
                Some(BodyMode::Trailers(mut acc)) => {
                    // lines until an empty one
                    let mut used = 0;
                    let mut fin = false;
                    for &b in data {
                        used += 1;
                        acc.push(b);
                        if acc.ends_with(b"\r\n") {
                            if acc.len() == 2 {
                                fin = true;
                                break;
                            }
                            acc.clear();
                        }
                        if acc.len() > 8192 {
                            break;
                        }
                    }
                    data = &data[used..];
                    if fin {
                        self.done = true;
                        sink(H1Out::End);
                    } else if acc.len() > 8192 {
                        self.failed = true;
                        sink(H1Out::Error("trailer line too long".into()));
                    } else {
                        self.mode = Some(BodyMode::Trailers(acc));
                    }
                }
            }
        }
        total - data.len()
    }
    /// the connection ended: a close-delimited body ends cleanly, anything else is cut
    pub fn eof(&mut self, sink: &mut dyn FnMut(H1Out)) {
        if self.done || self.failed {
            return;
        }
        if let Some(BodyMode::Close) = self.mode {
            self.done = true;
            sink(H1Out::End);
        } else {
            self.failed = true;
            sink(H1Out::Error("connection closed before the end of the message".into()));
        }
    }
}

// ------------------------------------------------------------------------------------------------
// plans

#[derive(Clone, Debug, serde::Serialize, serde::Deserialize)]
pub struct MsgPlan {
    pub size: u64,
    pub framing: Framing,
    /// H2: send a content-length header; pad DATA frames
    pub h2_cl: bool,
    pub h2_pad: bool,
    /// H2: END_STREAM on a separate empty DATA frame
    pub h2_sep_end: bool,
    /// largest write(2) / DATA frame the sender issues
    pub wchunk: usize,
    /// pause `wpause_us` after every `wpause_every` bytes (0 = never)
    pub wpause_every: u64,
    pub wpause_us: u64,
    pub small_chunks: bool,
    /// sender aborts (closes / resets) once this many payload bytes were written
    pub abort_at: Option<u64>,
}

#[derive(Clone, Debug, serde::Serialize, serde::Deserialize)]
pub struct ReadPlan {
    pub rchunk: usize,
    pub rdelay_us: u64,
    pub rcvbuf: Option<usize>,
    /// H2 receivers: initial stream window and size of the grants
    pub h2_window: u32,
    pub h2_grant: u32,
    /// H2 receivers: delay before each grant
    pub h2_grant_delay_us: u64,
}

#[derive(Clone, Debug, serde::Serialize, serde::Deserialize)]
pub struct StreamPlan {
    pub idx: u32,
    pub req: MsgPlan,
    pub resp: MsgPlan,
    pub backend_read: ReadPlan,
    pub client_read: ReadPlan,
    /// HTTP/2 backends: the response starts as soon as the request HEADERS are in (full duplex on one stream); its
    /// last byte waits for the end of the request
    #[serde(default)]
    pub early_resp: bool,
}

/// An HTTP/2 peer stops READING its socket for `ms` once `after_bytes` of DATA arrived on the connection, and keeps
/// sending meanwhile: with bodies far larger than the socket buffers sozu's write towards it blocks inside a frame.
#[derive(Clone, Debug, serde::Serialize, serde::Deserialize)]
pub struct Hold {
    pub after_bytes: u64,
    pub ms: u64,
}

#[derive(Clone, Debug, serde::Serialize, serde::Deserialize)]
pub struct RunPlan {
    pub run: u64,
    pub seed: u64,
    pub front_h2: bool,
    pub back_h2: bool,
    pub back_variant: u8,
    /// HTTP/2 clients: open stream 0 first, the others when its response is complete
    #[serde(default)]
    pub second_wave: bool,
    pub streams: Vec<StreamPlan>,
    /// full-duplex schedules (see Hold): on the client connection / on the h2c backend connection
    #[serde(default)]
    pub client_hold: Option<Hold>,
    #[serde(default)]
    pub backend_hold: Option<Hold>,
    /// HTTP/2 peers: PING after this many body bytes moved (0: the rig decides)
    #[serde(default)]
    pub ping_every: u64,
}

pub fn msg_json(m: &MsgPlan) -> Value {
    json!({"size": m.size, "framing": format!("{:?}", m.framing), "h2_cl": m.h2_cl, "h2_pad": m.h2_pad, "sep_end": m.h2_sep_end,
           "wchunk": m.wchunk, "pause_every": m.wpause_every, "pause_us": m.wpause_us, "abort_at": m.abort_at.map(|a| a as i64).unwrap_or(-1)})
}
pub fn read_json(r: &ReadPlan) -> Value {
    json!({"rchunk": r.rchunk, "rdelay_us": r.rdelay_us, "rcvbuf": r.rcvbuf.map(|a| a as i64).unwrap_or(-1), "h2_window": r.h2_window, "h2_grant": r.h2_grant, "grant_delay_us": r.h2_grant_delay_us})
}

/// plans of the runs in flight, looked up by the backends from the request path
pub type Registry = Arc<Mutex<HashMap<u64, Arc<RunPlan>>>>;

/// `/<cluster>/r<run>/s<idx>` -> (run, idx)
pub fn parse_path(path: &str) -> Option<(u64, u32)> {
    let mut it = path.split('/').filter(|p| !p.is_empty());
    let _cluster = it.next()?;
    let r = it.next()?.strip_prefix('r')?.parse().ok()?;
    let s = it.next()?.strip_prefix('s')?.parse().ok()?;
    Some((r, s))
}

/// pacing helper for writers
pub struct Pace {
    every: u64,
    pause: Duration,
    since: u64,
    pub until: Option<Instant>,
}
impl Pace {
    pub fn new(every: u64, pause_us: u64) -> Pace {
        Pace { every, pause: Duration::from_micros(pause_us), since: 0, until: None }
    }
    pub fn wrote(&mut self, n: u64) {
        if self.every == 0 {
            return;
        }
        self.since += n;
        if self.since >= self.every {
            self.since = 0;
            self.until = Some(Instant::now() + self.pause);
        }
    }
    pub fn blocked(&mut self) -> Option<Duration> {
        match self.until {
            Some(t) => {
                let now = Instant::now();
                if now >= t {
                    self.until = None;
                    None
                } else {
                    Some(t - now)
                }
            }
            None => None,
        }
    }
}
