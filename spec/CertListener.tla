---------------------------- MODULE CertListener ----------------------------
(***************************************************************************)
(* C17 at the level where handshakes happen: HTTPS LISTENERS of a worker   *)
(* (lib/src/https.rs HttpsListener / HttpsProxy, lib/src/server.rs).       *)
(*                                                                         *)
(* CertResolver.tla specifies one `CertificateResolver` object and proves  *)
(* Resolve(S, p) \in Admissible(store, p) (P_C17_Admissible): the object   *)
(* serves what its abstract store admits.  This module composes on top of  *)
(* that result: a resolver is represented by its abstract store, and the   *)
(* question is WHICH resolver a handshake on a listener consults, and      *)
(* whether that is the one the certificate commands of that address feed.  *)
(*                                                                         *)
(* Per listener address a:                                                 *)
(*   lst[a]    "absent" | "down" | "up"   (AddHttpsListener, Activate...)  *)
(*   flav[a]   TLS flavour of the listener configuration (versions,        *)
(*             cipher list): only RemoveListener + AddHttpsListener change *)
(*   alpn[a]   ALPN set of the TLS context (UpdateHttpsListener)           *)
(*   loaded[a] REFERENCE: the certificates loaded for the address by the   *)
(*             history of add / remove / replace commands (certificates    *)
(*             are per address; what the certificate queries answer)       *)
(*   own[a]    content of the resolver object the listener holds: the one  *)
(*             the certificate commands mutate (`listener.resolver`)       *)
(*   ctx[a]    the resolver the TLS context (rustls ServerConfig,          *)
(*             `rustls_details`) consults during a handshake: the          *)
(*             listener's own one (bound) or a detached private one        *)
(*                                                                         *)
(* The listener operations that touch the TLS context or the listener      *)
(* object - UpdateHttpsListener (with or without alpn_protocols),          *)
(* DeactivateListener, ActivateListener, RemoveListener, AddHttpsListener  *)
(* (same address, other TLS versions / cipher list), a second listener -   *)
(* are part of the history alphabet, interleaved with the certificate      *)
(* commands; they must leave the served-certificate function of every      *)
(* address unchanged.                                                      *)
(***************************************************************************)
EXTENDS Naturals, Sequences, FiniteSets, TLC

CONSTANTS NVL,          \* certificate variants 1..NVL of CertResolver!V
          Deviations,   \* switches, see below
          Flavours,     \* TLS flavours of AddHttpsListener, e.g. {"default", "tls12", "tls13", "ciphers"}
          NAddr         \* number of listener addresses

\* the certificate universe, name matching and the reference Admissible(store, p) of CertResolver.tla
\* (only its constant-level operators are used; its variables are not part of this module's state)
R == INSTANCE CertResolver WITH NV <- NVL, Deviations <- {}, Emit <- FALSE,
                                store <- {}, certs <- <<>>, idx <- <<>>, trie <- <<>>

VARIABLES lst, flav, alpn, loaded, own, ctx
vars == <<lst, flav, alpn, loaded, own, ctx>>

Addr     == 1..NAddr
Variants == 1..NVL
V        == R!V
FP       == R!FP
Probes   == R!Probes
ProbeIdx == 1..Len(Probes)
Alpns    == {"both", "h1", "h2"}            \* [h2, http/1.1] (the default), [http/1.1], [h2]
\* patches of UpdateHttpsListener: alpn_protocols = one of the sets, the empty list (= back to the default),
\* or a patch WITHOUT alpn_protocols (strict_sni_binding, timeouts, disable_http11, H2 knobs, ...)
PatchKinds == Alpns \cup {"reset", "other"}

(* Deviation switches.                                                                                      *)
(*   ReaddForgets          OPEN finding: RemoveListener + AddHttpsListener on the same address: the new     *)
(*                         listener starts with an empty resolver although the address's certificates are   *)
(*                         still loaded (configuration, certificate queries)                                *)
(* Self-tests, TLC must refute each (the defect class of seed C17-12 and its neighbours):                   *)
(*   PatchDetachesResolver an alpn patch rebuilds the TLS context around a NEW EMPTY resolver               *)
(*   PatchSnapshotsResolver an alpn patch rebuilds the TLS context around a COPY of the resolver            *)
(*   PatchSwapsResolver    an alpn patch gives the LISTENER a new empty resolver, the TLS context keeps the *)
(*                         old one (certificate commands no longer reach what is served)                    *)
(*   ReactivateDetaches    ActivateListener rebuilds the TLS context around a new empty resolver            *)
(*   CertOpWrongListener   a certificate command is applied to the first listener instead of the addressed  *)
AllDeviations == {"ReaddForgets", "PatchDetachesResolver", "PatchSnapshotsResolver", "PatchSwapsResolver",
                  "ReactivateDetaches", "CertOpWrongListener"}
ASSUME Deviations \subseteq AllDeviations

---------------------------------------------------------------------------
(* Abstract resolver content under the three commands (CertResolver: StoreAdd dedups by fingerprint,    *)
(* replace = add then remove with the old = new short-circuit)                                            *)
SAdd(st, v)      == R!StoreAdd(st, v)
SRem(st, f)      == R!StoreRemove(st, f)
SRep(st, old, v) == IF V[v].fp = old THEN st ELSE SRem(SAdd(st, v), old)

\* the resolver content a handshake on listener a consults
CtxStore(a) == IF ctx[a].bound THEN own[a] ELSE ctx[a].priv

\* the certificates a handshake on a for server name p may be served (CertResolver!P_C17_Admissible)
Served(a, p) == R!Admissible(CtxStore(a), p)
\* ... and what the property admits
Wanted(a, p) == R!Admissible(loaded[a], p)

Bound == [bound |-> TRUE, priv |-> {}]

---------------------------------------------------------------------------
(* Operations: uniform records so that generators and trace specs can name them                          *)

CertKinds == {"add", "remove", "replace", "replace_fail", "replace_badold"}
LstKinds  == {"add_listener", "remove_listener", "activate", "deactivate", "patch"}

Op(kind, a, v, f, k) == [kind |-> kind, a |-> a, v |-> v, f |-> f, k |-> k]
AllOps ==
  {Op("add", a, v, 0, "") : a \in Addr, v \in Variants}
  \cup {Op("remove", a, 0, f, "") : a \in Addr, f \in FP}
  \cup {Op("replace", a, v, f, "") : a \in Addr, v \in Variants, f \in FP}
  \cup {Op("replace_fail", a, 0, f, "") : a \in Addr, f \in FP}
  \cup {Op("replace_badold", a, v, 0, "") : a \in Addr, v \in Variants}
  \cup {Op("add_listener", a, 0, 0, k) : a \in Addr, k \in Flavours}
  \cup {Op(kind, a, 0, 0, "") : kind \in {"remove_listener", "activate", "deactivate"}, a \in Addr}
  \cup {Op("patch", a, 0, 0, k) : a \in Addr, k \in PatchKinds}

\* the commands of the alphabet are the ones the worker accepts (certificate commands for an address
\* without listener, a second AddHttpsListener, ... are refused: C07 / C08)
Can(o) ==
  CASE o.kind \in CertKinds          -> lst[o.a] # "absent"
    [] o.kind = "add_listener"      -> lst[o.a] = "absent"
    [] o.kind = "remove_listener"   -> lst[o.a] # "absent"
    [] o.kind = "activate"          -> lst[o.a] = "down"
    [] o.kind = "deactivate"        -> lst[o.a] = "up"
    [] o.kind = "patch"             -> lst[o.a] # "absent"

\* the listener whose resolver a certificate command for address a reaches
CertTarget(a) ==
  IF "CertOpWrongListener" \in Deviations
  THEN CHOOSE b \in Addr : lst[b] # "absent" /\ \A c \in Addr : lst[c] # "absent" => b <= c
  ELSE a

\* a certificate command: F maps the old resolver content to the new one
Cert(a, F(_)) ==
  /\ loaded' = [loaded EXCEPT ![a] = F(@)]
  /\ own'    = [own EXCEPT ![CertTarget(a)] = F(@)]
  /\ UNCHANGED <<lst, flav, alpn, ctx>>

Same(st) == st

AddListener(a, k) ==
  /\ lst'  = [lst EXCEPT ![a] = "down"]
  /\ flav' = [flav EXCEPT ![a] = k]
  /\ alpn' = [alpn EXCEPT ![a] = "both"]
  \* HttpsListener::try_new creates a fresh resolver; the certificates loaded for the address must be in it
  /\ own'  = [own EXCEPT ![a] = IF "ReaddForgets" \in Deviations THEN {} ELSE loaded[a]]
  /\ ctx'  = [ctx EXCEPT ![a] = Bound]
  /\ UNCHANGED loaded

\* the listener object (and its resolver) is dropped; the certificates of the address stay loaded
RemoveListener(a) ==
  /\ lst'  = [lst EXCEPT ![a] = "absent"]
  /\ flav' = [flav EXCEPT ![a] = "default"]
  /\ alpn' = [alpn EXCEPT ![a] = "both"]
  /\ own'  = [own EXCEPT ![a] = {}]
  /\ ctx'  = [ctx EXCEPT ![a] = Bound]
  /\ UNCHANGED loaded

Activate(a) ==
  /\ lst' = [lst EXCEPT ![a] = "up"]
  /\ ctx' = IF "ReactivateDetaches" \in Deviations THEN [ctx EXCEPT ![a] = [bound |-> FALSE, priv |-> {}]] ELSE ctx
  /\ UNCHANGED <<flav, alpn, loaded, own>>

Deactivate(a) ==
  /\ lst' = [lst EXCEPT ![a] = "down"]
  /\ UNCHANGED <<flav, alpn, loaded, own, ctx>>

\* HttpsListener::update_config: a patch carrying alpn_protocols rebuilds the rustls ServerConfig
\* (create_rustls_context) - around the listener's own resolver
Patch(a, k) ==
  /\ alpn' = IF k = "other" THEN alpn ELSE [alpn EXCEPT ![a] = IF k = "reset" THEN "both" ELSE k]
  /\ IF k = "other" THEN UNCHANGED <<ctx, own>>
     ELSE IF "PatchDetachesResolver" \in Deviations
          THEN ctx' = [ctx EXCEPT ![a] = [bound |-> FALSE, priv |-> {}]] /\ UNCHANGED own
     ELSE IF "PatchSnapshotsResolver" \in Deviations
          THEN ctx' = [ctx EXCEPT ![a] = [bound |-> FALSE, priv |-> CtxStore(a)]] /\ UNCHANGED own
     ELSE IF "PatchSwapsResolver" \in Deviations
          THEN ctx' = [ctx EXCEPT ![a] = [bound |-> FALSE, priv |-> CtxStore(a)]] /\ own' = [own EXCEPT ![a] = {}]
     ELSE UNCHANGED <<ctx, own>>
  /\ UNCHANGED <<lst, flav, loaded>>

Do(o) ==
  /\ Can(o)
  /\ CASE o.kind = "add"             -> Cert(o.a, LAMBDA st : SAdd(st, o.v))
       [] o.kind = "remove"          -> Cert(o.a, LAMBDA st : SRem(st, o.f))
       [] o.kind = "replace"         -> Cert(o.a, LAMBDA st : SRep(st, o.f, o.v))
       [] o.kind = "replace_fail"    -> Cert(o.a, Same)
       [] o.kind = "replace_badold"  -> Cert(o.a, LAMBDA st : SAdd(st, o.v))
       [] o.kind = "add_listener"    -> AddListener(o.a, o.k)
       [] o.kind = "remove_listener" -> RemoveListener(o.a)
       [] o.kind = "activate"        -> Activate(o.a)
       [] o.kind = "deactivate"      -> Deactivate(o.a)
       [] o.kind = "patch"           -> Patch(o.a, o.k)

\* named actions (coverage / vacuity guard)
CertCommand     == \E o \in AllOps : o.kind \in CertKinds /\ Do(o)
ListenerAdd     == \E o \in AllOps : o.kind = "add_listener" /\ Do(o)
ListenerRemove  == \E o \in AllOps : o.kind = "remove_listener" /\ Do(o)
ListenerUp      == \E o \in AllOps : o.kind = "activate" /\ Do(o)
ListenerDown    == \E o \in AllOps : o.kind = "deactivate" /\ Do(o)
ListenerPatch   == \E o \in AllOps : o.kind = "patch" /\ Do(o)

Init == /\ lst = [a \in Addr |-> "absent"]
        /\ flav = [a \in Addr |-> "default"]
        /\ alpn = [a \in Addr |-> "both"]
        /\ loaded = [a \in Addr |-> {}]
        /\ own = [a \in Addr |-> {}]
        /\ ctx = [a \in Addr |-> Bound]
\* alpn / flav are observational (no guard, no other variable depends on them): exhaustive configurations hide them
MCView == <<lst, loaded, own, ctx>>

Next == CertCommand \/ ListenerAdd \/ ListenerRemove \/ ListenerUp \/ ListenerDown \/ ListenerPatch
Spec == Init /\ [][Next]_vars

---------------------------------------------------------------------------
(* Properties (C17, at the listener)                                                                      *)

Stores == {st \in SUBSET Variants : \A v, w \in st : V[v].fp = V[w].fp => v = w}
TypeOK == /\ lst \in [Addr -> {"absent", "down", "up"}]
          /\ flav \in [Addr -> Flavours \cup {"default"}]
          /\ alpn \in [Addr -> Alpns]
          /\ loaded \in [Addr -> Stores] /\ own \in [Addr -> Stores]
          /\ \A a \in Addr : ctx[a].bound \in BOOLEAN /\ ctx[a].priv \in Stores

\* (a) every handshake on an active listener is served what the certificates LOADED FOR ITS ADDRESS admit:
\*     a loaded covering certificate (exact over wildcard, longest-lived), the default one only when none covers
P_C17_ListenerServes ==
  \A a \in Addr : lst[a] = "up" => \A i \in ProbeIdx : Served(a, Probes[i]) \subseteq Wanted(a, Probes[i])

\* (b) only certificate commands OF THAT ADDRESS change what a listener serves: listener operations
\*     (patch, deactivate / activate) and the commands of other addresses leave the function unchanged
P_C17_OnlyCertOpsChangeServed ==
  [][\A a \in Addr : (lst[a] # "absent" /\ lst'[a] # "absent" /\ loaded'[a] = loaded[a]) =>
        \A i \in ProbeIdx : Served(a, Probes[i])' = Served(a, Probes[i])]_vars

\* (c) the certificate commands reach the resolver the handshakes consult
P_C17_CommandsReachContext ==
  \A a \in Addr : lst[a] # "absent" => ctx[a].bound /\ own[a] = loaded[a]

---------------------------------------------------------------------------
(* The spec's prediction for observers (generator / trace validation): status and, per probe name, the set *)
(* of certificates a handshake may be served; `dev` marks an address where an OPEN deviation shows         *)
Expect == [a \in Addr |->
            [st   |-> lst[a], alpn |-> alpn[a], flav |-> flav[a],
             adm  |-> [i \in ProbeIdx |-> Served(a, Probes[i])],
             dev  |-> lst[a] = "up" /\ \E i \in ProbeIdx : ~(Served(a, Probes[i]) \subseteq Wanted(a, Probes[i]))]]
=============================================================================
