"""C16, timer and buffer-pool legs (spec/TimerWheel.tla, spec/BufferPool.tla).

The two sequential library objects the C16 statement relies on ("pooled buffers in use ... return to their
baseline", "idle or stuck sessions are reclaimed within their timeouts"):
  * lib/src/timer.rs  - the hashed timer wheel Timer<T> and the TimeoutContainer wrapper on the thread-local TIMER
  * lib/src/pool.rs   - Pool (growth, accounting, gauge) and the cursor algebra of a Checkout buffer

Legs (all run in threads next to the legs of tools/props/c16.py, which calls start() / merge_into()):
  1. TLC, exhaustive on tiny instances: P_C16t_* on TimerWheel.tla (raw API; containers), P_C16p_* on BufferPool.tla
     (cursor algebra of one buffer; pool accounting with several guards); long random walks in the thorough tier.
     Self-tests: the behaviour of the code before each fix (Deviations PollRunsAhead / GrowFromZero /
     ReplaceOverflow / SliceIgnoresPosition) and the use of stale handles (Misuse) must violate a property.
  2. S->I: spec/Gen_TimerWheel.tla / Gen_BufferPool.tla make TLC print random behaviours with the predicted result of
     every call and the predicted visible state; harness/replay_timer and harness/replay_pool execute them on the real
     objects and compare after every step.
  3. I->S: the same binaries with --drive perform seeded random long op sequences on the real objects and record one
     event per call; spec/Trace_TimerWheel.tla / Trace_BufferPool.tla accept iff every event is the spec action with
     that result and post-state.  A corrupted copy of each trace must be rejected at the corrupted event.
"""
import json
import os
import re
import threading
import time

import vlib

PID = "C16"
BINS = ["replay_timer", "replay_pool"]

T_INVS = ("TypeOK P_C16t_Structure P_C16t_SlabReleased P_C16t_OnceOnly P_C16t_WheelNotAhead P_C16t_Fires "
          "P_C16t_NoneBehind P_C16t_NoOversleep P_C16t_IdleOnlyIfEmpty P_C16t_Containers P_C16t_NoSteal")
T_PROPS = "P_C16t_Results P_C16t_NotEarly"
P_INVS = "TypeOK P_C16p_InUse P_C16p_Baseline P_C16p_NoAlias P_C16p_Cursor P_C16p_Data P_C16p_NoOverflow"
P_PROPS = "P_C16p_Fresh P_C16p_Growth P_C16p_Refusal"

T_CFG = """SPECIFICATION %(spec)s
CONSTANTS
  NSlots = %(slots)d
  MaxDelay = %(maxdelay)d
  Toks = {%(toks)s}
  Conts = {%(conts)s}
  RawOps = %(raw)s
  MaxNow = %(maxnow)d
  MaxAdv = %(maxadv)d
  MaxArm = %(maxarm)d
  MaxSteps = %(steps)d
  FreePoll = %(freepoll)s
  Misuse = %(misuse)s
  Deviations = {%(dev)s}
%(gen)s%(view)s
INVARIANTS %(invs)s
%(props)s
CHECK_DEADLOCK FALSE
"""

P_CFG = """SPECIFICATION %(spec)s
CONSTANTS
  MinBuf = %(min)d
  MaxBuf = %(max)d
  Cap = %(cap)d
  Alpha = {%(alpha)s}
  MaxData = %(maxdata)d
  Guards = {%(guards)s}
  BufOps = {%(ops)s}
  MaxSteps = %(steps)d
  Deviations = {%(dev)s}
%(gen)s%(view)s
INVARIANTS %(invs)s
%(props)s
CHECK_DEADLOCK FALSE
"""

ALL_BUF_OPS = ["Write", "Consume", "Read", "Shift", "Reset", "Sync", "Delete", "Replace", "Insert"]
TIMER_RAW_ACTIONS = ["Adv", "Set", "Cancel", "Reset", "Poll"]
TIMER_CONT_ACTIONS = ["Adv", "Poll", "C_New", "C_NewEmpty", "C_Set", "C_SetDuration", "C_Cancel", "C_Reset", "C_Triggered",
                      "C_Take", "C_Drop"]
POOL_ACTIONS = ["Checkout", "DropG", "Write", "Consume", "Read", "Shift", "Reset", "Sync", "Delete", "Replace", "Insert"]


def strs(xs):
    return ", ".join('"%s"' % x for x in xs)


def nums(xs):
    return ", ".join(str(x) for x in xs)


def write(wd, name, text):
    path = os.path.join(wd, name)
    with open(path, "w") as f:
        f.write(text)
    return path


def t_cfg(wd, name, **kw):
    d = dict(spec="Spec", slots=2, maxdelay=4, toks="1", conts="", raw="TRUE", maxnow=7, maxadv=2, maxarm=2, steps=100,
             freepoll="TRUE", misuse="FALSE", dev="", gen="", view="VIEW view", invs=T_INVS, props="PROPERTIES " + T_PROPS)
    d.update(kw)
    return write(wd, name, T_CFG % d)


def p_cfg(wd, name, **kw):
    d = dict(spec="Spec", min=1, max=1, cap=4, alpha="1, 2", maxdata=2, guards=strs(["g1"]), ops=strs(ALL_BUF_OPS), steps=7,
             dev="", gen="", view="VIEW view", invs=P_INVS, props="PROPERTIES " + P_PROPS)
    d.update(kw)
    return write(wd, name, P_CFG % d)


def sim_states(r):
    m = re.search(r"The number of states generated: (\d+)", r["out"])
    return int(m.group(1)) if m else 0


class Legs:
    """Results of the timer / pool legs; filled by threads, merged into the C16 report at the end."""

    def __init__(self, tier, wd, bins):
        self.tier = tier
        self.wd = wd
        self.bins = bins
        self.out = {}
        self.errors = {}
        self.threads = []
        self.t0 = time.time()

    def spawn(self, name, fn):
        def run():
            t = time.time()
            try:
                self.out[name] = fn()
            except Exception as e:  # noqa: reported by merge_into in the main thread
                self.errors[name] = e
            vlib.log("timer/pool leg %s done in %.0fs (at +%.0fs)" % (name, time.time() - t, time.time() - self.t0))
        th = threading.Thread(target=run, name="tp-" + name)
        th.start()
        self.threads.append(th)

    # ------------------------------------------------------------------ merge
    def merge_into(self, rep):
        for th in self.threads:
            th.join()
        for name in sorted(self.errors):
            raise self.errors[name]
        extra = {}
        n_beh = 0
        distinct = 0
        # 1. TLC
        for leg in ("tlc_timer_raw", "tlc_timer_cont", "tlc_pool"):
            for label, r, kind in self.out.get(leg, []):
                rep.add_tlc(r)
                if r.get("simulated"):
                    rep.cov["transitions"] += r["simulated"]
                if kind == "must_hold" and r["violated"]:
                    rep.violation("tp:spec:%s:%s" % (label, r["violated"]),
                                  "the specification violates %s on instance %s" % (r["violated"], label), r["out"],
                                  name="tp_spec_%s.txt" % label)
                extra.setdefault("tlc", {})[label] = {"distinct": r["distinct"], "generated": r["generated"] or r.get("simulated", 0),
                                                     "wall_s": round(r["wall_s"], 1), "violated": r["violated"]}
        # 2. S->I
        for leg, what in (("timer_s2i", "timer"), ("pool_s2i", "pool")):
            res = self.out.get(leg)
            if not res:
                continue
            for g in res["gens"]:
                rep.add_tlc(g)
                rep.cov["transitions"] += sim_states(g)
            summ = res["summary"]
            k = 0
            for v in res["violations"][:5]:   # (Report prints 20 lines in all: leave room for the other legs)
                k += 1
                obj = {"tp": what, "kind": "behaviour", "class": v["class"], "detail": v["detail"], "input": v.get("input"),
                       "params": res["params"]}
                rep.violation("tp:%s:%s" % (what, v["class"]), v["detail"]["what"][:300], obj, name="tp_%s_behaviour_%d.json" % (what, k))
            if len(res["violations"]) > 5:
                rep.violation("tp:%s:more" % what, "%d more %s behaviours failed in the S->I replay (%d in all)"
                              % (summ["violations"] - 5, what, summ["violations"]), summ, name="tp_%s_more.json" % what)
            if summ["violations"] and not res["violations"]:
                rep.violation("tp:%s:unlisted" % what, "%d replay violations" % summ["violations"], summ, name="tp_%s_unlisted.json" % what)
            rep.cov["evaluations"] += summ["comparisons"]
            n_beh += summ.get("replayed", summ["behaviours"]) - summ["violations"]
            distinct += summ["distinct"]
            rep.add_samples(["%s S->I: %s" % (what, s) for s in summ["samples"]], 1)
            extra[leg] = {k2: summ[k2] for k2 in summ if k2 not in ("samples", "kind")}
        # 3. I->S
        for leg, what in (("timer_i2s", "timer"), ("pool_i2s", "pool")):
            res = self.out.get(leg)
            if not res:
                continue
            summ, t, trace = res["summary"], res["trace_result"], res["trace"]
            rep.add_tlc(t)
            rep.cov["evaluations"] += summ["events"]
            for v in res["violations"][:3]:
                rep.violation("tp:%s:%s" % (what, v["class"]), json.dumps(v["detail"])[:300],
                              "".join(json.dumps(e) + "\n" for e in v.get("events", [])) or json.dumps(v),
                              name="tp_%s_trace_panic_run_%s.ndjson" % (what, v["detail"].get("run")))
            if t["accepted"]:
                n_beh += summ["traces"]
            else:
                report_rejection(rep, t, trace, what)
            extra[leg] = {k2: summ[k2] for k2 in summ if k2 not in ("kind",)}
            extra[leg]["accepted"] = t["accepted"]
            extra[leg]["canary_rejected_at"] = res.get("canary")
            rep.add_samples(["%s I->S: %d recorded runs, %d events, by action %s" % (what, summ["traces"], summ["events"],
                                                                                   json.dumps(summ["by_action"], sort_keys=True))], 1)
        rep.cov["traces_validated_against_impl"] += n_beh
        rep.cov["distinct_nontrivial"] += distinct
        rep.cov["rule"] += ("; timer / pool legs: distinct_nontrivial adds the distinct (operation, clock tick) signatures of the replayed "
                            "timer behaviours and the distinct (operation, outcome, windows of the held buffers) situations in which a "
                            "pool operation was replayed")
        rep.extra["timer_pool"] = extra
        rep.extra["timer_pool"]["wall_s"] = round(time.time() - self.t0, 1)
        rep.assumptions += [
            "timer legs: delays are whole ticks; the real Timer reads Instant::now(): the harness calls it only in the middle of a tick "
            "window (wheel start bracketed within 1.5 ms, the clock re-read after every call); a behaviour whose call may have straddled a "
            "window edge is retried with a tick twice as long (30/60/120 ms) and otherwise discarded and counted, never judged",
            "timer legs: a Timeout handle's slab key / tick and a TimeoutContainer's fields are read from their Debug output; the number "
            "of slab entries is not observable through the public API (it is implied by the keys handed out)",
            "pool legs: buffer capacity 8 (the entry alignment), up to 4 guards, pools of at most 3-4 buffers; data() is compared byte "
            "for byte, bytes outside the window are never looked at (sync is only driven inside the current window)",
        ]


def report_rejection(rep, t, trace, what):
    consumed = t["consumed"] if t["consumed"] is not None else 0
    seg, ev = segment_of(trace, consumed)
    why = ("invariant / property %s violated after the event" % t["violated"]) if t["violated"] else \
        "no action of the spec explains the event (result or post-state differs)"
    ev = dict(ev)
    for k in ("conts", "bufs"):
        ev.pop(k, None)
    klass = "tp:%s:trace:%s:%s" % (what, "invariant:%s" % t["violated"] if t["violated"] else "rejected", ev.get("ev", "?"))
    rep.violation(klass, "event %d of the recorded %s history: %s: %s" % (consumed + 1, what, json.dumps(ev)[:160], why), seg,
                  name="tp_%s_trace_rejected.ndjson" % what)


def segment_of(trace_path, index):
    """The run (reset .. event `index`, 0-based) that contains event `index`, as ndjson text."""
    with open(trace_path) as f:
        lines = f.readlines()
    if not lines:
        return "", {}
    index = min(index, len(lines) - 1)
    start = index
    while start > 0 and '"ev":"reset"' not in lines[start]:
        start -= 1
    return "".join(lines[start:index + 1]), json.loads(lines[index])


# ---------------------------------------------------------------------- TLC legs

def tlc_timer_raw(wd, thorough):
    res = []
    w = 4 if thorough else 2
    if thorough:
        r = vlib.tlc("TimerWheel", t_cfg(wd, "tp_t_raw.cfg", maxdelay=5, toks="1", maxarm=3, maxnow=7, steps=9), PID, workers=w,
                     timeout=900, coverage=False)
    else:
        r = vlib.tlc("TimerWheel", t_cfg(wd, "tp_t_raw.cfg", maxnow=6), PID, workers=w, timeout=600, coverage=True)
        vlib.require_actions_covered(r, TIMER_RAW_ACTIONS)
    res.append(("timer_raw", r, "must_hold"))
    # self-tests: the code before fix 54e81eb under the event loop's own discipline; stale handles
    r = vlib.tlc("TimerWheel", t_cfg(wd, "tp_t_dev.cfg", maxdelay=3, steps=10, freepoll="FALSE", dev=strs(["PollRunsAhead"])), PID,
                 workers=2, timeout=600)
    if r["violated"] not in ("P_C16t_WheelNotAhead", "P_C16t_NotEarly"):
        raise vlib.ToolError("self-test: deviation PollRunsAhead no longer violates P_C16t_WheelNotAhead (%s)" % r["violated"])
    res.append(("timer_selftest_PollRunsAhead", r, "must_fail"))
    r = vlib.tlc("TimerWheel", t_cfg(wd, "tp_t_misuse.cfg", maxdelay=3, maxarm=3, maxnow=6, steps=9, misuse="TRUE",
                                     invs="TypeOK StealPossible", props=""), PID, workers=2, timeout=600)
    if r["violated"] != "StealPossible":
        raise vlib.ToolError("self-test: a stale Timeout handle can no longer cancel another timeout in the model (%s)" % r["violated"])
    res.append(("timer_selftest_stale_handle", r, "must_fail"))
    if thorough:
        # long random walks on a bigger wheel, every property checked
        r = vlib.tlc("TimerWheel", t_cfg(wd, "tp_t_sim.cfg", slots=4, maxdelay=9, toks="1, 2", conts=strs(["c1", "c2"]), maxnow=40,
                                         maxadv=3, maxarm=14, steps=60, view=""), PID, workers=4, simulate="num=1000000", depth=70,
                     timeout=150)
        r["simulated"] = sim_states(r) or progress_states(r)
        res.append(("timer_random_walks", r, "must_hold"))
    return res


def progress_states(r):
    m = re.findall(r"Progress: (\d+) states checked", r["out"])
    return int(m[-1]) if m else 0


def tlc_timer_cont(wd, thorough):
    w = 4 if thorough else 2
    if thorough:
        cfg = t_cfg(wd, "tp_t_cont.cfg", maxdelay=3, conts=strs(["c1", "c2"]), raw="FALSE", maxnow=6, maxarm=3, steps=8)
    else:
        cfg = t_cfg(wd, "tp_t_cont.cfg", maxdelay=3, conts=strs(["c1", "c2"]), raw="FALSE", maxnow=5, maxarm=2, steps=5)
    r = vlib.tlc("TimerWheel", cfg, PID, workers=w, timeout=900, coverage=not thorough)
    if not thorough:
        vlib.require_actions_covered(r, TIMER_CONT_ACTIONS)
    return [("timer_containers", r, "must_hold")]


def tlc_pool(wd, thorough):
    res = []
    w = 4 if thorough else 2
    # the cursor algebra of one buffer: the complete state graph for capacity 4 (6 in the thorough tier)
    if thorough:
        cfg = p_cfg(wd, "tp_p_buf.cfg", cap=6, maxdata=2, steps=100)
    else:
        cfg = p_cfg(wd, "tp_p_buf.cfg", steps=100)
    r = vlib.tlc("BufferPool", cfg, PID, workers=w, timeout=900, coverage=not thorough)
    if not thorough:
        vlib.require_actions_covered(r, POOL_ACTIONS)
    res.append(("pool_cursor_algebra", r, "must_hold"))
    # pool accounting: more guards than buffers, growth from 0, reuse of a dropped buffer
    r = vlib.tlc("BufferPool", p_cfg(wd, "tp_p_pool.cfg", min=0, max=3, cap=2, alpha="1", maxdata=1, guards=strs(["g1", "g2", "g3", "g4"]),
                                     ops=strs(["Write", "Consume"]), steps=10 if thorough else 9), PID, workers=w, timeout=900)
    res.append(("pool_accounting", r, "must_hold"))
    # self-tests: the code before each of the three fixes must violate a property
    for dev, kw, expect in (("GrowFromZero", dict(min=0, max=2, cap=2, alpha="1", maxdata=1, guards=strs(["g1", "g2"]), ops="", steps=4),
                             ("P_C16p_Growth",)),
                            ("ReplaceOverflow", dict(steps=7), ("P_C16p_Cursor", "P_C16p_NoOverflow")),
                            ("SliceIgnoresPosition", dict(steps=7), ("P_C16p_Data",))):
        r = vlib.tlc("BufferPool", p_cfg(wd, "tp_p_dev_%s.cfg" % dev, dev=strs([dev]), **kw), PID, workers=2, timeout=600)
        if r["violated"] not in expect:
            raise vlib.ToolError("self-test: deviation %s no longer violates %s (%s)" % (dev, "/".join(expect), r["violated"]))
        res.append(("pool_selftest_%s" % dev, r, "must_fail"))
    return res


# ---------------------------------------------------------------------- S->I

TIMER_GEN = "  WAdv = 4\n  WPoll = 16\n  WCancel = 4\n  WC = 2\n  GDurs = {0, 1, 2, 4, 5, 9}\n"
POOL_GEN = "  WPool = 6\n  WSmall = 2\n  GDatas <- MCDatas\n  GLong <- MCLong\n"
TIMER_PARAMS = {"slots": 4, "tick_ms": 30}
POOL_PARAMS = {"min": 1, "max": 2, "size": 8, "cap": 8}


def collect(f):
    return lambda o: f.write(json.dumps(o) + "\n")


def timer_s2i(wd, bins, thorough):
    beh = os.path.join(wd, "tp_timer_behaviours.ndjson")
    gens = []
    num = 100 if thorough else 20
    with open(beh, "w") as f:
        for name, misuse in (("tp_t_gen.cfg", "FALSE"), ("tp_t_gen_misuse.cfg", "TRUE")):
            cfg = t_cfg(wd, name, spec="GenSpec", slots=4, maxdelay=9, toks="1, 2", conts=strs(["c1", "c2", "c3"]), maxnow=14, maxadv=3,
                        maxarm=12, steps=18, misuse=misuse, gen=TIMER_GEN, view="", invs="EmitHist", props="")
            g = vlib.tlc("Gen_TimerWheel", cfg, PID, workers=4, timeout=600, simulate="num=%d" % num, depth=24, want_replay=True,
                         replay_sink=collect(f))
            if g["violated"] or g["n_replays"] == 0:
                raise vlib.ToolError("timer generator run failed: violated=%s behaviours=%d" % (g["violated"], g["n_replays"]))
            gens.append(g)
    return run_replay(bins["replay_timer"], ["--slots", "4", "--tick-ms", "30"], beh, gens, TIMER_PARAMS,
                      TIMER_RAW_ACTIONS[1:] + TIMER_CONT_ACTIONS[2:] + ["Adv"])


def pool_s2i(wd, bins, thorough):
    beh = os.path.join(wd, "tp_pool_behaviours.ndjson")
    num = 60 if thorough else 15
    with open(beh, "w") as f:
        cfg = p_cfg(wd, "tp_p_gen.cfg", spec="GenSpec", min=1, max=2, cap=8, alpha="1, 2, 3", maxdata=3, guards=strs(["g1", "g2", "g3"]),
                    steps=30, gen=POOL_GEN, view="", invs="EmitHist", props="")
        g = vlib.tlc("Gen_BufferPool", cfg, PID, workers=4, timeout=600, simulate="num=%d" % num, depth=40, want_replay=True,
                     replay_sink=collect(f))
        if g["violated"] or g["n_replays"] == 0:
            raise vlib.ToolError("pool generator run failed: violated=%s behaviours=%d" % (g["violated"], g["n_replays"]))
    return run_replay(bins["replay_pool"], ["--min", "1", "--max", "2", "--size", "8", "--cap", "8"], beh, [g], POOL_PARAMS,
                      ["Checkout", "Drop"] + ALL_BUF_OPS)


def run_replay(binary, args, beh, gens, params, required_ops):
    o = vlib.run_harness(binary, args, stdin_path=beh, timeout=900)
    summ = [x for x in o if x.get("kind") == "summary"]
    if not summ:
        raise vlib.ToolError("%s produced no summary" % os.path.basename(binary))
    summ = summ[0]
    viol = [x for x in o if x.get("kind") == "violation"]
    if not viol:
        missing = [op for op in required_ops if summ["by_op"].get(op, 0) == 0]
        if missing:
            raise vlib.ToolError("vacuous generator run (%s): operations never replayed: %s" % (os.path.basename(binary), missing))
    disc = summ.get("discarded_timing", 0)
    if disc * 2 > max(1, summ["behaviours"]):
        raise vlib.ToolError("%s: %d of %d behaviours were inconclusive (clock left the tick window): %s"
                             % (os.path.basename(binary), disc, summ["behaviours"], summ.get("timing_notes")))
    return {"gens": gens, "summary": summ, "violations": viol, "params": params, "behaviours": beh}


# ---------------------------------------------------------------------- I->S

def timer_i2s(wd, bins, thorough):
    trace = os.path.join(wd, "tp_timer_trace.ndjson")
    runs, steps = (160, 80) if thorough else (40, 60)
    o = vlib.run_harness(bins["replay_timer"], ["--drive", "--seed", str(vlib.seed()), "--runs", str(runs), "--steps", str(steps),
                                                "--slots", "4", "--tick-ms", "30", "--out", trace], timeout=900)
    return validate(wd, o, trace, "Trace_TimerWheel", "Trace_TimerWheel.cfg", "timer",
                    ["Adv", "Set", "Cancel", "Reset", "Poll"] + TIMER_CONT_ACTIONS[2:], corrupt_timer)


def pool_i2s(wd, bins, thorough):
    trace = os.path.join(wd, "tp_pool_trace.ndjson")
    runs, steps = (200, 150) if thorough else (50, 120)
    o = vlib.run_harness(bins["replay_pool"], ["--drive", "--seed", str(vlib.seed()), "--runs", str(runs), "--steps", str(steps),
                                               "--max", "3", "--size", "8", "--out", trace], timeout=900)
    return validate(wd, o, trace, "Trace_BufferPool", "Trace_BufferPool.cfg", "pool", ["Checkout", "Drop"] + ALL_BUF_OPS, corrupt_pool)


def validate(wd, o, trace, module, cfg, what, required, corrupt):
    summ = [x for x in o if x.get("kind") == "summary"]
    if not summ:
        raise vlib.ToolError("the %s driver produced no summary" % what)
    summ = summ[0]
    viol = [x for x in o if x.get("kind") == "violation"]
    missing = [a for a in required if summ["by_action"].get(a, 0) == 0]
    if missing and not viol:
        raise vlib.ToolError("vacuous %s driver run: actions never performed: %s" % (what, missing))
    if summ["traces"] * 2 < summ["runs"] and not viol:
        raise vlib.ToolError("the %s driver recorded only %d of %d runs (%s)" % (what, summ["traces"], summ["runs"], summ.get("timing_notes")))
    t = vlib.tlc_trace(module, cfg, PID, trace, timeout=900)
    res = {"summary": summ, "violations": viol, "trace_result": t, "trace": trace}
    if t["accepted"]:
        # self-test of the binding: a corrupted event must be rejected exactly there
        with open(trace) as f:
            evs = [json.loads(line) for line in f]
        evs = evs[:1500]
        at = corrupt(evs)
        if at is None:
            raise vlib.ToolError("canary (%s): nothing to corrupt in the recorded events" % what)
        cpath = os.path.join(wd, "tp_%s_canary.ndjson" % what)
        with open(cpath, "w") as f:
            f.write("".join(json.dumps(e) + "\n" for e in evs))
        c = vlib.tlc_trace(module, cfg, PID, cpath, timeout=600)
        if c["accepted"] or c["consumed"] != at:
            raise vlib.ToolError("canary (%s): corrupted event %d not rejected there (accepted=%s consumed=%s)"
                                 % (what, at, c["accepted"], c["consumed"]))
        res["canary"] = at
    return res


def corrupt_timer(evs):
    """a timeout that fired is reported as not fired (a lost timeout)"""
    for i, e in enumerate(evs):
        if i > 30 and e.get("ev") == "Poll" and e.get("ret", -1) >= 0:
            e["ret"] = -1
            return i
    return None


def corrupt_pool(evs):
    """one byte of a buffer's data() differs"""
    for i, e in enumerate(evs):
        if i > 30 and e.get("ev") in ("Insert", "Replace", "Shift", "Consume") and e.get("ret", 0) != -1:
            for g, b in sorted(e["bufs"].items()):
                if b["held"] and len(b["data"]) >= 2:
                    b["data"][-1] = b["data"][-1] % 3 + 1
                    return i
    return None


# ---------------------------------------------------------------------- entry points

def start(tier, wd_parent):
    """Build the two harness binaries and start every leg in its own thread. Returns the Legs to merge."""
    wd = os.path.join(wd_parent, "tp")
    os.makedirs(wd, exist_ok=True)
    bins = vlib.cargo_build(BINS)
    thorough = tier == "thorough"
    legs = Legs(tier, wd, bins)
    legs.spawn("tlc_timer_raw", lambda: tlc_timer_raw(wd, thorough))
    legs.spawn("tlc_timer_cont", lambda: tlc_timer_cont(wd, thorough))
    legs.spawn("tlc_pool", lambda: tlc_pool(wd, thorough))
    legs.spawn("timer_s2i", lambda: timer_s2i(wd, bins, thorough))
    legs.spawn("pool_s2i", lambda: pool_s2i(wd, bins, thorough))
    legs.spawn("timer_i2s", lambda: timer_i2s(wd, bins, thorough))
    legs.spawn("pool_i2s", lambda: pool_i2s(wd, bins, thorough))
    return legs


def handles(path):
    """Is this replay artefact one of ours? (tp_* file names; a JSON object with a "tp" field; a trace whose
    first event is the timer's / pool's reset)"""
    base = os.path.basename(path)
    if base.startswith("tp_"):
        return True
    try:
        with open(path) as f:
            head = f.read(400)
    except OSError:
        return False
    return '"tp"' in head or ('"ev":"reset"' in head.replace(" ", "") and ('"slots"' in head or '"min"' in head))


def replay(rep, path):
    """./check C16 --replay <artefact of these legs>: re-run it verbosely."""
    wd = os.path.join(vlib.workdir(PID, clean=False), "tp")
    os.makedirs(wd, exist_ok=True)
    bins = vlib.cargo_build(BINS)
    with open(path) as f:
        text = f.read()
    try:
        whole = json.loads(text)
    except ValueError:
        whole = None
    if text.lstrip().startswith("["):
        # a file of generated behaviours (one per line)
        whole = {"tp": "timer" if '"conts"' in text[:4000] else "pool", "input": None}
    if isinstance(whole, dict) and "input" in whole:
        what = whole.get("tp", "timer")
        beh = os.path.join(wd, "tp_replay_input.ndjson")
        with open(beh, "w") as f:
            f.write(text if whole["input"] is None else json.dumps(whole["input"]) + "\n")
        p = whole.get("params", TIMER_PARAMS if what == "timer" else POOL_PARAMS)
        if what == "timer":
            o = vlib.run_harness(bins["replay_timer"], ["--slots", str(p["slots"]), "--tick-ms", str(p["tick_ms"])], stdin_path=beh)
        else:
            o = vlib.run_harness(bins["replay_pool"], ["--min", str(p["min"]), "--max", str(p["max"]), "--size", str(p["size"]),
                                                       "--cap", str(p["cap"])], stdin_path=beh)
        for v in o:
            print(json.dumps(v)[:3000])
            if v.get("kind") == "violation":
                obj = {"tp": what, "kind": "behaviour", "class": v["class"], "detail": v["detail"], "input": v.get("input"), "params": p}
                rep.violation("tp:%s:%s" % (what, v["class"]), v["detail"]["what"][:300], obj,
                              name="tp_%s_replayed_%d.json" % (what, v["detail"].get("behaviour", 0)))
        rep.cov["traces_validated_against_impl"] = sum(x.get("replayed", x.get("behaviours", 0)) for x in o if x.get("kind") == "summary")
        return
    if isinstance(whole, dict) or text.lstrip().startswith("the specification") or "Error:" in text[:2000] and '"ev"' not in text[:2000]:
        print(text[-3000:])
        raise vlib.ToolError("this artefact is a TLC counterexample of the specification itself: re-run ./check C16")
    # a recorded trace
    what = "timer" if '"slots"' in text[:400] or "timer" in os.path.basename(path) else "pool"
    module, cfg = ("Trace_TimerWheel", "Trace_TimerWheel.cfg") if what == "timer" else ("Trace_BufferPool", "Trace_BufferPool.cfg")
    t = vlib.tlc_trace(module, cfg, PID, path, timeout=900)
    print(t["out"][-3000:])
    rep.add_tlc(t)
    if t["accepted"]:
        rep.cov["traces_validated_against_impl"] = 1
    else:
        report_rejection(rep, t, path, what)
