--------------------------- MODULE Trace_WorkerCtl ---------------------------
(***************************************************************************)
(* Trace validation for WorkerCtl (C08): is the ndjson trace recorded by    *)
(* harness/src/bin/drive_workerctl.rs on a REAL worker a behaviour of the   *)
(* specification?  Events, one per line, many runs per file:                *)
(*   reset {run}                     a fresh worker                         *)
(*   send  {run,id,k,a}              the harness wrote request id (info)    *)
(*   cmd   {run,id,k,a,ok,failure,processing,base,slab,extra}              *)
(*                                   hook `worker_cmd`, emitted by the      *)
(*                                   worker thread when request id has been *)
(*                                   handled: responses pushed for the id,  *)
(*                                   base_sessions_count, slab length;      *)
(*                                   extra = upper bound on client-session  *)
(*                                   slab entries at that time              *)
(*   resp  {run,id,st}               a response read from the channel       *)
(*   probe {run,l,h,out}             what a client observed on listener l   *)
(*   view  {run,c,present,hc,hf,tf,be[,uf,alt]}  the worker's               *)
(*                                   QueryClusterById(c) answer in the      *)
(*                                   spec's ids (uf / alt: udp frontends,   *)
(*                                   alternative definition; absent in      *)
(*                                   older recordings)                      *)
(*   exit  {run,how}                 the worker thread ended (clean/panic/  *)
(*                                   hang)                                  *)
(*   hold  {run,a} / release {run,a} the harness bound / dropped a plain    *)
(*                                   socket (no SO_REUSEPORT) on listener   *)
(*                                   address a (Env_HoldAddress / Release)  *)
(*   holdfail {run,a}                its bind was refused: a proxy listener *)
(*                                   is bound to the address                *)
(* Within a batch the harness writes the cmd events (worker order) and then *)
(* the responses (channel order): cmd(i) happens before resp(i) through the *)
(* channel, so this is a linearisation, not a wall-clock merge.             *)
(* Silent steps: Flush and LoopEnd.                                         *)
(***************************************************************************)
EXTENDS MC_WorkerCtl, IOUtils

ASSUME TLCSet(1, 0)

Rec == ndJsonDeserialize(IOEnv.TRACE)

VARIABLES i,      \* next event to consume
          rd,     \* responses of `out` already matched with resp events
          silent  \* consecutive silent steps

tvars == <<vars, i, rd, silent>>

Ev == Rec[i]
Is(e) == i <= Len(Rec) /\ Ev.ev = e
Consume == i' = i + 1 /\ silent' = 0

TInit == Init /\ i = 1 /\ rd = 0 /\ silent = 0

\* a fresh worker; everything the previous one produced must have been observed
T_Reset ==
  /\ Is("reset")
  /\ rd = Len(out) /\ queue = <<>>
  /\ cfg' = CfgInit /\ rl' = {} /\ slabL' = {} /\ base' = SysEntries /\ rcl' = {} /\ rbe' = {}
  /\ queue' = <<>> /\ out' = <<>> /\ n' = 0 /\ term' = [j \in 1..MaxReq |-> 0]
  /\ shut' = 0 /\ stopped' = FALSE /\ handed' = FALSE /\ allOk' = TRUE /\ hist' = <<>> /\ prev' = <<>>
  /\ gate' = TRUE /\ pending' = {} /\ crashed' = FALSE /\ held' = {} /\ ralt' = {}
  /\ rd' = 0 /\ Consume

T_Send == Is("send") /\ Consume /\ UNCHANGED <<vars, rd>>

Pushed(st) == LET new == SubSeq(queue', Len(queue) + 1, Len(queue'))
              IN Cardinality({j \in 1..Len(new) : new[j].st = st /\ new[j].id = Ev.id})
\* status "final" (the answer of a malformed request): one terminal answer, Ok or Failure
PushedOk(e) == /\ e.ok >= Pushed("ok") /\ e.failure >= Pushed("failure")
               /\ e.ok + e.failure = Pushed("ok") + Pushed("failure") + Pushed("final")

T_Cmd ==
  /\ Is("cmd")
  /\ Ev.id = n + 1
  /\ Recv([k |-> Ev.k, a |-> Ev.a])
  /\ base' = Ev.base
  \* the slab holds the system entries, the listener entries and at most `extra` session entries
  /\ SysEntries + Cardinality(slabL') <= Ev.slab
  /\ Ev.slab <= SysEntries + Cardinality(slabL') + Ev.extra
  /\ IF Ev.k = "HardStop"
     THEN Ev.processing = 1 /\ Ev.ok = 0 /\ Ev.failure = 0     \* the final Ok is written after the hook point
     ELSE PushedOk(Ev) /\ Ev.processing = Pushed("processing")
  /\ UNCHANGED rd /\ Consume

T_Resp ==
  /\ Is("resp")
  /\ rd < Len(out)
  /\ out[rd + 1].id = Ev.id
  /\ \/ out[rd + 1].st = Ev.st
     \/ out[rd + 1].st = "final" /\ Ev.st \in {"ok", "failure"}
  /\ rd' = rd + 1 /\ Consume /\ UNCHANGED vars

T_Probe ==
  /\ Is("probe")
  /\ Ev.out \in Probes[Ev.l][Ev.h]
  /\ Consume /\ UNCHANGED <<vars, rd>>

\* the worker's answer to QueryClusterById, projected by the harness onto the spec's ids
AsSet(q) == {q[j] : j \in 1..Len(q)}
T_View ==
  /\ Is("view")
  /\ Ev.present = (Ev.c \in cfg.cl)
  /\ Ev.present =>
       /\ Ev.hc = (Ev.c \in cfg.hc)
       /\ AsSet(Ev.hf) = {f \in cfg.hf : FDef[f].cluster = Ev.c}
       /\ AsSet(Ev.tf) = {t \in cfg.tf : TDef[t].cluster = Ev.c}
       /\ AsSet(Ev.be) = {b \in cfg.be : BDef[b].cluster = Ev.c}
       /\ "uf" \in DOMAIN Ev => AsSet(Ev.uf) = {u \in cfg.uf : UDef[u].cluster = Ev.c}
       /\ "alt" \in DOMAIN Ev => Ev.alt = (Ev.c \in cfg.alt)
  /\ Consume /\ UNCHANGED <<vars, rd>>

T_Exit ==
  /\ Is("exit")
  /\ Ev.how = "clean" /\ stopped
  /\ Consume /\ UNCHANGED <<vars, rd>>

\* the environment's OS-level faults (the harness is the foreign process)
T_Hold ==
  /\ Is("hold")
  /\ Env_HoldAddress(Ev.a)
  /\ UNCHANGED rd /\ Consume
T_Release ==
  /\ Is("release")
  /\ Env_ReleaseAddress(Ev.a)
  /\ UNCHANGED rd /\ Consume
T_HoldFail ==
  /\ Is("holdfail")
  /\ BoundBySozu(Ev.a)
  /\ Consume /\ UNCHANGED <<vars, rd>>

T_Silent ==
  /\ silent < 2 /\ i <= Len(Rec)
  /\ (Flush \/ LoopEnd)
  /\ silent' = silent + 1 /\ UNCHANGED <<i, rd>>

TraceNext == T_Reset \/ T_Send \/ T_Cmd \/ T_Resp \/ T_Probe \/ T_View \/ T_Exit \/ T_Silent
             \/ T_Hold \/ T_Release \/ T_HoldFail
TraceSpec == TInit /\ [][TraceNext]_tvars

\* register 1 = highest number of events consumed on any explored path
Track == TLCSet(1, IF i - 1 > TLCGet(1) THEN i - 1 ELSE TLCGet(1))

TraceAccepted ==
  LET consumed == TLCGet(1) IN
  IF consumed = Len(Rec)
  THEN PrintT(<<"TRACE-ACCEPTED", consumed>>)
  ELSE /\ PrintT(<<"TRACE-REJECTED", consumed, Len(Rec)>>)
       /\ PrintT(<<"first unmatched event", Rec[consumed + 1]>>)
=============================================================================
