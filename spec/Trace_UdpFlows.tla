--------------------------- MODULE Trace_UdpFlows ---------------------------
(***************************************************************************)
(* I->S trace validation for UdpFlows (property C19).                      *)
(*                                                                         *)
(* The trace (harness/drive_udp) is ndjson, one event per call into the    *)
(* real UdpManager, many runs concatenated:                                *)
(*   {"ev":"reset","run":r,"cluster":CfgT,"maxFlows":k,"maxRx":k}          *)
(*   {"ev":"step","run":r,"now":t,"inp":{..},"out":[..],"post":ObsT}       *)
(* `inp` and `out` have the record shapes of UdpFlows.tla; the opaque      *)
(* affinity hash of SelectBackend is logged as its first-seen number       *)
(* within the run ({"idx":k}) and compared relationally (kmap).            *)
(* The manager is deterministic, so the trace spec has one successor per   *)
(* state: the clock is advanced to the event's `now` (a Tick-like step),   *)
(* then the event must be exactly Step(state, input): same output          *)
(* sequence, same visible state. The step properties of C19 and the        *)
(* structural invariants are evaluated on every step.                      *)
(***************************************************************************)
EXTENDS UdpFlows, IOUtils

ASSUME TLCSet(1, 0)

Rec == ndJsonDeserialize(IOEnv.TRACE)

VARIABLES idx,      \* next event to explain
          kmap      \* spec affinity key -> logged hash number (this run)

tvars == <<vars, idx, kmap>>

CfgOf(a) == Cfg(a[1], a[2] = 1, a[3], a[4], a[5], a[6], a[7] = 1, a[8] = 1)

InputOf(e) ==
  IF e.inp.op = "Config" /\ e.inp.ev.what = "SetCluster"
  THEN [op |-> "Config", ev |-> [what |-> "SetCluster", cfg |-> CfgOf(e.inp.ev.cfg)]]
  ELSE e.inp

KeyOK(km, key, k) == IF key \in DOMAIN km THEN km[key] = k ELSE \A x \in DOMAIN km : km[x] # k

OutMatch(so, lo, km) ==
  /\ Len(so) = Len(lo)
  /\ \A j \in 1..Len(so) :
        IF so[j].k = "SelectBackend"
        THEN /\ lo[j].k = "SelectBackend" /\ lo[j].flow = so[j].flow /\ lo[j].cluster = so[j].cluster
             /\ KeyOK(km, so[j].key, lo[j].key.idx)
        ELSE so[j] = lo[j]

KeysAfter(so, lo, km) ==
  LET js == {j \in 1..Len(so) : so[j].k = "SelectBackend"}
  IN IF js = {} THEN km ELSE LET j == CHOOSE x \in js : TRUE IN (so[j].key :> lo[j].key.idx) @@ km

SetCore(s) ==
  /\ table' = s.table /\ flows' = s.flows /\ free' = s.free /\ slabLen' = s.slabLen
  /\ maxFlows' = s.maxFlows /\ maxRx' = s.maxRx /\ draining' = s.draining /\ cluster' = s.cluster
  /\ armed' = s.armed /\ now' = s.now

TInit ==
  /\ table = <<>> /\ flows = <<>> /\ free = <<>> /\ slabLen = 0
  /\ maxFlows = 1 /\ maxRx = 1 /\ draining = FALSE /\ cluster = Base(TRUE)
  /\ armed = NoTimer /\ now = 0 /\ n = 0 /\ inp = [op |-> "Init"] /\ out = <<>> /\ hist = <<>>
  /\ idx = 1 /\ kmap = <<>>

\* a new run: a fresh manager
TReset(e) ==
  /\ SetCore([table |-> <<>>, flows |-> <<>>, free |-> <<>>, slabLen |-> 0, maxFlows |-> e.maxFlows, maxRx |-> e.maxRx,
              draining |-> FALSE, cluster |-> CfgOf(e.cluster), armed |-> NoTimer, now |-> 0])
  /\ n' = 0 /\ inp' = [op |-> "Init"] /\ out' = <<>> /\ hist' = hist /\ kmap' = <<>> /\ idx' = idx + 1

\* the clock moves to the time injected into the next call
TAdvance(e) ==
  /\ e.now > now
  /\ SetCore([St EXCEPT !.now = e.now])
  /\ n' = n /\ inp' = [op |-> "Tick"] /\ out' = <<>> /\ hist' = hist /\ UNCHANGED <<idx, kmap>>

\* the call itself: it must be the spec's step for that input
TCall(e) ==
  /\ e.now = now
  /\ LET i == InputOf(e)
         r == Step(St, i)
     IN /\ IF OutMatch(r.out, e.out, kmap) /\ ObsT(r.s) = e.post THEN TRUE
           ELSE PrintT(<<"MISMATCH at event", idx, "spec out", r.out, "spec state", ObsT(r.s)>>) /\ FALSE
        /\ SetCore(r.s)
        /\ n' = n + 1 /\ inp' = i /\ out' = r.out /\ hist' = hist
        /\ kmap' = KeysAfter(r.out, e.out, kmap)
        /\ idx' = idx + 1

TNext ==
  /\ idx <= Len(Rec)
  /\ LET e == Rec[idx] IN IF e.ev = "reset" THEN TReset(e) ELSE (TAdvance(e) \/ TCall(e))

TraceSpec == TInit /\ [][TNext]_tvars

Track == (idx - 1 > TLCGet(1) => TLCSet(1, idx - 1)) /\ TRUE

TraceAccepted ==
  /\ IF TLCGet(1) = Len(Rec)
     THEN PrintT(<<"TRACE-ACCEPTED", TLCGet(1)>>)
     ELSE /\ PrintT(<<"TRACE-REJECTED", TLCGet(1), Len(Rec)>>)
          /\ PrintT(<<"FIRST-UNEXPLAINED", Rec[TLCGet(1) + 1]>>)
  /\ TRUE

\* the C19 step properties on the recorded steps (a reset is not a step of the manager)
IsStep == inp'.op # "Init"
T_C19_Sticky    == [][IsStep => StickyOK(St, inp', out', St', FALSE)]_tvars
T_C19_StickyModuloRekey == [][IsStep => StickyOK(St, inp', out', St', RekeyCase(St, inp'))]_tvars
T_C19_Isolation == [][IsStep => IsolationOK(St, inp', out', St')]_tvars
T_C19_Integrity == [][IsStep => IntegrityOK(St, inp', out', St')]_tvars
T_C19_Cap       == [][IsStep => CapOK(St, inp', out', St')]_tvars
T_C19_Teardown  == [][IsStep => TeardownOK(St, inp', out', St')]_tvars
T_C19_Timer     == [][IsStep => TimerOK(St, inp', out', St')]_tvars
=============================================================================
