----------------------------- MODULE ConfigState -----------------------------
(***************************************************************************)
(* sozu_command_lib::state::ConfigState (command/src/state.rs).            *)
(*                                                                         *)
(* State `st`: a record holding the maps of ConfigState as sets of records *)
(* over small universes:                                                   *)
(*   lst  listeners of the four kinds, keyed (k, a)                        *)
(*   clu  clusters keyed c          bke  backends keyed (c, b, x)          *)
(*   hfr  http/https frontends keyed (p, a, h, pk, pv, m)                  *)
(*   crt  certificates keyed (a, k)  (k stands for the fingerprint)        *)
(*   tfr  tcp/udp frontends, at most one per (p, c, a)                     *)
(* The per-cluster / per-address buckets of the code (`backends`,          *)
(* `certificates`, `tcp_fronts`, `udp_fronts`) exist exactly when they are *)
(* not empty; `Proj` exposes the bucket key sets so that the conformance   *)
(* legs compare them with the real maps.  `request_counts` is bookkeeping  *)
(* and not part of the configuration.                                      *)
(*                                                                         *)
(* One operator D_<Arm>(s, c) per RequestType arm of `dispatch`, returning *)
(* [res, st]: the code's acceptance condition and effect.  Commands are    *)
(* records whose `verb` is the RequestType name.  `Generate`, `Diff` and   *)
(* `ApplyAll` transcribe generate_requests, diff and the replay loops.     *)
(*                                                                         *)
(* Properties: P_C05 (save/replay), P_C06 (diff), P_C07 (rejected commands *)
(* leave no trace, accepted ones change only what they name).              *)
(***************************************************************************)
EXTENDS Naturals, Sequences, FiniteSets, SequencesExt, FiniteSetsExt, TLC, Json

CONSTANTS Family,      \* which command universe Next offers: "L" "C" "F" "K" "T" or "M" (mixed)
          MaxObj,      \* bound on the number of objects of the family present at once
          MaxDepth,    \* bound on the length of the recorded path to a state
          Wide,        \* TRUE: the larger universe (thorough tier)
          Deviations,  \* open known findings modelled as the code behaves, and the self-test switches of a defect
                       \* class (SpellingSplit, HealthCheckSplit: never on in a conformance run)
          Emit         \* "none" | "states" | "trans": generator output per distinct state

VARIABLES st,    \* the configuration
          tgt,   \* a second configuration (only moves under PairSpec, for P_C06 over pairs)
          hist   \* commands that led to `st` (hidden from the fingerprint by VIEW)

vars == <<st, tgt, hist>>

Empty == [lst |-> {}, clu |-> {}, bke |-> {}, hfr |-> {}, crt |-> {}, tfr |-> {}]

Has(p, f) == f \in DOMAIN p

---------------------------------------------------------------------------
(* Listeners *)

Kinds == {"http", "https", "tcp", "udp"}
Httpish(k) == k \in {"http", "https"}
Addrs == {"A1", "A2"}

AddVerb(k) == CASE k = "http" -> "AddHttpListener" [] k = "https" -> "AddHttpsListener"
                [] k = "tcp" -> "AddTcpListener" [] k = "udp" -> "AddUdpListener"
UpdVerb(k) == CASE k = "http" -> "UpdateHttpListener" [] k = "https" -> "UpdateHttpsListener"
                [] k = "tcp" -> "UpdateTcpListener" [] k = "udp" -> "UpdateUdpListener"
AddListenerVerbs == {AddVerb(k) : k \in Kinds}
UpdListenerVerbs == {UpdVerb(k) : k \in Kinds}
KindOfUpd(v) == CHOOSE k \in Kinds : UpdVerb(k) = v

\* representative fields of a listener config: activation, a timeout, expect_proxy, the correlation
\* header name, one h2 flood knob (0 = unset), the shrink ratio (0 = unset), custom answers
\* (ansP = the optional http_answers message is present), alpn list, strict_sni_binding, max_flows
LDef(k, a) == [k |-> k, a |-> a, active |-> FALSE, ft |-> IF k = "udp" THEN 30 ELSE 60, exp |-> FALSE,
               sid |-> "none", knob |-> 0, shr |-> 0, ansP |-> FALSE, a404 |-> "-", a503 |-> "-",
               alpn |-> <<>>, sni |-> "none", mf |-> 0]
LAlt(k, a) == [LDef(k, a) EXCEPT !.active = TRUE, !.ft = 77, !.exp = (k # "udp"),
               !.sid = IF Httpish(k) THEN "X-Id" ELSE "none",
               !.knob = IF Httpish(k) THEN 5 ELSE 0,
               !.ansP = Httpish(k), !.a404 = IF Httpish(k) THEN "p" ELSE "-",
               !.alpn = IF k = "https" THEN <<"h2", "http/1.1">> ELSE <<>>,
               !.sni = IF k = "https" THEN "true" ELSE "none",
               !.mf = IF k = "udp" THEN 9 ELSE 0]

\* A patch is a record holding only the fields it sets.
ValidSid(s) == s \in {"X-Id", "X-Trace"}                  \* "" and "bad header" are not header names
ValidAlpn(q) == \A i \in 1..Len(q) : q[i] \in {"h2", "http/1.1"}
PatchValid(p) == /\ Has(p, "knob") => p.knob # 0        \* validate_h2_flood_knobs_*: >= 1
                 /\ Has(p, "shr") => p.shr >= 2           \* shrink ratio >= 2
                 /\ Has(p, "sid") => ValidSid(p.sid)      \* validate_sozu_id_header
                 /\ Has(p, "alpn") => ValidAlpn(p.alpn)   \* validate_alpn_protocols
Fld(l, p, f) == IF Has(p, f) THEN p[f] ELSE l[f]
ApplyPatch(l, p) ==
  [l EXCEPT !.ft = Fld(l, p, "ft"), !.exp = Fld(l, p, "exp"), !.sid = Fld(l, p, "sid"),
            !.knob = Fld(l, p, "knob"), !.shr = Fld(l, p, "shr"), !.alpn = Fld(l, p, "alpn"),
            !.sni = Fld(l, p, "sni"), !.mf = Fld(l, p, "mf"),
            !.ansP = l.ansP \/ Has(p, "ans"),             \* merge_custom_http_answers creates the message
            !.a404 = IF Has(p, "ans") /\ Has(p.ans, "a404") THEN p.ans.a404 ELSE l.a404,
            !.a503 = IF Has(p, "ans") /\ Has(p.ans, "a503") THEN p.ans.a503 ELSE l.a503]

HttpPatches == { [ft |-> 77],
                 [ft |-> 77, knob |-> 0],                       \* rejected: flood knob 0
                 [exp |-> TRUE, shr |-> 1],                     \* rejected: shrink ratio 1
                 [ft |-> 77, sid |-> "bad header"],             \* rejected: one bad field among good ones
                 [sid |-> "X-Trace", knob |-> 5, shr |-> 4],
                 [ans |-> [a404 |-> "r"]],
                 [ans |-> [a503 |-> "q"], exp |-> TRUE] }
             \cup (IF Wide THEN { [sid |-> ""], [ans |-> <<>>], [knob |-> 7, sid |-> "bad header"] } ELSE {})
HttpsPatches == HttpPatches \cup
               { [ft |-> 77, alpn |-> <<"spdy">>, sni |-> "true"],  \* rejected: unknown ALPN
                 [alpn |-> <<"h2">>, sni |-> "false"],
                 [alpn |-> <<"h2">>, sid |-> "bad header"] }        \* rejected
             \cup (IF Wide THEN { [alpn |-> <<>>] } ELSE {})
TcpPatches == { [ft |-> 77, exp |-> TRUE] } \cup (IF Wide THEN { [exp |-> FALSE] } ELSE {})
UdpPatches == { [ft |-> 77, mf |-> 9] }
Patches(k) == CASE k = "http" -> HttpPatches [] k = "https" -> HttpsPatches
                [] k = "tcp" -> TcpPatches [] k = "udp" -> UdpPatches

LAddrs(k) == IF Wide \/ k = "http" THEN Addrs ELSE {"A1"}
LSlots == {x \in Kinds \X Addrs : x[2] \in LAddrs(x[1])}
CmdsL ==
  {[verb |-> AddVerb(x[1]), v |-> LDef(x[1], x[2])] : x \in LSlots} \cup
  {[verb |-> AddVerb(x[1]), v |-> LAlt(x[1], x[2])] : x \in LSlots} \cup
  {[verb |-> vb, k |-> x[1], a |-> x[2]] : x \in LSlots, vb \in {"RemoveListener", "ActivateListener", "DeactivateListener"}} \cup
  {[verb |-> vb, k |-> "bad", a |-> "A1"] : vb \in {"RemoveListener", "ActivateListener", "DeactivateListener"}} \cup
  UNION {{[verb |-> UpdVerb(x[1]), a |-> x[2], p |-> p] : p \in Patches(x[1])} : x \in LSlots}

LAt(s, k, a) == {l \in s.lst : l.k = k /\ l.a = a}

---------------------------------------------------------------------------
(* Clusters and backends *)

ClusterIds == {"c1", "c2"}
CluVals == { [sticky |-> FALSE, lb |-> "rr", hc |-> "none"],
             [sticky |-> TRUE, lb |-> "rnd", hc |-> "h1"],
             [sticky |-> FALSE, lb |-> "bad", hc |-> "none"],     \* out-of-range enum: stored as is
             [sticky |-> FALSE, lb |-> "rr", hc |-> "hbad"] }     \* invalid inline health check: rejected
Clu(c, v) == [c |-> c, sticky |-> v.sticky, lb |-> v.lb, hc |-> v.hc]
BackendKeys == { <<"b1", "x1">>, <<"b1", "x2">>, <<"b2", "x1">> } \cup (IF Wide THEN { <<"b2", "x2">> } ELSE {})
Bke(c, b, x, w) == [c |-> c, b |-> b, x |-> x, w |-> w]
BkeClusters == IF Wide THEN ClusterIds ELSE {"c1"}
CmdsC ==
  {[verb |-> "AddCluster", v |-> Clu(c, v)] : c \in ClusterIds, v \in CluVals} \cup
  {[verb |-> "RemoveCluster", c |-> c] : c \in ClusterIds} \cup
  {[verb |-> "SetHealthCheck", c |-> c, hc |-> h] : c \in ClusterIds, h \in {"h1", "h2", "hbad"}} \cup
  {[verb |-> "RemoveHealthCheck", c |-> c] : c \in ClusterIds} \cup
  {[verb |-> "AddBackend", c |-> c, b |-> k[1], x |-> k[2], w |-> w] : c \in BkeClusters, k \in BackendKeys, w \in {0, 1}} \cup
  {[verb |-> "RemoveBackend", c |-> c, b |-> k[1], x |-> k[2]] : c \in ClusterIds, k \in BackendKeys}

---------------------------------------------------------------------------
(* HTTP / HTTPS frontends *)

FrontKeys == { [a |-> "A1", h |-> "h1", pk |-> "prefix", pv |-> "/", m |-> "none"],
               [a |-> "A1", h |-> "h1", pk |-> "prefix", pv |-> "/", m |-> "GET"],
               [a |-> "A1", h |-> "h1", pk |-> "equals", pv |-> "/x", m |-> "none"],
               [a |-> "A2", h |-> "h1", pk |-> "prefix", pv |-> "/", m |-> "none"] }
           \cup (IF Wide THEN { [a |-> "A1", h |-> "h2", pk |-> "regex", pv |-> "/r", m |-> "none"] } ELSE {})
FrontVals == { [cl |-> "c1", pos |-> "tree", tg |-> "t0", rd |-> "none"],
               [cl |-> "deny", pos |-> "pre", tg |-> "t1", rd |-> "perm"] }
MkFront(p, k, v) == [p |-> p, a |-> k.a, h |-> k.h, pk |-> k.pk, pv |-> k.pv, m |-> k.m,
                   cl |-> v.cl, pos |-> v.pos, tg |-> v.tg, rd |-> v.rd]
SameFKey(f, g) == f.p = g.p /\ f.a = g.a /\ f.h = g.h /\ f.pk = g.pk /\ f.pv = g.pv /\ f.m = g.m
FrontAddVerb(p) == IF p = "http" THEN "AddHttpFrontend" ELSE "AddHttpsFrontend"
FrontRemVerb(p) == IF p = "http" THEN "RemoveHttpFrontend" ELSE "RemoveHttpsFrontend"
FrontVerbs == {"AddHttpFrontend", "AddHttpsFrontend", "RemoveHttpFrontend", "RemoveHttpsFrontend"}
BadPosVal == [cl |-> "c1", pos |-> "bad", tg |-> "t0", rd |-> "none"]    \* unknown RulePosition: rejected
CmdsF ==
  {[verb |-> FrontAddVerb(p), f |-> MkFront(p, k, v)] : p \in {"http", "https"}, k \in FrontKeys, v \in FrontVals} \cup
  {[verb |-> FrontAddVerb(p), f |-> MkFront(p, CHOOSE k \in FrontKeys : k.pk = "equals", BadPosVal)] : p \in {"http", "https"}} \cup
  \* removal is by key: the value carried by the request is irrelevant
  {[verb |-> FrontRemVerb(p), f |-> MkFront(p, k, v)] : p \in {"http", "https"}, k \in FrontKeys,
                                                       v \in IF Wide THEN FrontVals ELSE {CHOOSE w \in FrontVals : w.cl = "deny"}}

---------------------------------------------------------------------------
(* Certificates.  k1, k2, k3 parse completely; "kp" is PEM around bytes that are not a certificate   *)
(* (it has a fingerprint, its names cannot be extracted); "kb" is not PEM at all.  A names list is a *)
(* sequence of tokens: <<>> = none given (use the certificate's own), <<"ov">> = an override,       *)
(* <<k>> = the names found in certificate k.                                                        *)
(*                                                                                                  *)
(* Spellings.  The text of one certificate can be written in several ways which the PEM reader      *)
(* takes for the same certificate (same DER bytes: same fingerprint, same names): the label of the  *)
(* block (`X509 CERTIFICATE`, `TRUSTED CERTIFICATE`), CRLF line ends, text before the block, more   *)
(* blocks after it (a bundle), base64 wrapped at another width.  Others it refuses whatever the     *)
(* bytes are (no END line, indented base64).  The text is stored as it was written and comes back   *)
(* verbatim in the AddCertificate that generate_requests / diff emit, so the spelling is part of a  *)
(* stored certificate (field `sp`, absent = the standard spelling: the records of the universes     *)
(* without spellings - Sozu.tla, the worker legs - are unchanged).  Whether a spelling is readable  *)
(* is ONE predicate (SpellOK) used by every arm that can store a certificate; the deviation         *)
(* `SpellingSplit` is the defect class "the arms judge the same text differently": AddCertificate   *)
(* refuses re-labelled blocks that ReplaceCertificate stores (self-test: TLC must refute P_C05).    *)

GoodCerts == {"k1", "k2"} \cup (IF Wide THEN {"k3"} ELSE {})
HasFp(k) == k # "kb"
Resolvable(k, n) == n # <<>> \/ k \in {"k1", "k2", "k3"}
Resolved(k, n) == IF n = <<>> THEN <<k>> ELSE n
AltSpellings == {"old", "tru", "crlf", "lead", "bundle", "wrap"}
BadSpellings == {"noend", "indent"}
SpOf(x) == IF Has(x, "sp") THEN x.sp ELSE "std"
SpellOK(sp) == sp \notin BadSpellings
AddSpellOK(sp) == SpellOK(sp) /\ ("SpellingSplit" \in Deviations => sp \notin {"old", "tru"})
ReplaceSpellOK(sp) == SpellOK(sp)
Crt(a, k, n, sp) == IF sp = "std" THEN [a |-> a, k |-> k, n |-> n] ELSE [a |-> a, k |-> k, n |-> n, sp |-> sp]
\* <<certificate, names, spelling>> a command can carry
NewCerts == { <<"k1", <<>>, "std">>, <<"k2", <<>>, "std">>, <<"k2", <<"ov">>, "std">>, <<"kp", <<>>, "std">>,
              <<"kp", <<"ov">>, "std">>, <<"kb", <<>>, "std">> }
            \cup (IF Wide THEN { <<"k1", <<"ov">>, "std">>, <<"k3", <<>>, "std">> } ELSE {})
\* ... in another spelling, on the first address: the first certificate in every spelling (+ in the wide universe
\* an override of names on a re-labelled block, unreadable bytes in a re-labelled block, an unreadable spelling
\* of the second certificate)
SpelledCerts == { <<"k1", <<>>, sp>> : sp \in AltSpellings \cup BadSpellings }
                \cup (IF Wide THEN { <<"k2", <<"ov">>, "old">>, <<"kp", <<"ov">>, "tru">>, <<"k2", <<>>, "noend">> } ELSE {})
SpelledAddrs == {"A1"}
CrtCmd(verb, a, x) == IF x[3] = "std" THEN [verb |-> verb, a |-> a, k |-> x[1], n |-> x[2]]
                      ELSE [verb |-> verb, a |-> a, k |-> x[1], n |-> x[2], sp |-> x[3]]
RplCmd(a, old, x) == IF x[3] = "std" THEN [verb |-> "ReplaceCertificate", a |-> a, old |-> old, k |-> x[1], n |-> x[2]]
                     ELSE [verb |-> "ReplaceCertificate", a |-> a, old |-> old, k |-> x[1], n |-> x[2], sp |-> x[3]]
CmdsK ==
  {CrtCmd("AddCertificate", a, x) : a \in Addrs, x \in NewCerts} \cup
  {CrtCmd("AddCertificate", a, x) : a \in SpelledAddrs, x \in SpelledCerts} \cup
  {[verb |-> "RemoveCertificate", a |-> a, fp |-> fp] : a \in Addrs, fp \in GoodCerts \cup {"kp", "nothex"}} \cup
  {RplCmd(a, old, x) : a \in Addrs, old \in {"k1", "k2", "nothex"}, x \in NewCerts} \cup
  {RplCmd(a, old, x) : a \in SpelledAddrs, old \in {"k1", "k2"}, x \in SpelledCerts}

---------------------------------------------------------------------------
(* TCP / UDP frontends *)

L4Add(p) == IF p = "tcp" THEN "AddTcpFrontend" ELSE "AddUdpFrontend"
L4Rem(p) == IF p = "tcp" THEN "RemoveTcpFrontend" ELSE "RemoveUdpFrontend"
L4Verbs == {"AddTcpFrontend", "AddUdpFrontend", "RemoveTcpFrontend", "RemoveUdpFrontend"}
L4Proto(v) == IF v \in {"AddTcpFrontend", "RemoveTcpFrontend"} THEN "tcp" ELSE "udp"
L4Clusters(p) == IF Wide \/ p = "tcp" THEN ClusterIds ELSE {"c1"}
CmdsT ==
  UNION {{[verb |-> L4Add(p), c |-> c, a |-> a, t |-> t] : c \in L4Clusters(p), a \in Addrs, t \in {"t0", "t1"}} : p \in {"tcp", "udp"}} \cup
  UNION {{[verb |-> L4Rem(p), c |-> c, a |-> a, t |-> "t0"] : c \in L4Clusters(p), a \in Addrs} : p \in {"tcp", "udp"}}

---------------------------------------------------------------------------
(* A mixed universe: a few commands of every family, for cross-map effects *)

CmdsM ==
  {c \in CmdsL : (c.verb \in {"AddHttpListener", "AddTcpListener"} /\ c.v.a = "A1" /\ c.v.active)
                  \/ (c.verb \in {"RemoveListener", "DeactivateListener"} /\ c.k \in {"http", "tcp"} /\ c.a = "A1")
                  \/ (c.verb = "UpdateHttpListener" /\ c.a = "A1" /\ c.p \in {[ft |-> 77, sid |-> "bad header"], [ft |-> 77]})} \cup
  {c \in CmdsC : (c.verb = "AddCluster" /\ c.v.c = "c1" /\ c.v.hc \in {"h1", "hbad"})
                  \/ (c.verb \in {"RemoveCluster", "RemoveHealthCheck"} /\ c.c = "c1")
                  \/ (c.verb \in {"AddBackend", "RemoveBackend"} /\ c.c = "c1" /\ c.b = "b1" /\ (c.verb = "RemoveBackend" \/ c.w = 0))} \cup
  {c \in CmdsF : c.f.a = "A1" /\ c.f.pk = "prefix" /\ c.f.m = "none" /\ c.f.cl = "deny"} \cup
  {c \in CmdsK : c.a = "A1" /\ SpOf(c) = "std" /\ ((c.verb = "AddCertificate" /\ c.n = <<>> /\ c.k \in {"k1", "kp"})
                                \/ (c.verb = "RemoveCertificate" /\ c.fp = "k1")
                                \/ (c.verb = "ReplaceCertificate" /\ c.old = "k1" /\ c.n = <<>> /\ c.k \in {"k2", "kb"}))} \cup
  {c \in CmdsT : c.c = "c1" /\ c.a = "A1" /\ c.t = "t0"}

Cmds == CASE Family = "L" -> CmdsL [] Family = "C" -> CmdsC [] Family = "F" -> CmdsF
          [] Family = "K" -> CmdsK [] Family = "T" -> CmdsT [] Family = "M" -> CmdsM

---------------------------------------------------------------------------
(* dispatch: one operator per RequestType arm *)

Ok(s) == [res |-> "ok", st |-> s]
Err(s) == [res |-> "err", st |-> s]

D_AddListener(s, c) ==                         \* add_{http,https,tcp,udp}_listener: reject an occupied address
  IF LAt(s, c.v.k, c.v.a) # {} THEN Err(s) ELSE Ok([s EXCEPT !.lst = @ \cup {c.v}])

D_RemoveListener(s, c) ==                      \* unknown ListenerType -> WrongFieldValue; absent -> NoChange
  IF c.k \notin Kinds \/ LAt(s, c.k, c.a) = {} THEN Err(s)
  ELSE Ok([s EXCEPT !.lst = @ \ LAt(s, c.k, c.a)])

SetActive(s, c, val) ==                        \* activate / deactivate: idempotent on an existing listener
  IF c.k \notin Kinds \/ LAt(s, c.k, c.a) = {} THEN Err(s)
  ELSE Ok([s EXCEPT !.lst = {IF l.k = c.k /\ l.a = c.a THEN [l EXCEPT !.active = val] ELSE l : l \in @}])
D_ActivateListener(s, c) == SetActive(s, c, TRUE)
D_DeactivateListener(s, c) == SetActive(s, c, FALSE)

D_UpdateListener(s, c) ==                      \* update_*_listener: every field validated, then all written
  LET k == KindOfUpd(c.verb) IN
  IF ~PatchValid(c.p) \/ LAt(s, k, c.a) = {} THEN Err(s)
  ELSE Ok([s EXCEPT !.lst = {IF l.k = k /\ l.a = c.a THEN ApplyPatch(l, c.p) ELSE l : l \in @}])

\* One validator (validate_health_check_config) judges a health check wherever it enters: inline in AddCluster
\* or through SetHealthCheck.  `h2` stands for the valid configurations at the edge of what the validator lets
\* through (the concretisations spell it differently), it only enters through SetHealthCheck and comes back
\* inline in the AddCluster of generate_requests.  Deviation `HealthCheckSplit` (self-test of the class, TLC must
\* refute P_C05): the inline check refuses what SetHealthCheck stored.
HcOK(h) == h # "hbad"
InlineHcOK(h) == HcOK(h) /\ ("HealthCheckSplit" \in Deviations => h # "h2")
D_AddCluster(s, c) ==                          \* upsert; an invalid inline health check is rejected
  IF ~InlineHcOK(c.v.hc) THEN Err(s)
  ELSE Ok([s EXCEPT !.clu = {x \in @ : x.c # c.v.c} \cup {c.v}])
D_RemoveCluster(s, c) ==
  IF \E x \in s.clu : x.c = c.c THEN Ok([s EXCEPT !.clu = {x \in @ : x.c # c.c}]) ELSE Err(s)
D_SetHealthCheck(s, c) ==
  IF ~HcOK(c.hc) \/ ~\E x \in s.clu : x.c = c.c THEN Err(s)
  ELSE Ok([s EXCEPT !.clu = {IF x.c = c.c THEN [x EXCEPT !.hc = c.hc] ELSE x : x \in @}])
D_RemoveHealthCheck(s, c) ==
  IF ~\E x \in s.clu : x.c = c.c THEN Err(s)
  ELSE Ok([s EXCEPT !.clu = {IF x.c = c.c THEN [x EXCEPT !.hc = "none"] ELSE x : x \in @}])

SameBke(b, c) == b.c = c.c /\ b.b = c.b /\ b.x = c.x
D_AddBackend(s, c) ==                          \* upsert on (cluster, backend_id, address); never fails
  Ok([s EXCEPT !.bke = {b \in @ : ~SameBke(b, c)} \cup {Bke(c.c, c.b, c.x, c.w)}])
D_RemoveBackend(s, c) ==
  IF \E b \in s.bke : SameBke(b, c) THEN Ok([s EXCEPT !.bke = {b \in @ : ~SameBke(b, c)}]) ELSE Err(s)

D_AddFront(s, c) ==                            \* occupied key -> Exists; unknown position -> conversion error
  IF (\E f \in s.hfr : SameFKey(f, c.f)) \/ c.f.pos = "bad" THEN Err(s)
  ELSE Ok([s EXCEPT !.hfr = @ \cup {c.f}])
D_RemoveFront(s, c) ==                         \* by key only
  IF \E f \in s.hfr : SameFKey(f, c.f) THEN Ok([s EXCEPT !.hfr = {f \in @ : ~SameFKey(f, c.f)}]) ELSE Err(s)

D_AddCertificate(s, c) ==                      \* parse + resolve names first; same fingerprint: kept as is
  IF ~HasFp(c.k) \/ ~AddSpellOK(SpOf(c)) \/ ~Resolvable(c.k, c.n) THEN Err(s)
  ELSE IF \E x \in s.crt : x.a = c.a /\ x.k = c.k THEN Ok(s)
  ELSE Ok([s EXCEPT !.crt = @ \cup {Crt(c.a, c.k, Resolved(c.k, c.n), SpOf(c))}])
D_RemoveCertificate(s, c) ==                   \* Ok whether or not it was there
  IF c.fp = "nothex" THEN Err(s) ELSE Ok([s EXCEPT !.crt = {x \in @ : ~(x.a = c.a /\ x.k = c.fp)}])
D_ReplaceCertificate(s, c) ==                  \* needs certificates on the address; old one may be absent
  IF c.old = "nothex" \/ ~(\E x \in s.crt : x.a = c.a) \/ ~HasFp(c.k) \/ ~ReplaceSpellOK(SpOf(c)) \/ ~Resolvable(c.k, c.n)
  THEN Err(s)
  ELSE Ok([s EXCEPT !.crt = {x \in @ : ~(x.a = c.a /\ x.k \in {c.old, c.k})}
                              \cup {Crt(c.a, c.k, Resolved(c.k, c.n), SpOf(c))}])

L4At(s, p, c, a) == {f \in s.tfr : f.p = p /\ f.c = c /\ f.a = a}
D_AddL4Front(s, c) ==                          \* one frontend per (cluster, address)
  LET p == L4Proto(c.verb) IN
  IF L4At(s, p, c.c, c.a) # {} THEN Err(s)
  ELSE Ok([s EXCEPT !.tfr = @ \cup {[p |-> p, c |-> c.c, a |-> c.a, t |-> c.t]}])
D_RemoveL4Front(s, c) ==                       \* by (cluster, address)
  LET p == L4Proto(c.verb) IN
  IF L4At(s, p, c.c, c.a) = {} THEN Err(s) ELSE Ok([s EXCEPT !.tfr = @ \ L4At(s, p, c.c, c.a)])

Dispatch(s, c) ==
  CASE c.verb \in AddListenerVerbs -> D_AddListener(s, c)
    [] c.verb = "RemoveListener" -> D_RemoveListener(s, c)
    [] c.verb = "ActivateListener" -> D_ActivateListener(s, c)
    [] c.verb = "DeactivateListener" -> D_DeactivateListener(s, c)
    [] c.verb \in UpdListenerVerbs -> D_UpdateListener(s, c)
    [] c.verb = "AddCluster" -> D_AddCluster(s, c)
    [] c.verb = "RemoveCluster" -> D_RemoveCluster(s, c)
    [] c.verb = "SetHealthCheck" -> D_SetHealthCheck(s, c)
    [] c.verb = "RemoveHealthCheck" -> D_RemoveHealthCheck(s, c)
    [] c.verb = "AddBackend" -> D_AddBackend(s, c)
    [] c.verb = "RemoveBackend" -> D_RemoveBackend(s, c)
    [] c.verb \in {"AddHttpFrontend", "AddHttpsFrontend"} -> D_AddFront(s, c)
    [] c.verb \in {"RemoveHttpFrontend", "RemoveHttpsFrontend"} -> D_RemoveFront(s, c)
    [] c.verb = "AddCertificate" -> D_AddCertificate(s, c)
    [] c.verb = "RemoveCertificate" -> D_RemoveCertificate(s, c)
    [] c.verb = "ReplaceCertificate" -> D_ReplaceCertificate(s, c)
    [] c.verb \in {"AddTcpFrontend", "AddUdpFrontend"} -> D_AddL4Front(s, c)
    [] c.verb \in {"RemoveTcpFrontend", "RemoveUdpFrontend"} -> D_RemoveL4Front(s, c)

\* fold of dispatch over a command list, as the replay loops do: errors are counted, not fatal
RECURSIVE ApplyFrom(_, _, _, _)
ApplyFrom(s, q, i, ok) ==
  IF i > Len(q) THEN [st |-> s, ok |-> ok]
  ELSE LET d == Dispatch(s, q[i]) IN ApplyFrom(d.st, q, i + 1, ok /\ d.res = "ok")
ApplyAll(s, q) == ApplyFrom(s, q, 1, TRUE)

---------------------------------------------------------------------------
(* generate_requests: listeners (+activation), clusters, http fronts, certificates, https fronts,  *)
(* tcp fronts, udp fronts, backends.                                                              *)

Cat(qs) == FlattenSeq(qs)
MapSet(S, F(_)) == LET q == SetToSeq(S) IN [i \in 1..Len(q) |-> F(q[i])]

ActivateCmd(l) == [verb |-> "ActivateListener", k |-> l.k, a |-> l.a]
DeactivateCmd(l) == [verb |-> "DeactivateListener", k |-> l.k, a |-> l.a]
RemoveLCmd(l) == [verb |-> "RemoveListener", k |-> l.k, a |-> l.a]
AddLCmd(l) == [verb |-> AddVerb(l.k), v |-> l]
GenListener(l) == <<AddLCmd(l)>> \o (IF l.active THEN <<ActivateCmd(l)>> ELSE <<>>)
GenListeners(s, k) == Cat(MapSet({l \in s.lst : l.k = k}, GenListener))
AddFCmd(f) == [verb |-> FrontAddVerb(f.p), f |-> f]
RemFCmd(f) == [verb |-> FrontRemVerb(f.p), f |-> f]
AddCrtCmd(x) == CrtCmd("AddCertificate", x.a, <<x.k, x.n, SpOf(x)>>)        \* the stored text, verbatim
AddL4Cmd(f) == [verb |-> L4Add(f.p), c |-> f.c, a |-> f.a, t |-> f.t]
RemL4Cmd(f) == [verb |-> L4Rem(f.p), c |-> f.c, a |-> f.a, t |-> f.t]
AddBkeCmd(b) == [verb |-> "AddBackend", c |-> b.c, b |-> b.b, x |-> b.x, w |-> b.w]
RemBkeCmd(b) == [verb |-> "RemoveBackend", c |-> b.c, b |-> b.b, x |-> b.x]
AddCluCmd(x) == [verb |-> "AddCluster", v |-> x]

\* the three groups whose order comes from HashMap iteration are parameters
GenerateWith(s, crtq, tcpq, udpq) ==
  GenListeners(s, "http") \o GenListeners(s, "https") \o GenListeners(s, "tcp") \o GenListeners(s, "udp")
  \o MapSet(s.clu, AddCluCmd)
  \o MapSet({f \in s.hfr : f.p = "http"}, AddFCmd)
  \o crtq
  \o MapSet({f \in s.hfr : f.p = "https"}, AddFCmd)
  \o tcpq \o udpq
  \o MapSet(s.bke, AddBkeCmd)
CrtCmds(s) == {AddCrtCmd(x) : x \in s.crt}
L4Cmds(s, p) == {AddL4Cmd(f) : f \in {g \in s.tfr : g.p = p}}
Generate(s) == GenerateWith(s, SetToSeq(CrtCmds(s)), SetToSeq(L4Cmds(s, "tcp")), SetToSeq(L4Cmds(s, "udp")))

---------------------------------------------------------------------------
(* diff(a, b), in the code's order *)

LKey(l) == <<l.k, l.a>>
LKeys(s, k) == {l.a : l \in {x \in s.lst : x.k = k}}
TheL(s, k, a) == CHOOSE l \in s.lst : l.k = k /\ l.a = a

DiffRemovedL(a, b, k) ==
  Cat(MapSet({l \in a.lst : l.k = k /\ l.a \notin LKeys(b, k)},
             LAMBDA l : (IF l.active THEN <<DeactivateCmd(l)>> ELSE <<>>) \o <<RemoveLCmd(l)>>))
DiffAddedL(a, b, k) == Cat(MapSet({l \in b.lst : l.k = k /\ l.a \notin LKeys(a, k)}, GenListener))
DiffChangedL(a, b, k) ==
  Cat(MapSet(LKeys(a, k) \cap LKeys(b, k),
             LAMBDA x : LET la == TheL(a, k, x)  lb == TheL(b, k, x) IN
               (IF la # lb THEN <<RemoveLCmd(la), AddLCmd([lb EXCEPT !.active = FALSE])>>
                                \o (IF lb.active THEN <<ActivateCmd(lb)>> ELSE <<>>)
                ELSE <<>>)
               \o (IF la.active /\ ~lb.active THEN <<DeactivateCmd(la)>> ELSE <<>>)))
DiffTrailingActivate(a, b, k) ==
  MapSet({l \in b.lst : l.k = k /\ l.a \notin LKeys(a, k) /\ l.active}, ActivateCmd)

CluOf(s, c) == CHOOSE x \in s.clu : x.c = c
CluIds(s) == {x.c : x \in s.clu}
DiffClusters(a, b) ==
  Cat(MapSet(CluIds(a) \cup CluIds(b),
             LAMBDA c : IF c \notin CluIds(b) THEN <<[verb |-> "RemoveCluster", c |-> c]>>
                        ELSE IF c \notin CluIds(a) \/ CluOf(a, c) # CluOf(b, c) THEN <<AddCluCmd(CluOf(b, c))>>
                        ELSE <<>>))

\* backends are compared by identity (cluster, backend_id, address)
BKey(x) == <<x.c, x.b, x.x>>
BKeys(s) == {BKey(x) : x \in s.bke}
BOf(s, k) == CHOOSE x \in s.bke : BKey(x) = k
DiffBackends(a, b) ==
  Cat(MapSet(BKeys(a) \cup BKeys(b),
             LAMBDA k : IF k \notin BKeys(b) THEN <<RemBkeCmd(BOf(a, k))>>
                        ELSE IF k \notin BKeys(a) THEN <<AddBkeCmd(BOf(b, k))>>
                        ELSE IF BOf(a, k) # BOf(b, k) THEN <<RemBkeCmd(BOf(a, k)), AddBkeCmd(BOf(b, k))>>
                        ELSE <<>>))

DiffFronts(a, b, p) ==
  MapSet({f \in a.hfr : f.p = p} \ b.hfr, RemFCmd) \o MapSet({f \in b.hfr : f.p = p} \ a.hfr, AddFCmd)
DiffL4(a, b, p) ==
  MapSet({f \in a.tfr : f.p = p} \ b.tfr, RemL4Cmd) \o MapSet({f \in b.tfr : f.p = p} \ a.tfr, AddL4Cmd)

\* certificates: by (address, fingerprint); an entry whose other content differs is removed and re-added
DiffCerts(a, b) ==
  MapSet(a.crt \ b.crt, LAMBDA x : [verb |-> "RemoveCertificate", a |-> x.a, fp |-> x.k])
  \o MapSet(b.crt \ a.crt, AddCrtCmd)

Diff(a, b) ==
  DiffRemovedL(a, b, "tcp") \o DiffAddedL(a, b, "tcp") \o DiffRemovedL(a, b, "udp") \o DiffAddedL(a, b, "udp")
  \o DiffRemovedL(a, b, "http") \o DiffAddedL(a, b, "http") \o DiffRemovedL(a, b, "https") \o DiffAddedL(a, b, "https")
  \o DiffChangedL(a, b, "tcp") \o DiffChangedL(a, b, "udp") \o DiffChangedL(a, b, "http") \o DiffChangedL(a, b, "https")
  \o DiffClusters(a, b) \o DiffBackends(a, b)
  \o DiffFronts(a, b, "http") \o DiffFronts(a, b, "https") \o DiffL4(a, b, "tcp") \o DiffL4(a, b, "udp")
  \o DiffCerts(a, b)
  \o DiffTrailingActivate(a, b, "tcp") \o DiffTrailingActivate(a, b, "udp")

---------------------------------------------------------------------------
(* Properties *)

TypeOK ==
  /\ \A l \in st.lst : l.k \in Kinds /\ l.a \in Addrs /\ Cardinality(LAt(st, l.k, l.a)) = 1
  /\ \A x \in st.clu : Cardinality({y \in st.clu : y.c = x.c}) = 1 /\ x.hc # "hbad"
  /\ \A b \in st.bke : Cardinality({y \in st.bke : BKey(y) = BKey(b)}) = 1
  /\ \A f \in st.hfr : Cardinality({g \in st.hfr : SameFKey(f, g)}) = 1 /\ f.pos # "bad"
  /\ \A x \in st.crt : Cardinality({y \in st.crt : y.a = x.a /\ y.k = x.k}) = 1 /\ HasFp(x.k) /\ x.n # <<>>
                       /\ SpellOK(SpOf(x)) /\ (Has(x, "sp") => x.sp # "std")
  /\ \A f \in st.tfr : Cardinality(L4At(st, f.p, f.c, f.a)) = 1

\* C05: the generated requests are all accepted by an empty instance and rebuild the configuration,
\* whatever the iteration order of the hash maps (checked for every order while the groups are small)
SmallPerms(S) == IF Cardinality(S) <= 3 THEN SetToSeqs(S) ELSE {SetToSeq(S)}
RoundTrip(s) ==
  \A cq \in SmallPerms(CrtCmds(s)) : \A tq \in SmallPerms(L4Cmds(s, "tcp")) : \A uq \in SmallPerms(L4Cmds(s, "udp")) :
    LET r == ApplyAll(Empty, GenerateWith(s, cq, tq, uq)) IN r.ok /\ r.st = s
P_C05 == RoundTrip(st)

\* C06 for one ordered pair
PairOK(a, b) == LET r == ApplyAll(a, Diff(a, b)) IN r.ok /\ r.st = b
Succ(s) == {Dispatch(s, c).st : c \in Cmds}
\* ... for the current state against itself and its successors, both directions (Spec)
P_C06_Near ==
  /\ Diff(st, st) = <<>>
  /\ \A t \in Succ(st) : PairOK(st, t) /\ PairOK(t, st)
\* ... for every ordered pair of configurations reachable with MaxDepth commands in total (PairSpec)
P_C06 == PairOK(st, tgt) /\ Diff(st, st) = <<>>

\* C07: a rejected command leaves the configuration as it was; an accepted one changes only what it names
Named(c) ==
  CASE c.verb \in AddListenerVerbs -> {<<"lst", c.v.k, c.v.a>>}
    [] c.verb \in {"RemoveListener", "ActivateListener", "DeactivateListener"} -> {<<"lst", c.k, c.a>>}
    [] c.verb \in UpdListenerVerbs -> {<<"lst", KindOfUpd(c.verb), c.a>>}
    [] c.verb = "AddCluster" -> {<<"clu", c.v.c>>}
    [] c.verb \in {"RemoveCluster", "SetHealthCheck", "RemoveHealthCheck"} -> {<<"clu", c.c>>}
    [] c.verb \in {"AddBackend", "RemoveBackend"} -> {<<"bke", c.c, c.b, c.x>>}
    [] c.verb \in FrontVerbs -> {<<"hfr", c.f.p, c.f.a, c.f.h, c.f.pk, c.f.pv, c.f.m>>}
    [] c.verb = "AddCertificate" -> {<<"crt", c.a, c.k>>}
    [] c.verb = "RemoveCertificate" -> {<<"crt", c.a, c.fp>>}
    [] c.verb = "ReplaceCertificate" -> {<<"crt", c.a, c.old>>, <<"crt", c.a, c.k>>}
    [] c.verb \in L4Verbs -> {<<"tfr", L4Proto(c.verb), c.c, c.a>>}
Objects(s) ==
  {<<<<"lst", l.k, l.a>>, l>> : l \in s.lst} \cup {<<<<"clu", x.c>>, x>> : x \in s.clu}
  \cup {<<<<"bke", b.c, b.b, b.x>>, b>> : b \in s.bke}
  \cup {<<<<"hfr", f.p, f.a, f.h, f.pk, f.pv, f.m>>, f>> : f \in s.hfr}
  \cup {<<<<"crt", x.a, x.k>>, x>> : x \in s.crt} \cup {<<<<"tfr", f.p, f.c, f.a>>, f>> : f \in s.tfr}
FrameOK(s, t, c) == \A o \in Objects(s) \cup Objects(t) : o[1] \notin Named(c) => (o \in Objects(s) <=> o \in Objects(t))
P_C07 == \A c \in Cmds : LET d == Dispatch(st, c) IN
           /\ d.res \in {"ok", "err"}
           /\ d.res = "err" => d.st = st
           /\ d.res = "ok" => FrameOK(st, d.st, c)

\* Worker level (lib/src/server.rs::notify_proxys). A worker keeps a ConfigState of its own: it applies the
\* command to it, then hands the command to its proxies, and the proxies' verdict `pa` (an input here: they
\* have reasons of their own, e.g. no listener on the address, an unusable key) is the answer sent back.
\* The property wants a Failure answer to leave the worker's configuration as it was.  The code keeps the
\* change (deviation WorkerKeepsRefused, an open finding).
WorkerHandle(s, c, pa) ==
  [res |-> pa,
   st |-> IF pa = "err" /\ "WorkerKeepsRefused" \notin Deviations THEN s ELSE Dispatch(s, c).st]
P_C07_Worker == \A c \in Cmds : \A pa \in {"ok", "err"} :
                  LET h == WorkerHandle(st, c, pa) IN h.res = "err" => h.st = st

\* Main-process level (bin/src/command/requests.rs::worker_request). The main process applies the command to its
\* own state first and then fans it out; what the workers answer (`fa`: "err" as soon as one of them refuses,
\* stays silent past the time-out or dies) is the client's final answer. The property wants a failure answer to
\* leave the main process's configuration as it was. The code keeps the change: there is no roll-back (deviation
\* MasterKeepsRefused, an open finding; the composed behaviour is modelled in Sozu.tla).
MasterHandle(s, c, fa) ==
  LET d == Dispatch(s, c) IN
  [res |-> IF d.res = "err" THEN "err" ELSE fa,
   st |-> IF d.res = "ok" /\ fa = "err" /\ "MasterKeepsRefused" \notin Deviations THEN s ELSE d.st]
P_C07_Master == \A c \in Cmds : \A fa \in {"ok", "err"} :
                  LET h == MasterHandle(st, c, fa) IN h.res = "err" => h.st = st

---------------------------------------------------------------------------
(* Behaviours *)

Size(s) == CASE Family = "L" -> Cardinality(s.lst)
             [] Family = "C" -> Cardinality(s.clu) + Cardinality(s.bke)
             [] Family = "F" -> Cardinality(s.hfr)
             [] Family = "K" -> Cardinality(s.crt)
             [] Family = "T" -> Cardinality(s.tfr)
             [] Family = "M" -> Cardinality(s.lst) + Cardinality(s.clu) + Cardinality(s.bke) + Cardinality(s.hfr)
                                + Cardinality(s.crt) + Cardinality(s.tfr)

Step(c) == LET d == Dispatch(st, c) IN
             /\ Size(d.st) <= MaxObj
             /\ st' = d.st /\ hist' = Append(hist, c) /\ UNCHANGED tgt
\* one named action per dispatch arm (coverage shows which arms were taken)
Dispatch_AddListener == \E c \in Cmds : c.verb \in AddListenerVerbs /\ Step(c)
Dispatch_RemoveListener == \E c \in Cmds : c.verb \in {"RemoveListener"} /\ Step(c)
Dispatch_ActivateListener == \E c \in Cmds : c.verb \in {"ActivateListener"} /\ Step(c)
Dispatch_DeactivateListener == \E c \in Cmds : c.verb \in {"DeactivateListener"} /\ Step(c)
Dispatch_UpdateListener == \E c \in Cmds : c.verb \in UpdListenerVerbs /\ Step(c)
Dispatch_AddCluster == \E c \in Cmds : c.verb \in {"AddCluster"} /\ Step(c)
Dispatch_RemoveCluster == \E c \in Cmds : c.verb \in {"RemoveCluster"} /\ Step(c)
Dispatch_SetHealthCheck == \E c \in Cmds : c.verb \in {"SetHealthCheck"} /\ Step(c)
Dispatch_RemoveHealthCheck == \E c \in Cmds : c.verb \in {"RemoveHealthCheck"} /\ Step(c)
Dispatch_AddBackend == \E c \in Cmds : c.verb \in {"AddBackend"} /\ Step(c)
Dispatch_RemoveBackend == \E c \in Cmds : c.verb \in {"RemoveBackend"} /\ Step(c)
Dispatch_AddFrontend == \E c \in Cmds : c.verb \in {"AddHttpFrontend", "AddHttpsFrontend"} /\ Step(c)
Dispatch_RemoveFrontend == \E c \in Cmds : c.verb \in {"RemoveHttpFrontend", "RemoveHttpsFrontend"} /\ Step(c)
Dispatch_AddCertificate == \E c \in Cmds : c.verb \in {"AddCertificate"} /\ Step(c)
Dispatch_RemoveCertificate == \E c \in Cmds : c.verb \in {"RemoveCertificate"} /\ Step(c)
Dispatch_ReplaceCertificate == \E c \in Cmds : c.verb \in {"ReplaceCertificate"} /\ Step(c)
Dispatch_AddL4Frontend == \E c \in Cmds : c.verb \in {"AddTcpFrontend", "AddUdpFrontend"} /\ Step(c)
Dispatch_RemoveL4Frontend == \E c \in Cmds : c.verb \in {"RemoveTcpFrontend", "RemoveUdpFrontend"} /\ Step(c)

Init == st = Empty /\ tgt = Empty /\ hist = <<>>
Next == \/ Dispatch_AddListener \/ Dispatch_RemoveListener \/ Dispatch_ActivateListener
        \/ Dispatch_DeactivateListener \/ Dispatch_UpdateListener
        \/ Dispatch_AddCluster \/ Dispatch_RemoveCluster \/ Dispatch_SetHealthCheck \/ Dispatch_RemoveHealthCheck
        \/ Dispatch_AddBackend \/ Dispatch_RemoveBackend
        \/ Dispatch_AddFrontend \/ Dispatch_RemoveFrontend
        \/ Dispatch_AddCertificate \/ Dispatch_RemoveCertificate \/ Dispatch_ReplaceCertificate
        \/ Dispatch_AddL4Frontend \/ Dispatch_RemoveL4Frontend
Spec == Init /\ [][Next]_vars

\* both configurations evolve independently: every ordered pair of reachable configurations
PairNext == \E c \in Cmds :
              \/ LET d == Dispatch(st, c) IN Size(d.st) <= MaxObj /\ st' = d.st /\ hist' = Append(hist, 1) /\ UNCHANGED tgt
              \/ LET d == Dispatch(tgt, c) IN Size(d.st) <= MaxObj /\ tgt' = d.st /\ hist' = Append(hist, 2) /\ UNCHANGED st
PairSpec == Init /\ [][PairNext]_vars

DepthBound == Len(hist) <= MaxDepth          \* CONSTRAINT
View == <<st, tgt>>                          \* VIEW: the path is not part of a state's identity

---------------------------------------------------------------------------
(* Generator: one line per distinct state: a path to it, its projection, the multiset of verbs    *)
(* generate_requests must emit, and (Emit = "trans") for every command the predicted result, the  *)
(* changed maps after it and the verb multisets of diff in both directions.                       *)

Proj(s) == [lst |-> s.lst, clu |-> s.clu, bke |-> s.bke, bbk |-> {b.c : b \in s.bke},
            hfr |-> s.hfr, crt |-> s.crt, cbk |-> {x.a : x \in s.crt},
            tfr |-> s.tfr, tbk |-> {[p |-> f.p, c |-> f.c] : f \in s.tfr}]
Sig(q) == LET vs == {q[i].verb : i \in 1..Len(q)} IN [v \in vs |-> Cardinality({i \in 1..Len(q) : q[i].verb = v})]
Fields == {"lst", "clu", "bke", "hfr", "crt", "tfr"}
Delta(s, t) == LET ch == {f \in Fields : s[f] # t[f]} IN [f \in ch |-> t[f]]
CmdSeq == SetToSeq(Cmds)
Out(s, c) == LET d == Dispatch(s, c) IN
               IF d.res = "err" THEN [r |-> "err"]
               ELSE [r |-> "ok", post |-> Delta(s, d.st), dfw |-> Sig(Diff(s, d.st)), dbw |-> Sig(Diff(d.st, s))]
\* (TLC also evaluates invariants on the states just beyond the CONSTRAINT; those are not printed)
EmitState ==
  CASE Emit = "none" \/ Len(hist) > MaxDepth -> TRUE
    [] Emit = "states" -> PrintT(<<"REPLAY", ToJson([path |-> hist, st |-> Proj(st), gen |-> Sig(Generate(st))])>>)
    [] Emit = "trans" -> PrintT(<<"REPLAY", ToJson([path |-> hist, st |-> Proj(st), gen |-> Sig(Generate(st)),
                                                     out |-> [i \in 1..Len(CmdSeq) |-> Out(st, CmdSeq[i])]])>>)

ASSUME IF Emit # "none" THEN PrintT(<<"REPLAY", ToJson([family |-> Family, cmds |-> CmdSeq])>>) ELSE TRUE
=============================================================================
