SPECIFICATION TraceSpec
CONSTANTS
  Max <- T_Max
  Socks <- T_Socks
  Toks <- T_Toks
  Ips <- T_Ips
  IpOf <- T_IpOf
  Clusters <- T_Clusters
  Override <- T_Override
  OverrideC2 = 0
  OvrValues <- T_OvrValues
  Limits <- T_Limits
  EvictOn <- T_EvictOn
  QT = 0
  Sys <- T_Sys
  MaxBack = 64
  PoolCap = 1000000
  TlsChoices = {FALSE}
  CreateMayFail = TRUE
  PopAny = TRUE
  Deviations = {}
  Script <- NoScript
  Gen = "off"
  Depth = 0
CONSTRAINT Track_
INVARIANTS P_C16_NbLeMax P_C16_NbCountsSessions P_C16_PerIpLimit P_C16_OneSlotPerToken P_C16_TracksOnlyLive P_C16_SlotRecorded P_C16_PerIpServed P_C16_NoUnderflow P_C16_Baseline T_ServedLeMax
PROPERTIES P_C16_Admission P_C16_Hysteresis P_C16_PerIpAdmission
POSTCONDITION TraceAccepted
CHECK_DEADLOCK FALSE
