------------------------- MODULE Trace_CertListener -------------------------
(***************************************************************************)
(* I->S trace validation for CertListener.tla (property C17, listeners).   *)
(*                                                                         *)
(* The trace (ndjson, env TRACE) was recorded by `replay_certs --mode       *)
(* listener-drive` on REAL workers driven by seeded random commands chosen *)
(* without the specification: certificate commands interleaved with        *)
(* listener operations (add / remove / activate / deactivate / patch) on   *)
(* NAddr addresses; after every command, for every address, whether a TLS  *)
(* handshake over TCP was possible and, per probe name, the certificate    *)
(* the worker presented.  The trace is accepted iff every event is the     *)
(* spec action of the same name (Do(op)), the command's answer is the      *)
(* spec's, and every active listener served, for every probe name, a       *)
(* certificate the spec admits in the state after the step.  Runs are      *)
(* concatenated; `reset` starts a fresh worker.                            *)
(***************************************************************************)
EXTENDS CertListener, Json, IOUtils

Rec == ndJsonDeserialize(IOEnv.TRACE)

VARIABLE l        \* number of consumed events

ASSUME TLCSet(1, 0)

tvars == <<vars, l>>

OpOf(e) == Op(e.ev, e.a, e.v, e.f, e.k)

\* the answer of the worker: only an unusable new certificate is refused
AnswerOK(e) == e.res = (IF e.ev = "replace_fail" THEN "err" ELSE "ok")

\* what the clients saw agrees with the state after the step
ObservedOK(e) ==
  \A a \in Addr :
    lst'[a] = "up" =>
      /\ e.obs[a].st = "serving"
      /\ Len(e.obs[a].served) = Len(Probes)
      /\ \A i \in ProbeIdx : e.obs[a].served[i] \in Served(a, Probes[i])'

T_Reset(e) == e.ev = "reset" /\ lst' = [a \in Addr |-> "absent"] /\ flav' = [a \in Addr |-> "default"]
              /\ alpn' = [a \in Addr |-> "both"] /\ loaded' = [a \in Addr |-> {}] /\ own' = [a \in Addr |-> {}]
              /\ ctx' = [a \in Addr |-> Bound]

T_Step(e) == /\ e.ev \in CertKinds \cup LstKinds
             /\ OpOf(e) \in AllOps
             /\ AnswerOK(e)
             /\ Do(OpOf(e))
             /\ ObservedOK(e)

TraceNext ==
  /\ l < Len(Rec)
  /\ l' = l + 1
  /\ LET e == Rec[l + 1] IN T_Reset(e) \/ T_Step(e)

TraceInit == Init /\ l = 0
TraceSpec == TraceInit /\ [][TraceNext]_tvars

Track == (l > TLCGet(1) => TLCSet(1, l)) /\ TRUE

TraceAccepted ==
  /\ IF TLCGet(1) = Len(Rec)
     THEN PrintT(<<"TRACE-ACCEPTED", TLCGet(1)>>)
     ELSE /\ PrintT(<<"TRACE-REJECTED", TLCGet(1), Len(Rec)>>)
          /\ PrintT(<<"FIRST-UNEXPLAINED", Rec[TLCGet(1) + 1]>>)
  /\ TRUE
=============================================================================
