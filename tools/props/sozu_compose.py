"""The composition leg shared by C07 and C08: main process AND real workers (spec/Sozu.tla).

    run_leg(report, tier, prop)        prop = "C07" | "C08": violations of the clauses of `prop` are recorded in `report`

What one full composed run does (see design_notes/Sozu.md):
 1. TLC, Deviations = {}: P_C07_NoDrift, P_C07_RejectedLeavesNoTrace, P_C08_Converges, P_C09_OkMeansApplied (+ TypeOK,
    P_ProxiesFollowConfig) on every interleaving of the run-to-completion steps of the hub and the workers with worker
    deaths, late workers, a mute worker (time-outs), SaveState / LoadState.
 2. TLC with each open deviation switched on alone: a counterexample must come out (the finding stays honest);
    TLC with all open deviations on (= the code): the C08 / C09 clauses must still hold.
 3. S->I: generator configurations (scripted quiescent environment, open deviations on) print one script per
    (quiescent state, operation) transition with the predicted verdict and views after every element; harness/replay_sozu
    executes them on a REAL CommandHub with REAL worker threads and compares after every element.
 4. I->S: harness/drive_sozu records seeded random runs of the real composed system; TLC validates the trace against
    spec/Trace_Sozu.tla; a copy with one worker view altered (canary) must be rejected.

Budget: the full run is done once per (seed, tier, /repo tree, spec + harness sources) and its outcome cached under
.work/compose/cache; a second check in a row (C07 then C08) re-uses it and only re-does a fresh, differently seeded
I->S run (about 8 s). Cached numbers are reported under evidence.coverage.compose, never added to the measured totals.

Attribution: verdicts, the main process's configuration / saved state, rejected-leaves-no-trace and no-drift => C07;
worker views, cluster hashes, the hub's run states, late-worker bootstrap, convergence => C08; a crash of the hub or of a
worker thread => whichever property is running.
"""
import concurrent.futures as cf
import hashlib
import json
import os
import subprocess
import time

import vlib

MODULE = "Sozu"
DEVS_C07 = ["MasterKeepsRefused", "WorkerKeepsRefused"]
PROPS = "TypeOK P_C07_NoDrift P_C07_RejectedLeavesNoTrace P_C08_Converges P_C09_OkMeansApplied P_ProxiesFollowConfig"
ALL_INV = PROPS + " P_Confluent"
CODE_INV = "TypeOK P_C08_Converges P_C09_OkMeansApplied P_Confluent"      # what must hold of the code as it is (deviations on)
ACTIONS = ["Client_Send", "Hub_HandleClientRequest", "Worker_Handle", "Hub_HandleWorkerResponse", "Hub_HandleWorkerClose",
           "Hub_FinishTask", "Hub_TimeoutTask", "Worker_Die", "Hub_StartWorker"]

CFG = """SPECIFICATION %(spec)s
CONSTANTS
  Workers = %(workers)s
  InitWorkers = %(init)s
  MuteWorkers = %(mute)s
  Universe = "%(universe)s"
  MaxOps = %(ops)d
  MaxFaults = %(faults)d
  SlowWorkers = %(slow)s
  Deviations = %(dev)s
  Emit = %(emit)s
%(tail)s
CHECK_DEADLOCK FALSE
"""


def tset(xs):
    return "{" + ", ".join('"%s"' % x for x in xs) + "}"


def write_cfg(wd, name, **kw):
    d = dict(spec="Spec", workers=["0", "1", "2"], init=["0", "1"], mute=[], universe="core", ops=3, faults=1, slow=False,
             dev=[], emit=False, tail="VIEW MCView\nINVARIANTS " + ALL_INV)
    d.update(kw)
    for k in ("workers", "init", "mute", "dev"):
        d[k] = tset(d[k])
    d["slow"] = "TRUE" if d["slow"] else "FALSE"
    d["emit"] = "TRUE" if d["emit"] else "FALSE"
    path = os.path.join(wd, name + ".cfg")
    with open(path, "w") as f:
        f.write(CFG % d)
    return path


GEN_TAIL = "VIEW GenView\nINVARIANTS EmitState"
TRACE_TAIL = "CONSTRAINT Track\nINVARIANTS TypeOK P_C08_Converges P_C09_OkMeansApplied\nPOSTCONDITION TraceAccepted"


def trace_cfg(wd, devs):
    return write_cfg(wd, "trace", spec="TraceSpec", workers=["0", "1", "2", "3", "4", "7"], init=[], mute=["7"], universe="all",
                     ops=0, faults=0, dev=devs, tail=TRACE_TAIL)


# ------------------------------------------------------------------------------------------------ attribution

def property_of(klass):
    """Which property's clause a violation class belongs to ("both" = a crash)."""
    k = klass.split(":")
    if k[0] in ("hub-panic", "hub-exit", "hub-did-not-stop", "worker-exit", "rig", "observe", "client"):
        return "both"
    if k[0] == "spec":
        if "C08" in klass:
            return "C08"
        return "C07"
    if k[0] in ("verdict", "save", "dev"):
        return "C07"
    if k[0] == "view":
        return "C07" if len(k) > 1 and k[1] == "main" else "C08"
    if k[0] in ("hashes", "hv", "hub"):
        return "C08"
    if k[0] == "trace":
        return "C07" if len(k) > 1 and k[1] in ("op", "full") else "C08"
    return "both"


# ------------------------------------------------------------------------------------------------ cache

def _sha(path):
    h = hashlib.sha256()
    with open(path, "rb") as f:
        h.update(f.read())
    return h.hexdigest()


def cache_key(tier):
    parts = [str(vlib.seed()), tier]
    try:
        head = subprocess.run(["git", "-C", vlib.REPO, "rev-parse", "HEAD"], stdout=subprocess.PIPE, text=True, timeout=20).stdout.strip()
        diff = subprocess.run(["git", "-C", vlib.REPO, "diff", "HEAD"], stdout=subprocess.PIPE, timeout=60).stdout
        parts += [head, hashlib.sha256(diff).hexdigest()]
    except Exception:
        parts.append("norepo-%f" % time.time())
    for p in ("spec/Sozu.tla", "spec/Trace_Sozu.tla", "spec/ConfigState.tla", "harness/src/sozukit.rs", "harness/src/cfgmodel.rs",
              "harness/src/bin/replay_sozu.rs", "harness/src/bin/drive_sozu.rs", "tools/props/sozu_compose.py", "known_findings.json"):
        parts.append(_sha(os.path.join(vlib.ROOT, p)))
    return hashlib.sha256("|".join(parts).encode()).hexdigest()[:24]


def cache_path(tier):
    d = os.path.join(vlib.WORK, "compose", "cache")
    os.makedirs(d, exist_ok=True)
    return os.path.join(d, "%s.json" % cache_key(tier))


# ------------------------------------------------------------------------------------------------ the legs

class Outcome:
    """What a composed run found, independent of the property it is reported under."""

    def __init__(self):
        self.violations = []     # (class, description, replay object or text, file name)
        self.tlc = []            # (distinct, generated)
        self.scripts = 0
        self.runs_accepted = 0
        self.compared = 0
        self.samples = []
        self.known = {}          # finding id -> occurrences
        self.extra = {}

    def violation(self, klass, desc, obj, name):
        self.violations.append((klass, desc, obj, name))

    def to_json(self):
        return {"violations": self.violations, "tlc": self.tlc, "scripts": self.scripts, "runs_accepted": self.runs_accepted,
                "compared": self.compared, "samples": self.samples, "known": self.known, "extra": self.extra}

    @staticmethod
    def from_json(d):
        o = Outcome()
        o.violations = [tuple(v) for v in d["violations"]]
        o.tlc = [tuple(t) for t in d["tlc"]]
        o.scripts, o.runs_accepted, o.compared = d["scripts"], d["runs_accepted"], d["compared"]
        o.samples, o.known, o.extra = d["samples"], d["known"], d["extra"]
        return o


def model_leg(out, pid, wd, thorough, workers):
    """1 + 2: the design with no deviation, each open deviation alone, the code as it is."""
    jobs = []
    if thorough:
        jobs += [("mc_all4", dict(universe="all", ops=4, faults=1), ALL_INV, None, True),
                 ("mc_tcp", dict(universe="tcp", ops=3, faults=2), ALL_INV, None, False),
                 ("mc_core4f2", dict(universe="core", ops=4, faults=2), ALL_INV, None, False),
                 ("mc_mute", dict(universe="all", ops=3, faults=1, mute=["1"]), ALL_INV, None, False),
                 ("mc_slow", dict(universe="core", ops=3, faults=1, slow=True), PROPS, None, False),
                 ("mc_code", dict(universe="all", ops=3, faults=1, dev=DEVS_C07), CODE_INV, None, False)]
    else:
        jobs += [("mc_core", dict(universe="core", ops=3, faults=1), ALL_INV, None, False),
                 ("mc_mute", dict(universe="core", ops=3, faults=1, mute=["1"]), ALL_INV, None, False),
                 ("mc_slow", dict(universe="core", ops=2, faults=1, slow=True), PROPS, None, False),
                 ("mc_code", dict(universe="core", ops=3, faults=1, dev=DEVS_C07), CODE_INV, None, False)]
    for d in DEVS_C07:
        jobs.append(("dev_" + d, dict(universe="core", ops=3, faults=1, dev=[d]), ALL_INV, d, False))

    def one(job):
        name, kw, inv, dev, cov = job
        cfg = write_cfg(wd, name, tail="VIEW MCView\nINVARIANTS " + inv, **kw)
        return job, vlib.tlc(MODULE, cfg, pid, workers=workers, timeout=2400 if thorough else 300, coverage=cov)

    with cf.ThreadPoolExecutor(max_workers=3 if not thorough else 2) as ex:
        for (name, kw, inv, dev, cov), r in ex.map(one, jobs):
            out.tlc.append((r["distinct"], r["generated"]))
            if dev:
                if not r["violated"]:
                    raise vlib.ToolError("deviation %s no longer violates a property of Sozu.tla" % dev)
                vlib.log("deviation %s: TLC counterexample to %s as expected" % (dev, r["violated"]))
                fid = {"MasterKeepsRefused": "master-keeps-refused", "WorkerKeepsRefused": "worker-keeps-refused"}[dev]
                out.known[fid] = out.known.get(fid, 0) + 1
            elif r["violated"]:
                out.violation("spec:%s:%s" % (name, r["violated"]), "Sozu.tla (%s, %s) violates %s" % (
                    name, "the code's deviations on" if kw.get("dev") else "no deviation", r["violated"]), r["out"][-6000:],
                    "compose_spec_%s.txt" % name)
            elif cov:
                vlib.require_actions_covered(r, ACTIONS)
            out.extra.setdefault("tlc", {})[name] = {"distinct": r["distinct"], "generated": r["generated"], "wall_s": round(r["wall_s"], 1)}


def generator_families(thorough):
    """(name, cfg kw, replay args, quick sample size)"""
    devs = DEVS_C07
    return [
        ("core", dict(universe="core", ops=4 if thorough else 3, faults=1, dev=devs), [], 700),
        ("tcp", dict(universe="tcp", ops=3, faults=1, dev=devs), [], 500),
        ("load", dict(universe="load", ops=5, faults=0, dev=devs), ["--keep-last", "load"], 200),
        ("mute", dict(universe="core", ops=2, faults=0, mute=["1"], dev=devs), ["--mute", "1"], 16),
    ]


def count_deviation_use(line, counts):
    """A failure verdict that left a trace in the predicted (= observed) state: which open deviation shows."""
    sc = line["script"]
    if not sc:
        return
    last = sc[-1]
    if last["verdict"] != "failure" or last["op"].get("kind") not in ("cmd", "load"):
        return
    before = sc[-2]["obs"] if len(sc) > 1 else None
    after = last["obs"]
    empty = {"clu": [], "bke": [], "hfr": [], "tfr": [], "lst": [], "crt": []}

    def norm(o, k):
        v = (o["main"] if o else empty).get(k, [])
        return sorted(json.dumps(x, sort_keys=True) for x in v)
    if any(norm(before, k) != norm(after, k) for k in empty):
        counts["master-keeps-refused"] = counts.get("master-keeps-refused", 0) + 1
    wb = (before or {}).get("workers") or {}
    wa = after.get("workers") or {}
    if isinstance(wb, list):
        wb = {}
    if isinstance(wa, list):
        wa = {}
    for w, v in wa.items():
        if w in wb and json.dumps(wb[w], sort_keys=True) != json.dumps(v, sort_keys=True):
            counts["worker-keeps-refused"] = counts.get("worker-keeps-refused", 0) + 1
            break


def replay_leg(out, pid, wd, bins, thorough, workers, seed):
    """3: S->I"""
    exhaustive = True
    for idx, (name, kw, rargs, sample) in enumerate(generator_families(thorough)):
        beh = os.path.join(wd, "gen_%s.ndjson" % name)
        counts = {}
        with open(beh, "w") as f:
            def sink(o):
                f.write(json.dumps(o) + "\n")
                count_deviation_use(o, counts)
            g = vlib.tlc(MODULE, write_cfg(wd, "gen_" + name, spec="GenSpec", emit=True, tail=GEN_TAIL, **kw), pid,
                         workers=workers, timeout=2400, want_replay=True, replay_sink=sink)
        out.tlc.append((g["distinct"], g["generated"]))
        if g["violated"] or g["n_replays"] == 0:
            raise vlib.ToolError("generator %s: %s" % (name, g["violated"] or "no script"))
        for fid, n in counts.items():
            out.known[fid] = out.known.get(fid, 0) + n
        # a time-out is only expected in the mute family: elsewhere the worker time-out is one no loaded machine reaches
        args = ["--threads", "12", "--seed", str(seed), "--index-base", str(idx * 60000),
                "--timeout", "1" if name == "mute" else "12"] + rargs
        if not thorough and sample and g["n_replays"] > sample:
            args += ["--sample", str(sample)]
            exhaustive = False
        res = vlib.run_harness(bins["replay_sozu"], args, stdin_path=beh, timeout=3000)
        summ = [o for o in res if o.get("kind") == "summary"]
        if not summ:
            raise vlib.ToolError("replay_sozu produced no summary (%s)" % name)
        summ = summ[0]
        vlib.log("replay %s: %d scripts of %d, %d steps, %d comparisons, %d violations, %.1fs" % (
            name, summ["runs"], summ["lines"], summ["steps"], summ["compared"], summ["violations"], summ["wall_s"]))
        if summ["runs"] == 0 or summ["compared"] == 0:
            raise vlib.ToolError("vacuous replay (%s)" % name)
        if summ.get("aborted"):
            exhaustive = False
        out.scripts += summ["runs"]
        out.compared += summ["compared"]
        out.samples += ["[compose %s] %s" % (name, s) for s in summ["samples"][:2]]
        out.extra.setdefault("replay", {})[name] = {k: summ[k] for k in ("lines", "runs", "steps", "compared", "violations", "classes")}
        seen = set()
        for v in res:
            if v.get("kind") == "violation" and v["class"] not in seen:
                seen.add(v["class"])
                out.violation(v["class"], "[compose S->I %s, %d occurrence(s)] %s" % (
                    name, summ["classes"].get(v["class"], 1), json.dumps(v["detail"])[:230]),
                    json.dumps(v["line"]) + "\n", "compose_%s_%s.ndjson" % (name, v["class"].replace(":", "_").replace("/", "_")[:60]))
    out.extra["replay_exhaustive"] = exhaustive


def classify_rejection(ev):
    kind = ev.get("ev")
    if kind == "op":
        what = ev["op"]["c"]["verb"] if ev["op"].get("kind") == "cmd" else ev["op"].get("kind")
        return "trace:op:%s" % what
    if kind == "view":
        return "trace:view"
    return "trace:%s" % kind


def canary(trace, dst):
    """Alter one worker's view in one `view` event (drop or invent a backend): must be rejected there."""
    with open(trace) as f:
        lines = f.readlines()
    cands = []
    for i, l in enumerate(lines):
        if '"ev":"view"' in l and '"queried":true' in l:
            o = json.loads(l)
            ws = [w for w in o["views"] if w != "main"]
            if ws:
                cands.append(i)
    if not cands:
        return None
    i = cands[len(cands) // 2]
    o = json.loads(lines[i])
    w = sorted(x for x in o["views"] if x != "main")[0]
    if o["views"][w]["bke"]:
        o["views"][w]["bke"] = o["views"][w]["bke"][1:]
    else:
        o["views"][w]["bke"] = [{"b": "b1", "c": "c1", "w": 0, "x": "x1"}]
    lines[i] = json.dumps(o) + "\n"
    with open(dst, "w") as g:
        g.writelines(lines)
    return i


def trace_leg(out, pid, wd, bins, thorough, seed, runs=None, tag="trace"):
    """4: I->S"""
    devs = DEVS_C07
    tcfg = trace_cfg(wd, devs)
    n_runs, steps = (160, 70) if thorough else (24, 50)
    if runs:
        n_runs = runs
    chunks = max(1, n_runs // 40)
    for c in range(chunks):
        trace = os.path.join(wd, "%s_%d.ndjson" % (tag, c))
        res = vlib.run_harness(bins["drive_sozu"], ["--seed", str(seed * 7919 + c), "--runs", str(n_runs // chunks), "--steps", str(steps),
                                                    "--threads", "12", "--out", trace, "--index-base", str(200000 + c * 500),
                                                    "--timeout", "2"], timeout=1800)
        summ = [o for o in res if o.get("kind") == "summary"]
        if not summ:
            raise vlib.ToolError("drive_sozu produced no summary")
        summ = summ[0]
        if summ["ops"] == 0 or summ["failure"] == 0 or summ["ok"] == 0:
            raise vlib.ToolError("vacuous driver run: %s" % {k: summ[k] for k in ("ops", "ok", "failure")})
        for v in res:
            if v.get("kind") == "violation":
                out.violation(v["class"], "[compose I->S] run %s: %s" % (v.get("run"), json.dumps(v["detail"])[:240]), v,
                              "compose_drive_%s.json" % v["class"].replace(":", "_")[:60])
        r = vlib.tlc_trace("Trace_Sozu", tcfg, pid, trace, timeout=1800)
        out.tlc.append((r["distinct"], r["generated"]))
        out.compared += summ["events"]
        out.extra.setdefault("trace", []).append({k: summ[k] for k in ("runs", "events", "ops", "ok", "failure", "faults")})
        if r["accepted"]:
            out.runs_accepted += summ["runs"]
            if c == 0:
                bad = os.path.join(wd, "%s_canary.ndjson" % tag)
                i = canary(trace, bad)
                if i is not None:
                    rc = vlib.tlc_trace("Trace_Sozu", tcfg, pid, bad, timeout=900)
                    if rc["accepted"] or rc["consumed"] is None or rc["consumed"] > i:
                        raise vlib.ToolError("canary: a trace with one worker view altered was accepted (binding is vacuous)")
                    vlib.log("canary: altered view at event %d, TLC consumed %s -> rejected" % (i + 1, rc["consumed"]))
        else:
            with open(trace) as f:
                lines = f.readlines()
            k = r["consumed"] or 0
            ev = json.loads(lines[k]) if k < len(lines) else {"ev": "end"}
            run = ev.get("run")
            mine = [l for l in lines[:k + 1] if json.loads(l).get("run") == run]
            klass = classify_rejection(ev)
            short = dict(ev)
            short.pop("full", None)
            out.violation(klass, "[compose I->S] the recorded behaviour of the real main process + workers is not a behaviour of "
                                 "Sozu.tla (consumed %s of %s events; first unexplained: %s)" % (k, r["total"], json.dumps(short)[:300]),
                          "".join(mine), "compose_%s.ndjson" % klass.replace(":", "_")[:60])
    vlib.log("compose trace validation: %d runs accepted" % out.runs_accepted)


def full_run(pid, tier, bins):
    out = Outcome()
    wd = vlib.workdir("compose/" + pid)
    thorough = tier == "thorough"
    workers = 8 if thorough else 4
    seed = vlib.seed()
    t0 = time.time()
    with cf.ThreadPoolExecutor(max_workers=2) as ex:
        # the model runs and the conformance legs do not depend on each other
        fm = ex.submit(model_leg, out, "compose/" + pid, wd, thorough, workers)
        replay_leg(out, "compose/" + pid, wd, bins, thorough, workers, seed)
        trace_leg(out, "compose/" + pid, wd, bins, thorough, seed)
        fm.result()
    out.extra["wall_s"] = round(time.time() - t0, 1)
    return out


def report_outcome(report, prop, out, measured):
    """Put what belongs to `prop` into the report. measured = False: the outcome comes from the cache."""
    for klass, desc, obj, name in out.violations:
        p = property_of(klass)
        if p in (prop, "both"):
            report.violation(klass, desc, obj, name=name)
        else:
            vlib.log("compose: %s belongs to %s, not reported under %s: %s" % (klass, p, prop, desc[:160]))
    if measured:
        for distinct, generated in out.tlc:
            report.cov["states"] += distinct
            report.cov["transitions"] += generated
        # the host check assigns these fields at its end: ours are added when the report is finished
        pend = _pending(report)
        pend["traces"] += out.scripts + out.runs_accepted
        pend["evaluations"] += out.compared
        pend["samples"] += out.samples[:2]
    for fid, n in out.known.items():
        for e in report.findings:
            if e["id"] == fid and e.get("status") == "open":
                report.known.setdefault(fid, {"n": 0, "what": e["what"]})["n"] += n
    section = "measured_this_run" if measured else "reused_from_cache"
    report.extra.setdefault("compose", {}).setdefault(section, []).append(
        dict(out.extra, scripts_replayed=out.scripts, trace_runs_accepted=out.runs_accepted, comparisons=out.compared))


def replay_one(report, prop, bins, replay):
    """./check Cxx --replay replays/Cxx/compose_*: re-execute one stored script / re-validate one stored trace."""
    name = os.path.basename(replay)
    wd = vlib.workdir("compose/" + prop)
    with open(replay) as f:
        first = f.readline()
    if name.endswith(".txt"):
        print(open(replay).read()[-6000:])
        raise SystemExit(0)
    if '"script"' in first:
        mute = name.startswith("compose_mute_")
        args = ["--threads", "1", "--verbose", "--timeout", "1" if mute else "12"] + (["--mute", "1"] if mute else [])
        res = vlib.run_harness(bins["replay_sozu"], args, stdin_path=replay, timeout=600)
        for v in res:
            if v.get("kind") == "violation" and property_of(v["class"]) in (prop, "both"):
                report.violation(v["class"], json.dumps(v["detail"])[:260], json.dumps(v["line"]) + "\n", name=name)
    elif '"ev"' in first:
        r = vlib.tlc_trace("Trace_Sozu", trace_cfg(wd, DEVS_C07), "compose/" + prop, replay, timeout=900)
        if not r["accepted"]:
            report.violation("trace:rejected", "consumed %s of %s events" % (r["consumed"], r["total"]), open(replay).read(), name=name)
    else:
        print(open(replay).read()[:4000])
        raise SystemExit(0)
    report.cov["traces_validated_against_impl"] = 1
    report.cov["rule"] = "single replay (composed leg)"
    report.finish()


RULE = (" + composed leg (spec/Sozu.tla): TLC-generated scripts, one per (quiescent state, operation) transition of the composed "
        "model, executed on a real CommandHub with real worker threads and compared after every element (verdict, hub run states, "
        "views of the main process and of every worker, saved configuration); seeded random runs of that system accepted by "
        "Trace_Sozu.tla (canary rejected)")


def _pending(report):
    """Counts of this leg, merged into the coverage when the host check calls report.finish()."""
    if not hasattr(report, "_compose_pending"):
        report._compose_pending = {"traces": 0, "evaluations": 0, "samples": []}
        inner = report.finish

        def finish():
            p = report._compose_pending
            report.cov["traces_validated_against_impl"] += p["traces"]
            report.cov["evaluations"] += p["evaluations"]
            if p["traces"] and RULE not in report.cov["rule"]:
                report.cov["rule"] += RULE
            report.cov["samples"] = (p["samples"] + list(report.cov["samples"]))[:12]
            inner()
        report.finish = finish
    return report._compose_pending


def run_leg(report, tier, prop, replay=None):
    """Called first thing by c07.run / c08.run. With --replay: handles the composed leg's own replay files
    (replays/Cxx/compose_*) and does nothing for the other ones."""
    t0 = time.time()
    if replay and not os.path.basename(replay).startswith("compose_"):
        return
    bins = vlib.cargo_build(["replay_sozu", "drive_sozu"])
    if replay:
        replay_one(report, prop, bins, replay)
    cpath = cache_path(tier)
    cached = None
    if os.path.exists(cpath) and time.time() - os.path.getmtime(cpath) < 3600:
        try:
            with open(cpath) as f:
                cached = Outcome.from_json(json.load(f))
        except (ValueError, KeyError):
            cached = None
    if cached is None:
        out = full_run(prop, tier, bins)
        with open(cpath + ".tmp", "w") as f:
            json.dump(out.to_json(), f)
        os.replace(cpath + ".tmp", cpath)
        report_outcome(report, prop, out, True)
    else:
        vlib.log("compose: re-using the composed run of this seed and tree (%s); fresh I->S run only" % os.path.basename(cpath))
        report_outcome(report, prop, cached, False)
        fresh = Outcome()
        wd = vlib.workdir("compose/" + prop)
        trace_leg(fresh, "compose/" + prop, wd, bins, tier == "thorough", vlib.seed() + 104729, runs=24 if tier != "thorough" else 80,
                  tag="fresh")
        report_outcome(report, prop, fresh, True)
    report.assumptions += [
        "composed leg (spec/Sozu.tla): one sequential client, the harness waits for quiescence between operations and lets the hub notice a worker's death before the next operation; workers are threads of the harness process connected through real socketpair channels (fork/exec of a worker binary is not exercised); a worker's listeners are observed through its answers, not through traffic",
    ]
    vlib.log("compose leg (%s, %s): %.1fs" % (prop, tier, time.time() - t0))
