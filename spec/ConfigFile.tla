----------------------------- MODULE ConfigFile -----------------------------
(***************************************************************************)
(* C20 - a configuration file means exactly what it declares.              *)
(*                                                                         *)
(* The state of this module is an ABSTRACT CONFIGURATION FILE              *)
(* (command/src/config.rs::FileConfig): global keys, a set of              *)
(* `[[listeners]]` and a set of `[clusters.<id>]` with frontends and *)
(* backends.  The actions are the editing steps that build a file, so the  *)
(* reachable states are exactly the files within the size bound and every  *)
(* invariant below is a statement about one file.                          *)
(*                                                                         *)
(* Two independent descriptions of what a file means are kept apart:       *)
(*                                                                         *)
(*  - the DOCUMENT reading: Violations(F) (the constraints of              *)
(*    doc/configure.md + bin/config.toml + the property text) and          *)
(*    Declared(F) (the configuration a reader of the documentation         *)
(*    expects, with the documented defaults), both written as set          *)
(*    comprehensions over the file;                                        *)
(*  - the CODE reading: Run(F, o) transcribes                              *)
(*    Config::load_from_path -> ConfigBuilder::into_config ->              *)
(*    generate_config_messages -> ConfigState::dispatch, as folds in the   *)
(*    loader's own order, for every order `o` in which the loader may      *)
(*    visit clusters (HashMap iteration) and frontends.               *)
(*                                                                         *)
(* P_C20 says the two agree.  The Rust replayer binds the DOCUMENT reading *)
(* (printed by the generator) to the real loader.                          *)
(*                                                                         *)
(* Every optional TOML key is a string-valued "knob", "absent" meaning the *)
(* key is not written in the file.                                         *)
(***************************************************************************)
EXTENDS Naturals, Sequences, FiniteSets, SequencesExt, FiniteSetsExt, TLC, Json

CONSTANTS MaxListeners,   \* bound on [[listeners]]
          MaxClusters,    \* bound on [clusters.*]
          MaxFronts,      \* bound on frontends per cluster
          MaxBacks,       \* bound on backends per cluster
          MaxSize,        \* bound on #listeners + #clusters + #frontends + #backends + #knobs set
          Deviations,     \* open known findings modelled as the code behaves ({"DupFrontendAccepted"}) and the
                          \* self-test slips TLC must refute ("FrontKeyDropsMethod", "BackendKeyDropsAddress",
                          \* "CertKeyDropsAddress": a state key that forgets one field of an object's identity)
          EmitDeviations, \* the open deviations under which the generator prints the code outcomes (field `code`):
                          \* lets ONE TLC pass check P_C20 with Deviations = {} and print the REPLAY lines
          Focus,          \* "all": every optional key of the universe; "identity": only the keys that take part in
                          \* the identity of some declared object (+ the non-identity decoys), so that the size
                          \* budget is spent on files holding two objects that differ in ONE identity field
          Emit            \* TRUE: print one REPLAY line per file (generator configs)

VARIABLES glb, lsn, cls
vars == <<glb, lsn, cls>>

---------------------------------------------------------------------------
(* Universe *)

Addrs     == {"A1", "A2"}            \* listening / frontend addresses
BackAddrs == {"B1", "B2"}
GoodListenerProtos == {"http", "https", "tcp", "udp"}
BadProtos == {"bogus", "absent"}     \* an unknown protocol string / the key left out
ClusterProtos == {"http", "tcp", "bogus"}
ClusterIds == <<"c1", "c2">>
IdentityFocus == Focus = "identity"
ListenerProtoChoices == GoodListenerProtos \cup (IF IdentityFocus THEN {} ELSE BadProtos)
ClusterProtoChoices == IF IdentityFocus THEN {"http", "tcp"} ELSE ClusterProtos

G0 == [buffer_size |-> "absent", activate |-> "absent", front_timeout |-> "absent", metrics_off |-> "absent"]
GlobalKnobs == IF IdentityFocus THEN {} ELSE
               { <<"buffer_size", "small">>,    \* below 16393
                 <<"buffer_size", "min">>,      \* exactly 16393
                 <<"activate", "false">>,       \* activate_listeners = false
                 <<"front_timeout", "set">>,    \* front_timeout = 77
                 <<"metrics_off", "true">> }    \* disable_cluster_metrics = true

L0(a, p) == [addr |-> a, proto |-> p, expect_proxy |-> "absent", public |-> "absent", alpn |-> "absent",
             cert |-> "absent", hsts |-> "absent", front_timeout |-> "absent"]
LFields == {"expect_proxy", "public", "alpn", "cert", "hsts", "front_timeout"}
LKnobs(l) ==
  IF IdentityFocus THEN (IF l.proto = "https" THEN { <<"cert", "C2">> } ELSE {}) ELSE
  { <<"public", "set">>, <<"front_timeout", "set">> }          \* public_address = ..., front_timeout = 88
  \cup (IF l.proto \in {"http", "https", "tcp"}                 \* doc: not supported on UDP listeners
        THEN { <<"expect_proxy", "true">>, <<"expect_proxy", "false">> } ELSE {})
  \cup (IF l.proto = "https"
        THEN { <<"alpn", v>> : v \in {"empty", "h1", "h2", "h1h2", "bogus"} } \cup { <<"cert", "C2">> }
        ELSE {})
  \cup (IF l.proto \in {"http", "https"} THEN { <<"hsts", "on">>, <<"hsts", "noenabled">> } ELSE {})

\* `method` restricts the routing rule to one HTTP method (FileClusterFrontendConfig::method): with address,
\* hostname and path rule it IS part of the identity of an HTTP(S) frontend (GET /items and POST /items of one host
\* may be served by different clusters, a method-less frontend being the fallback).  `position` and `tags` are
\* NOT: two frontends that differ only there have one routing key.
F0(a, h) == [addr |-> a, host |-> h, path |-> "absent", ptype |-> "absent", method |-> "absent", cert |-> "absent",
             hsts |-> "absent", position |-> "absent", tags |-> "absent"]
FFields == {"path", "ptype", "method", "cert", "hsts", "position", "tags"}
Hosts == {"none", "h1", "h2"}
BaseHost(cproto) == IF cproto = "http" THEN "h1" ELSE "none"
FKnobs(c, f) ==
  { <<"path", "api">>, <<"cert", "C1">> }
  \cup (IF c.proto = "http" /\ ~IdentityFocus THEN { <<"hsts", "on">> } ELSE {})   \* [hsts] on a TCP frontend: not in the documented grammar
  \cup (IF f.path # "absent" THEN { <<"ptype", v>> : v \in {"PREFIX", "REGEX", "EQUALS"} } ELSE {})
  \* method / position / tags on a TCP frontend: not in the documented grammar either
  \cup (IF c.proto = "http" THEN { <<"method", "GET">>, <<"method", "POST">>, <<"position", "POST">>, <<"tags", "t">> } ELSE {})
  \* a second certificate on frontends: two certificates on one address (identity of a certificate = address + fingerprint)
  \cup (IF IdentityFocus THEN { <<"cert", "C2">> } ELSE {})

B0(a) == [addr |-> a, weight |-> "absent", backup |-> "absent", bid |-> "absent"]
BFields == {"weight", "backup", "bid"}
BKnobs == { <<"weight", "50">>, <<"backup", "true">>, <<"bid", "x">> }

C0(id, p) == [id |-> id, proto |-> p, lb |-> "absent", https_redirect |-> "absent", send_proxy |-> "absent",
              fronts |-> {}, backs |-> <<>>]
CFields == {"lb", "https_redirect", "send_proxy"}
CKnobs(c) == { <<"lb", "RANDOM">>, <<"send_proxy", "true">> }
             \cup (IF c.proto = "http" THEN { <<"https_redirect", "true">> } ELSE {})

Set(rec, fields) == Cardinality({k \in fields : rec[k] # "absent"})

LSize(l) == 1 + Set(l, LFields) + (IF l.proto \in BadProtos THEN 1 ELSE 0)
FSize(c, f) == 1 + Set(f, FFields) + (IF f.host # BaseHost(c.proto) THEN 1 ELSE 0)
BSize(b) == 1 + Set(b, BFields)
CSize(c) == 1 + Set(c, CFields) + (IF c.proto = "bogus" THEN 1 ELSE 0)
            + FoldSet(LAMBDA f, acc : acc + FSize(c, f), 0, c.fronts)
            + FoldLeft(LAMBDA acc, b : acc + BSize(b), 0, c.backs)
FileSize(g, ls, cs) == Set(g, DOMAIN G0)
                       + FoldSet(LAMBDA l, acc : acc + LSize(l), 0, ls)
                       + FoldSet(LAMBDA c, acc : acc + CSize(c), 0, cs)

File == [g |-> glb, ls |-> lsn, cs |-> cls]

---------------------------------------------------------------------------
(* Editing actions: each adds one entry or writes one optional key.        *)

Fits(g, ls, cs) == FileSize(g, ls, cs) <= MaxSize

SetGlobal(k, v) ==
  /\ glb[k] = "absent"
  /\ glb' = [glb EXCEPT ![k] = v]
  /\ UNCHANGED <<lsn, cls>>
  /\ Fits(glb', lsn, cls)

AddListener(a, p) ==
  /\ Cardinality(lsn) < MaxListeners
  /\ lsn' = lsn \cup {L0(a, p)}
  /\ lsn' # lsn
  /\ UNCHANGED <<glb, cls>>
  /\ Fits(glb, lsn', cls)

SetListenerKnob(l, k, v) ==
  /\ l[k] = "absent"
  /\ LET l2 == [l EXCEPT ![k] = v] IN
       /\ l2 \notin lsn
       /\ lsn' = (lsn \ {l}) \cup {l2}
  /\ UNCHANGED <<glb, cls>>
  /\ Fits(glb, lsn', cls)

AddCluster(p) ==
  /\ Cardinality(cls) < MaxClusters
  /\ cls' = cls \cup {C0(ClusterIds[Cardinality(cls) + 1], p)}
  /\ UNCHANGED <<glb, lsn>>
  /\ Fits(glb, lsn, cls')

Replace(c, c2) == cls' = (cls \ {c}) \cup {c2}

SetClusterKnob(c, k, v) ==
  /\ c[k] = "absent"
  /\ Replace(c, [c EXCEPT ![k] = v])
  /\ UNCHANGED <<glb, lsn>>
  /\ Fits(glb, lsn, cls')

AddFront(c, a) ==
  /\ Cardinality(c.fronts) < MaxFronts
  /\ F0(a, BaseHost(c.proto)) \notin c.fronts
  /\ Replace(c, [c EXCEPT !.fronts = @ \cup {F0(a, BaseHost(c.proto))}])
  /\ UNCHANGED <<glb, lsn>>
  /\ Fits(glb, lsn, cls')

SetFrontKnob(c, f, k, v) ==
  /\ f[k] = "absent"
  /\ LET f2 == [f EXCEPT ![k] = v] IN
       /\ f2 \notin c.fronts
       /\ Replace(c, [c EXCEPT !.fronts = (@ \ {f}) \cup {f2}])
  /\ UNCHANGED <<glb, lsn>>
  /\ Fits(glb, lsn, cls')

SetFrontHost(c, f, h) ==
  /\ f.host = BaseHost(c.proto) /\ h # f.host
  /\ LET f2 == [f EXCEPT !.host = h] IN
       /\ f2 \notin c.fronts
       /\ Replace(c, [c EXCEPT !.fronts = (@ \ {f}) \cup {f2}])
  /\ UNCHANGED <<glb, lsn>>
  /\ Fits(glb, lsn, cls')

AddBack(c, a) ==
  /\ Len(c.backs) < MaxBacks
  /\ Replace(c, [c EXCEPT !.backs = Append(@, B0(a))])
  /\ UNCHANGED <<glb, lsn>>
  /\ Fits(glb, lsn, cls')

SetBackKnob(c, i, k, v) ==
  /\ c.backs[i][k] = "absent"
  \* a backend is identified by (cluster, backend_id, address): one explicit backend_id may name two backends
  \* with different addresses; re-declaring one (id, address) is out of scope
  /\ (k = "bid" => \A j \in 1..Len(c.backs) : c.backs[j].bid = "absent" \/ c.backs[j].addr # c.backs[i].addr)
  /\ Replace(c, [c EXCEPT !.backs[i][k] = v])
  /\ UNCHANGED <<glb, lsn>>
  /\ Fits(glb, lsn, cls')

Init == glb = G0 /\ lsn = {} /\ cls = {}

\* one named step per kind of edit (TLC reports coverage per name)
EditGlobal       == \E kv \in GlobalKnobs : SetGlobal(kv[1], kv[2])
NewListener      == \E a \in Addrs, p \in ListenerProtoChoices : AddListener(a, p)
EditListener     == \E l \in lsn : \E kv \in LKnobs(l) : SetListenerKnob(l, kv[1], kv[2])
NewCluster       == \E p \in ClusterProtoChoices : AddCluster(p)
EditCluster      == \E c \in cls : \E kv \in CKnobs(c) : SetClusterKnob(c, kv[1], kv[2])
NewFrontend      == \E c \in cls : \E a \in Addrs : AddFront(c, a)
EditFrontend     == \E c \in cls : \E f \in c.fronts : \E kv \in FKnobs(c, f) : SetFrontKnob(c, f, kv[1], kv[2])
EditFrontendHost == \E c \in cls : \E f \in c.fronts : \E h \in Hosts : SetFrontHost(c, f, h)
NewBackend       == \E c \in cls : \E a \in BackAddrs : AddBack(c, a)
EditBackend      == \E c \in cls : \E i \in 1..Len(c.backs) : \E kv \in BKnobs : SetBackKnob(c, i, kv[1], kv[2])

Next == \/ EditGlobal \/ NewListener \/ EditListener \/ NewCluster \/ EditCluster
        \/ NewFrontend \/ EditFrontend \/ EditFrontendHost \/ NewBackend \/ EditBackend

Spec == Init /\ [][Next]_vars

---------------------------------------------------------------------------
(* Shared vocabulary of both readings *)

IsOn(v) == v # "absent"
AlpnOf(l) == CASE l.alpn \in {"absent", "empty"} -> <<"h2", "http/1.1">>      \* documented default
               [] l.alpn = "h1"   -> <<"http/1.1">>
               [] l.alpn = "h2"   -> <<"h2">>
               [] l.alpn = "h1h2" -> <<"http/1.1", "h2">>
               [] OTHER           -> <<>>
HasH2(alpn) == \E i \in 1..Len(alpn) : alpn[i] = "h2"

DefaultFrontTimeout == 60
DefaultUdpFrontTimeout == 30
GlobalFrontTimeout(F) == IF IsOn(F.g.front_timeout) THEN 77 ELSE DefaultFrontTimeout
ListenerFrontTimeout(F, kind, ft) ==
  IF IsOn(ft) THEN 88                                       \* 1. the listener's own value
  ELSE IF kind = "udp" THEN DefaultUdpFrontTimeout          \* UDP listeners have their own default
  ELSE GlobalFrontTimeout(F)                                \* 2. the global value, 3. the default

PathKind(f) == IF f.path = "absent" THEN "prefix"
               ELSE CASE f.ptype \in {"absent", "PREFIX"} -> "prefix"
                      [] f.ptype = "REGEX" -> "regex"
                      [] f.ptype = "EQUALS" -> "equals"
PathValue(f) == IF f.path = "absent" THEN "" ELSE "/api"
\* the identity of an HTTP(S) frontend on its listener kind: address, hostname, path rule, method
RouteKey(f) == <<f.addr, f.host, PathKind(f), PathValue(f), f.method>>

ProxyMode(send, expect) == CASE send /\ expect -> "relay" [] send /\ ~expect -> "send"
                             [] ~send /\ expect -> "expect" [] OTHER -> "none"

FrontsOf(F) == UNION { { [c |-> c, f |-> f] : f \in c.fronts } : c \in F.cs }
DeclaredAddrs(F) == { l.addr : l \in F.ls }
ListenersAt(F, a) == { l \in F.ls : l.addr = a }
\* the listener kind a frontend needs when its address has no [[listeners]] entry: the loader creates a
\* default listener for it (command/src/config.rs "create a default listener for that front"; the sample
\* bin/config.toml relies on it for its TCP cluster)
ImpliedKind(c, f) == IF c.proto = "tcp" THEN "tcp" ELSE IF IsOn(f.cert) THEN "https" ELSE "http"

---------------------------------------------------------------------------
(* DOCUMENT reading 1: the constraints.  Violations(F) is the set of names *)
(* of violated constraints; a file is valid iff it is empty.               *)

FrontKindMismatch(F, cf) ==
  \E l \in ListenersAt(F, cf.f.addr) :
     IF cf.c.proto = "tcp" THEN l.proto \in {"http", "https"}
     ELSE \/ l.proto \in {"tcp", "udp"}
          \/ l.proto = "http" /\ IsOn(cf.f.cert)                       \* a certificate on a plain HTTP listener
          \/ l.proto = "https" /\ ~IsOn(cf.f.cert) /\ ~IsOn(l.cert)    \* HTTPS frontend with no certificate at all

Violations(F) ==
  LET fs == FrontsOf(F)
      undeclared == { cf \in fs : cf.f.addr \notin DeclaredAddrs(F) }
      httpsListeners == { AlpnOf(l) : l \in { x \in F.ls : x.proto = "https" } }
                        \cup { AlpnOf(L0("A1", "https")) : cf \in { x \in undeclared : ImpliedKind(x.c, x.f) = "https" } }
      expectAddrs == { l.addr : l \in { x \in F.ls : x.expect_proxy = "true" } }
  IN
  (IF \E l \in F.ls : l.proto \in BadProtos THEN {"listener-protocol"} ELSE {})
  \cup (IF \E c \in F.cs : c.proto = "bogus" THEN {"cluster-protocol"} ELSE {})
  \cup (IF \E l1, l2 \in F.ls : l1 # l2 /\ l1.addr = l2.addr THEN {"duplicate-listener-address"} ELSE {})
  \cup (IF \E l \in F.ls : IsOn(l.public) /\ l.expect_proxy = "true" THEN {"public-address-with-expect-proxy"} ELSE {})
  \cup (IF \E l \in F.ls : l.proto = "http" /\ IsOn(l.hsts) THEN {"hsts-on-http-listener"} ELSE {})
  \cup (IF \E l \in F.ls : l.proto = "https" /\ l.hsts = "noenabled" THEN {"hsts-without-enabled"} ELSE {})
  \cup (IF \E l \in F.ls : l.proto = "https" /\ l.alpn = "bogus" THEN {"alpn-value"} ELSE {})
  \cup (IF F.g.buffer_size = "small" /\ \E a \in httpsListeners : HasH2(a) THEN {"h2-buffer-size"} ELSE {})
  \cup (IF \E cf \in fs : cf.c.proto = "tcp" /\ (cf.f.host # "none" \/ IsOn(cf.f.path) \/ IsOn(cf.f.cert))
        THEN {"http-field-on-tcp-frontend"} ELSE {})
  \cup (IF \E cf \in fs : cf.c.proto = "http" /\ cf.f.host = "none" THEN {"http-frontend-without-hostname"} ELSE {})
  \* the loader only accepts [hsts] on a frontend that carries its own certificate and key
  \cup (IF \E cf \in fs : cf.c.proto = "http" /\ IsOn(cf.f.hsts) /\ ~IsOn(cf.f.cert) THEN {"hsts-on-plain-frontend"} ELSE {})
  \cup (IF \E cf \in fs : FrontKindMismatch(F, cf) THEN {"frontend-listener-kind"} ELSE {})
  \cup (IF \E x, y \in undeclared : x.f.addr = y.f.addr /\ ImpliedKind(x.c, x.f) # ImpliedKind(y.c, y.f)
        THEN {"frontend-listener-kind"} ELSE {})
  \cup (IF \E c \in F.cs : c.proto = "tcp" /\ \E f1, f2 \in c.fronts : f1.addr \in expectAddrs /\ f2.addr \notin expectAddrs
        THEN {"mixed-expect-proxy"} ELSE {})
  \* two frontends of HTTP clusters with one routing key cannot both be configured
  \cup (IF \E x, y \in fs : x # y /\ x.c.proto = "http" /\ y.c.proto = "http" /\ RouteKey(x.f) = RouteKey(y.f)
        THEN {"duplicate-frontend"} ELSE {})

Valid(F) == Violations(F) = {}

---------------------------------------------------------------------------
(* DOCUMENT reading 2: the declared configuration (for valid files).       *)

KindAt(F, cf) ==   \* kind of the listener that serves frontend cf
  IF cf.f.addr \in DeclaredAddrs(F) THEN (CHOOSE l \in ListenersAt(F, cf.f.addr) : TRUE).proto
  ELSE ImpliedKind(cf.c, cf.f)

ListenerRecord(F, kind, addr, expect, public, ft, alpn, cert, hsts) ==
  [kind |-> kind, addr |-> addr, active |-> F.g.activate # "false",
   expect_proxy |-> expect, public |-> public, front_timeout |-> ListenerFrontTimeout(F, kind, ft),
   alpn |-> alpn, cert |-> cert, hsts |-> hsts]

DeclaredListeners(F) ==
  { ListenerRecord(F, l.proto, l.addr,
                   l.proto # "udp" /\ l.expect_proxy = "true", IsOn(l.public), l.front_timeout,
                   IF l.proto = "https" THEN AlpnOf(l) ELSE <<>>,
                   IF l.proto = "https" THEN l.cert ELSE "absent",
                   IF l.proto = "https" /\ l.hsts = "on" THEN "on" ELSE "none") : l \in F.ls }
  \cup
  { ListenerRecord(F, ImpliedKind(cf.c, cf.f), cf.f.addr, FALSE, FALSE, "absent",
                   IF ImpliedKind(cf.c, cf.f) = "https" THEN AlpnOf(L0("A1", "https")) ELSE <<>>,
                   "absent", "none")
      : cf \in { x \in FrontsOf(F) : x.f.addr \notin DeclaredAddrs(F) } }

DeclaredClusters(F) ==
  { [id |-> c.id,
     proxy |-> IF c.proto = "tcp"
               THEN ProxyMode(IsOn(c.send_proxy),
                              \E f \in c.fronts : \E l \in ListenersAt(F, f.addr) : l.expect_proxy = "true")
               ELSE "none",                                     \* doc: send_proxy is ignored on HTTP clusters
     lb |-> IF IsOn(c.lb) THEN c.lb ELSE "ROUND_ROBIN",
     https_redirect |-> c.proto = "http" /\ IsOn(c.https_redirect)] : c \in F.cs }

HttpFrontRecord(cf) ==
  [cluster |-> cf.c.id, addr |-> cf.f.addr, host |-> cf.f.host, pkind |-> PathKind(cf.f), path |-> PathValue(cf.f),
   method |-> cf.f.method,
   position |-> IF IsOn(cf.f.position) THEN cf.f.position ELSE "TREE",      \* documented default: the tree
   tags |-> cf.f.tags,
   hsts |-> IF IsOn(cf.f.hsts) THEN "on" ELSE "none"]

DeclaredFronts(F, cproto, kinds) ==
  { cf \in FrontsOf(F) : cf.c.proto = cproto /\ KindAt(F, cf) \in kinds }

DeclaredCerts(F) ==
  { [addr |-> cf.f.addr,
     cert |-> IF IsOn(cf.f.cert) THEN cf.f.cert ELSE (CHOOSE l \in ListenersAt(F, cf.f.addr) : TRUE).cert]
      : cf \in DeclaredFronts(F, "http", {"https"}) }

BackRecord(c, b) == [cluster |-> c.id, addr |-> b.addr,
                     weight |-> IF IsOn(b.weight) THEN 50 ELSE 100,
                     backup |-> IsOn(b.backup),
                     idkind |-> IF IsOn(b.bid) THEN "x" ELSE "auto"]   \* explicit backend_id or generated one
\* a bag, kept as a sequence: two identical `{ address = ... }` lines are two backends
DeclaredBackends(F) ==
  LET cs == SetToSeq(F.cs)
  IN FlattenSeq([i \in 1..Len(cs) |-> [j \in 1..Len(cs[i].backs) |-> BackRecord(cs[i], cs[i].backs[j])]])

Declared(F) ==
  [listeners   |-> DeclaredListeners(F),
   clusters    |-> DeclaredClusters(F),
   http_fronts |-> { HttpFrontRecord(cf) : cf \in DeclaredFronts(F, "http", {"http"}) },
   https_fronts |-> { HttpFrontRecord(cf) : cf \in DeclaredFronts(F, "http", {"https"}) },
   tcp_fronts  |-> { [cluster |-> cf.c.id, addr |-> cf.f.addr] : cf \in DeclaredFronts(F, "tcp", {"tcp"}) },
   udp_fronts  |-> { [cluster |-> cf.c.id, addr |-> cf.f.addr] : cf \in DeclaredFronts(F, "tcp", {"udp"}) },
   backends    |-> DeclaredBackends(F),
   certs       |-> DeclaredCerts(F)]

BagOf(s) == [x \in ToSet(s) |-> Cardinality({i \in 1..Len(s) : s[i] = x})]
SameConfig(a, b) ==
  /\ a.listeners = b.listeners /\ a.clusters = b.clusters
  /\ a.http_fronts = b.http_fronts /\ a.https_fronts = b.https_fronts
  /\ a.tcp_fronts = b.tcp_fronts /\ a.udp_fronts = b.udp_fronts
  /\ BagOf(a.backends) = BagOf(b.backends) /\ a.certs = b.certs

---------------------------------------------------------------------------
(* CODE reading.  An order `o` = [cs |-> sequence of clusters, fs |-> *)
(* function cluster id -> sequence of its frontends].                      *)

Orders(F) ==
  { [cs |-> co, fs |-> fo] :
      co \in SetToSeqs(F.cs),
      fo \in { g \in [ { c.id : c \in F.cs } -> UNION { SetToSeqs(c.fronts) : c \in F.cs } ] :
                 \A c \in F.cs : g[c.id] \in SetToSeqs(c.fronts) } }

\* FileConfig::load_from_path (toml/serde + duplicate listener addresses)
ParseError(F) ==
  \/ \E l \in F.ls : l.proto = "bogus"
  \/ \E c \in F.cs : c.proto = "bogus"
  \/ \E l1, l2 \in F.ls : l1 # l2 /\ l1.addr = l2.addr

\* ConfigBuilder::populate_listeners -> ListenerBuilder::to_http / to_tls / to_tcp / to_udp
ListenerError(l) ==
  \/ l.proto = "absent"                                              \* Missing(Protocol)
  \/ IsOn(l.public) /\ l.expect_proxy = "true"                       \* Incompatible(PublicAddress)
  \/ l.proto = "http" /\ IsOn(l.hsts)                                \* HstsOnPlainHttp
  \/ l.proto = "https" /\ (l.alpn = "bogus" \/ l.hsts = "noenabled") \* InvalidAlpnProtocol / HstsEnabledRequired

\* FileClusterConfig::to_cluster_config -> to_tcp_front / to_http_front
ClusterError(F, c) ==
  LET expectAddrs == { l.addr : l \in { x \in F.ls : x.expect_proxy = "true" } }
  IN IF c.proto = "tcp"
     THEN \/ \E f1, f2 \in c.fronts : f1.addr \in expectAddrs /\ f2.addr \notin expectAddrs
          \/ \E f \in c.fronts : f.host # "none" \/ IsOn(f.path) \/ IsOn(f.cert)
     ELSE \/ \E f \in c.fronts : f.host = "none"                     \* Missing(Field("hostname"))
          \/ \E f \in c.fronts : IsOn(f.hsts) /\ ~IsOn(f.cert)       \* HstsOnPlainHttp (checked before any listener is known)

\* ConfigBuilder::populate_clusters: the address -> protocol table, extended with default listeners
KnownInit(F) == [err |-> FALSE,
                 kind |-> [a \in Addrs |-> IF a \in DeclaredAddrs(F) THEN (CHOOSE l \in ListenersAt(F, a) : TRUE).proto ELSE "none"],
                 implicit |-> <<>>]

PairFront(F, st, c, f) ==
  IF st.err THEN st
  ELSE LET k == st.kind[f.addr]
           fail == [st EXCEPT !.err = TRUE]
           create(nk) == [st EXCEPT !.kind[f.addr] = nk, !.implicit = Append(@, [kind |-> nk, addr |-> f.addr])]
       IN IF c.proto = "http"
          THEN CASE k \in {"tcp", "udp"} -> fail
                 [] k = "http"  -> IF IsOn(f.cert) THEN fail ELSE st
                 [] k = "https" -> IF ~IsOn(f.cert) /\ ~(\E l \in ListenersAt(F, f.addr) : IsOn(l.cert)) THEN fail ELSE st
                 [] OTHER       -> create(IF IsOn(f.cert) THEN "https" ELSE "http")
          ELSE CASE k \in {"http", "https"} -> fail
                 [] k \in {"tcp", "udp"}    -> st
                 [] OTHER                   -> create("tcp")

Pairing(F, o) ==
  FoldLeft(LAMBDA st, c : FoldLeft(LAMBDA st2, f : PairFront(F, st2, c, f), st, o.fs[c.id]),
           KnownInit(F), o.cs)

\* the frontends the corrected loader would refuse (deviation DupFrontendAccepted: the real one does not look)
DuplicateCheckFails(F, D) ==
  /\ "DupFrontendAccepted" \notin D
  /\ \E x, y \in FrontsOf(F) : x # y /\ x.c.proto = "http" /\ y.c.proto = "http" /\ RouteKey(x.f) = RouteKey(y.f)

\* the built Config: listeners per kind in push order
ConfigListeners(F, st) ==
  LET declared(kind) == SetToSeq({ l \in F.ls : l.proto = kind })
      implicit(kind) == SelectSeq(st.implicit, LAMBDA x : x.kind = kind)
      of(kind) == [i \in 1..Len(declared(kind)) |->
                     LET l == declared(kind)[i] IN
                     ListenerRecord(F, kind, l.addr, kind # "udp" /\ l.expect_proxy = "true", IsOn(l.public), l.front_timeout,
                                    IF kind = "https" THEN AlpnOf(l) ELSE <<>>,
                                    IF kind = "https" THEN l.cert ELSE "absent",
                                    IF kind = "https" /\ l.hsts = "on" THEN "on" ELSE "none")]
                  \o [i \in 1..Len(implicit(kind)) |->
                     ListenerRecord(F, kind, implicit(kind)[i].addr, FALSE, FALSE, "absent",
                                    IF kind = "https" THEN <<"h2", "http/1.1">> ELSE <<>>, "absent", "none")]
  IN of("http") \o of("https") \o of("tcp") \o of("udp")

LoadError(F, o, D) ==
  \/ ParseError(F)
  \/ \E l \in F.ls : ListenerError(l)
  \/ \E c \in F.cs : ClusterError(F, c)
  \/ Pairing(F, o).err
  \/ DuplicateCheckFails(F, D)
  \/ F.g.buffer_size = "small" /\ LET ls == ConfigListeners(F, Pairing(F, o))
                                  IN \E i \in 1..Len(ls) : ls[i].kind = "https" /\ HasH2(ls[i].alpn)

\* Config::generate_config_messages
ClusterMessages(F, st, c, fseq) ==
  LET frontMsgs(f) ==
        IF c.proto = "tcp"
        THEN << [t |-> IF st.kind[f.addr] = "udp" THEN "AddUdpFrontend" ELSE "AddTcpFrontend", cluster |-> c.id, addr |-> f.addr] >>
        ELSE IF st.kind[f.addr] = "https"     \* key and certificate present, own or inherited from the listener
             THEN << [t |-> "AddCertificate", addr |-> f.addr,
                      cert |-> IF IsOn(f.cert) THEN f.cert ELSE (CHOOSE l \in ListenersAt(F, f.addr) : TRUE).cert],
                     [t |-> "AddHttpsFrontend", front |-> HttpFrontRecord([c |-> c, f |-> f])] >>
             ELSE << [t |-> "AddHttpFrontend", front |-> HttpFrontRecord([c |-> c, f |-> f])] >>
      expectAddrs == { l.addr : l \in { x \in F.ls : x.expect_proxy = "true" } }
  IN << [t |-> "AddCluster",
         cluster |-> [id |-> c.id,
                      proxy |-> IF c.proto = "tcp"
                                THEN ProxyMode(IsOn(c.send_proxy), \E f \in c.fronts : f.addr \in expectAddrs)
                                ELSE "none",
                      lb |-> IF IsOn(c.lb) THEN c.lb ELSE "ROUND_ROBIN",
                      https_redirect |-> c.proto = "http" /\ IsOn(c.https_redirect)]] >>
     \o FlattenSeq([i \in 1..Len(fseq) |-> frontMsgs(fseq[i])])
     \o [i \in 1..Len(c.backs) |-> [t |-> "AddBackend", back |-> BackRecord(c, c.backs[i]), idx |-> i]]

Messages(F, o) ==
  LET st == Pairing(F, o)
      ls == ConfigListeners(F, st)
  IN [i \in 1..Len(ls) |-> [t |-> "AddListener", listener |-> [ls[i] EXCEPT !.active = FALSE]]]
     \o FlattenSeq([i \in 1..Len(o.cs) |-> ClusterMessages(F, st, o.cs[i], o.fs[o.cs[i].id])])
     \o (IF F.g.activate = "false" THEN <<>>
         ELSE [i \in 1..Len(ls) |-> [t |-> "ActivateListener", kind |-> ls[i].kind, addr |-> ls[i].addr]])
     \o (IF IsOn(F.g.metrics_off) THEN << [t |-> "ConfigureMetrics"] >> ELSE <<>>)

\* ConfigState::dispatch on the message kinds above; `rej` counts rejected messages
EmptyState == [listeners |-> {}, clusters |-> {}, http_fronts |-> {}, https_fronts |-> {}, tcp_fronts |-> {},
               udp_fronts |-> {}, backends |-> <<>>, backids |-> {}, certs |-> {}, rej |-> 0]
Reject(s) == [s EXCEPT !.rej = @ + 1]
FrontKey(r) == <<r.addr, r.host, r.pkind, r.path, r.method>>
\* the key ConfigState files a frontend under (Display of RequestHttpFrontend); self-test slip: a key that forgets
\* an identity field.  (The converse slip - a key that takes in a non-identity field such as `position` - is not
\* observable by P_C20 in the corrected model, which refuses files with two frontends of one routing key at load
\* time; the conformance leg sees it through the exact code outcomes of DupFrontendAccepted on the decoy files.)
StateFrontKey(r) ==
  IF "FrontKeyDropsMethod" \in Deviations THEN <<r.addr, r.host, r.pkind, r.path>> ELSE FrontKey(r)

Dispatch(s, m) ==
  CASE m.t = "AddListener" ->
         IF \E l \in s.listeners : l.kind = m.listener.kind /\ l.addr = m.listener.addr THEN Reject(s)
         ELSE [s EXCEPT !.listeners = @ \cup {m.listener}]
    [] m.t = "ActivateListener" ->
         IF \E l \in s.listeners : l.kind = m.kind /\ l.addr = m.addr
         THEN [s EXCEPT !.listeners = { IF l.kind = m.kind /\ l.addr = m.addr THEN [l EXCEPT !.active = TRUE] ELSE l : l \in @ }]
         ELSE Reject(s)
    [] m.t = "AddCluster" ->     \* upsert
         [s EXCEPT !.clusters = { c \in @ : c.id # m.cluster.id } \cup {m.cluster}]
    [] m.t = "AddHttpFrontend" ->
         IF \E r \in s.http_fronts : StateFrontKey(r) = StateFrontKey(m.front) THEN Reject(s)
         ELSE [s EXCEPT !.http_fronts = @ \cup {m.front}]
    [] m.t = "AddHttpsFrontend" ->
         IF \E r \in s.https_fronts : StateFrontKey(r) = StateFrontKey(m.front) THEN Reject(s)
         ELSE [s EXCEPT !.https_fronts = @ \cup {m.front}]
    [] m.t = "AddCertificate" ->  \* a known fingerprint is skipped with Ok
         IF "CertKeyDropsAddress" \in Deviations /\ \E x \in s.certs : x.cert = m.cert THEN s
         ELSE [s EXCEPT !.certs = @ \cup {[addr |-> m.addr, cert |-> m.cert]}]
    [] m.t = "AddTcpFrontend" ->
         IF [cluster |-> m.cluster, addr |-> m.addr] \in s.tcp_fronts THEN Reject(s)
         ELSE [s EXCEPT !.tcp_fronts = @ \cup {[cluster |-> m.cluster, addr |-> m.addr]}]
    [] m.t = "AddUdpFrontend" ->
         IF [cluster |-> m.cluster, addr |-> m.addr] \in s.udp_fronts THEN Reject(s)
         ELSE [s EXCEPT !.udp_fronts = @ \cup {[cluster |-> m.cluster, addr |-> m.addr]}]
    [] m.t = "AddBackend" ->      \* upsert on (cluster, backend_id, address); default ids embed the index
         LET bid == <<m.back.cluster, IF m.back.idkind = "x" THEN 0 ELSE m.idx, m.back.idkind,
                      IF "BackendKeyDropsAddress" \in Deviations THEN "any" ELSE m.back.addr>>
         IN IF bid \in s.backids THEN s
            ELSE [s EXCEPT !.backends = Append(@, m.back), !.backids = @ \cup {bid}]
    [] OTHER -> s                 \* ConfigureMetrics: accepted, no state

Apply(s, msgs) == FoldLeft(Dispatch, s, msgs)

\* D: the deviations of the loader (the slips of ConfigState are read from the constant)
RunD(F, o, D) ==
  IF LoadError(F, o, D) THEN [loaded |-> FALSE]
  ELSE LET msgs == Messages(F, o)
           s1 == Apply(EmptyState, msgs)
           s2 == Apply([s1 EXCEPT !.rej = 0], msgs)
       IN [loaded |-> TRUE, nmsg |-> Len(msgs), rejected |-> s1.rej, state |-> s1,
           reload_rejected |-> s2.rej, reload_state |-> s2,
           \* the only rejections a reload may produce: listeners and frontends that already exist
           reload_expected |-> Cardinality({ i \in 1..Len(msgs) :
                                 msgs[i].t \in {"AddListener", "AddHttpFrontend", "AddHttpsFrontend", "AddTcpFrontend", "AddUdpFrontend"} })]

Run(F, o) == RunD(F, o, Deviations)

---------------------------------------------------------------------------
(* Properties (C20) *)

TypeOK ==
  /\ Cardinality(lsn) <= MaxListeners /\ Cardinality(cls) <= MaxClusters
  /\ \A c \in cls : Cardinality(c.fronts) <= MaxFronts /\ Len(c.backs) <= MaxBacks
  /\ \A c1, c2 \in cls : c1.id = c2.id => c1 = c2

\* (a) the loader accepts exactly the valid files, whatever order it visits clusters and frontends in
P_C20_RejectsExactlyInvalid == \A o \in Orders(File) : Run(File, o).loaded = Valid(File)

\* (b) an accepted file yields messages a fresh state accepts in full, and the result is what the file declares
P_C20_DeclaredIsLoaded ==
  \A o \in Orders(File) : LET r == Run(File, o) IN
     r.loaded => /\ r.rejected = 0
                 /\ SameConfig(r.state, Declared(File))

\* (c) loading the same file again over the state it produced changes nothing
P_C20_ReloadIdempotent ==
  \A o \in Orders(File) : LET r == Run(File, o) IN
     r.loaded => /\ SameConfig(r.reload_state, r.state)
                 /\ r.reload_rejected = r.reload_expected

\* (d) what is declared is a set of distinct objects: nothing duplicated
P_C20_NothingDuplicated ==
  Valid(File) => LET d == Declared(File) IN
     /\ \A x, y \in d.listeners : x.addr = y.addr => x = y
     /\ \A x, y \in d.http_fronts \cup d.https_fronts : FrontKey(x) = FrontKey(y) => x = y
     /\ Cardinality(d.http_fronts) + Cardinality(d.https_fronts) + Cardinality(d.tcp_fronts) + Cardinality(d.udp_fronts)
          = Cardinality(FrontsOf(File))
     /\ Len(d.backends) = FoldSet(LAMBDA c, acc : acc + Len(c.backs), 0, File.cs)

\* (e) the declared configuration of a file is the union of what each cluster declares given the listeners:
\*     this is what lets the replayer scale a file by replicating clusters (the SIZE axis TLC cannot enumerate)
Only(F, c) == [F EXCEPT !.cs = {c}]
P_C20_Compositional ==
  Valid(File) =>
     LET d == Declared(File) IN
     /\ d.clusters = UNION { Declared(Only(File, c)).clusters : c \in File.cs }
     /\ d.http_fronts = UNION { Declared(Only(File, c)).http_fronts : c \in File.cs }
     /\ d.https_fronts = UNION { Declared(Only(File, c)).https_fronts : c \in File.cs }
     /\ d.tcp_fronts = UNION { Declared(Only(File, c)).tcp_fronts : c \in File.cs }
     /\ d.udp_fronts = UNION { Declared(Only(File, c)).udp_fronts : c \in File.cs }
     /\ d.certs = UNION { Declared(Only(File, c)).certs : c \in File.cs }
     /\ d.listeners = { l \in d.listeners : l.addr \in DeclaredAddrs(File) }
                      \cup UNION { { l \in Declared(Only(File, c)).listeners : l.addr \notin DeclaredAddrs(File) } : c \in File.cs }

P_C20 == /\ P_C20_RejectsExactlyInvalid /\ P_C20_DeclaredIsLoaded /\ P_C20_ReloadIdempotent
         /\ P_C20_NothingDuplicated /\ P_C20_Compositional

---------------------------------------------------------------------------
(* Identity pairs (vacuity guard of the generator).  For every kind of     *)
(* declared object and every field of its identity, P_C20_DeclaredIsLoaded *)
(* and P_C20_NothingDuplicated only say something about that field on a    *)
(* file that declares two objects of the kind which agree on everything    *)
(* else and differ in THAT field (a state key that forgets the field       *)
(* merges them: one is silently dropped).  IdentityPairs(F) names the      *)
(* <<kind, field>> pairs a VALID file witnesses; the check requires every  *)
(* pair of IdentityPairsRequired among the generated files.  DecoyPairs(F) *)
(* names the non-identity fields in which two frontends with ONE routing   *)
(* key differ (a state key that takes such a field in keeps both).         *)

Differing(x, y, fields) == { k \in fields : x[k] # y[k] }
HttpFrontFields == {"cluster", "addr", "host", "pkind", "path", "method", "position", "tags", "hsts"}
ListenerFields == {"kind", "addr", "active", "expect_proxy", "public", "front_timeout", "alpn", "cert", "hsts"}

IdentityPairs(F) ==
  LET d == Declared(F)
      pairsOf(kind, recs, all, idf) ==
        { <<kind, k>> : k \in { kk \in idf : \E x, y \in recs : Differing(x, y, all) = {kk} } }
      nb == Len(d.backends)
  IN pairsOf("http_front", d.http_fronts, HttpFrontFields, {"addr", "host", "pkind", "path", "method"})
     \cup pairsOf("https_front", d.https_fronts, HttpFrontFields, {"addr", "host", "pkind", "path", "method"})
     \cup pairsOf("tcp_front", d.tcp_fronts, {"cluster", "addr"}, {"cluster", "addr"})
     \cup pairsOf("udp_front", d.udp_fronts, {"cluster", "addr"}, {"cluster", "addr"})
     \cup pairsOf("listener", d.listeners, ListenerFields, {"addr"})
     \cup pairsOf("cert", d.certs, {"addr", "cert"}, {"addr", "cert"})
     \* backends: same cluster; "addr" = one explicit backend_id on two addresses, "id" = one address twice
     \cup (IF \E i, j \in 1..nb : /\ d.backends[i].idkind = "x"
                                   /\ Differing(d.backends[i], d.backends[j], {"cluster", "addr", "weight", "backup", "idkind"}) = {"addr"}
           THEN {<<"backend", "addr">>} ELSE {})
     \cup (IF \E i, j \in 1..nb : i # j /\ d.backends[i].cluster = d.backends[j].cluster /\ d.backends[i].addr = d.backends[j].addr
                                   /\ d.backends[i].weight = d.backends[j].weight /\ d.backends[i].backup = d.backends[j].backup
           THEN {<<"backend", "id">>} ELSE {})

IdentityPairsRequired ==
  { <<k, f>> : k \in {"http_front", "https_front"}, f \in {"addr", "host", "pkind", "path", "method"} }
  \cup { <<"tcp_front", "cluster">>, <<"tcp_front", "addr">>, <<"udp_front", "cluster">>, <<"udp_front", "addr">>,
         <<"listener", "addr">>, <<"cert", "addr">>, <<"cert", "cert">>, <<"backend", "addr">>, <<"backend", "id">> }

DecoyPairs(F) ==
  { <<"front", k>> : k \in { kk \in {"position", "tags"} :
       \E x, y \in FrontsOf(F) : /\ x.c.proto = "http" /\ y.c.proto = "http" /\ RouteKey(x.f) = RouteKey(y.f)
                                  /\ x.f[kk] # y.f[kk] /\ \A o \in {"position", "tags"} \ {kk} : x.f[o] = y.f[o] } }

---------------------------------------------------------------------------
(* Generator: one line per file with the DOCUMENT reading, plus (for the   *)
(* open deviations) the outcomes the CODE reading allows.                  *)

Outcome(F, o) ==
  LET r == RunD(F, o, Deviations \cup EmitDeviations) IN
  IF r.loaded THEN [loaded |-> TRUE, nmsg |-> r.nmsg, rejected |-> r.rejected, reload_rejected |-> r.reload_rejected,
                    state |-> [listeners |-> r.state.listeners, clusters |-> r.state.clusters,
                               http_fronts |-> r.state.http_fronts, https_fronts |-> r.state.https_fronts,
                               tcp_fronts |-> r.state.tcp_fronts, udp_fronts |-> r.state.udp_fronts,
                               backends |-> r.state.backends, certs |-> r.state.certs]]
  ELSE [loaded |-> FALSE]

EmitFile ==
  Emit => LET F == File
              v == Violations(F)
              o1 == CHOOSE o \in Orders(F) : TRUE
          IN PrintT(<<"REPLAY",
               ToJson([file |-> [g |-> F.g, ls |-> F.ls,
                                 cs |-> { [id |-> c.id, proto |-> c.proto, lb |-> c.lb, https_redirect |-> c.https_redirect,
                                           send_proxy |-> c.send_proxy, fronts |-> c.fronts, backs |-> c.backs] : c \in F.cs }],
                       size |-> FileSize(F.g, F.ls, F.cs),
                       valid |-> v = {},
                       violations |-> v,
                       pairs |-> IF v = {} THEN IdentityPairs(F) ELSE {},
                       decoys |-> DecoyPairs(F),
                       declared |-> IF v = {} THEN Declared(F) ELSE [none |-> TRUE],
                       nmsg |-> IF v = {} THEN Run(F, o1).nmsg ELSE 0,
                       reload_rejected |-> IF v = {} THEN Run(F, o1).reload_expected ELSE 0,
                       \* only when a deviation explains a difference from the document reading
                       code |-> IF Deviations \cup EmitDeviations # {}
                                   /\ \E o \in Orders(F) : RunD(F, o, Deviations \cup EmitDeviations).loaded # (v = {})
                                THEN { Outcome(F, o) : o \in Orders(F) } ELSE {}])>>)
=============================================================================
