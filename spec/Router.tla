------------------------------- MODULE Router -------------------------------
(***************************************************************************)
(* Frontend routing of sozu (lib/src/router/mod.rs, pattern_trie.rs).      *)
(*                                                                         *)
(* State: the three rule containers of `Router`: `pre` and `post` are      *)
(* ordered lists (documented as ordered), `tree` is a SET - the documented *)
(* contract is that tree lookups never depend on insertion order.          *)
(* Actions: AddFront / RemoveFront with the identity the code uses         *)
(* (position, host pattern, path pattern, method).                         *)
(*                                                                         *)
(* Strings are sequences (TLC strings are atomic): a host is a sequence of *)
(* labels, a path a sequence of characters.                                *)
(***************************************************************************)
EXTENDS Naturals, Sequences, FiniteSets, SequencesExt, FiniteSetsExt, TLC, Json

CONSTANTS MaxFronts,       \* bound on |pre| + |tree| + |post|
          Deviations,      \* subset of {"HostShadow"}: open known findings modelled as the code behaves
          Emit             \* TRUE: print one REPLAY line per distinct state (generator configs)

VARIABLES pre, tree, post

vars == <<pre, tree, post>>

---------------------------------------------------------------------------
(* Universe *)

ReqHosts == { <<"a","com">>, <<"x","a","com">>, <<"y","a","com">>,
              <<"z","x","a","com">>, <<"b","com">> }
ReqPaths == { <<"/">>, <<"/","a">>, <<"/","a","/","b">>, <<"/","a","b">> }
ReqMethods == {"GET", "POST"}
Requests == [host : ReqHosts, path : ReqPaths, method : ReqMethods]

\* label regex R1 = "[xy]"; path regex P1 = "^/a.*$"
LabelRegex == [R1 |-> {"x", "y"}]
PathRegex  == [P1 |-> { <<"/","a">>, <<"/","a","/","b">>, <<"/","a","b">> }]

TreeHostPats == { [kind |-> "exact", labels |-> <<"x","a","com">>],
                  [kind |-> "exact", labels |-> <<"a","com">>],
                  [kind |-> "wild",  labels |-> <<"a","com">>],
                  [kind |-> "regex", labels |-> <<"a","com">>] }
ListHostPats == { [kind |-> "any",   labels |-> <<>>],
                  [kind |-> "exact", labels |-> <<"x","a","com">>],
                  [kind |-> "wild",  labels |-> <<"a","com">>] }

TreePathPats == { [kind |-> "prefix", p |-> <<"/">>],
                  [kind |-> "prefix", p |-> <<"/","a">>],
                  [kind |-> "prefix", p |-> <<"/","a","/","b">>],
                  [kind |-> "equals", p |-> <<"/","a">>],
                  [kind |-> "equals", p |-> <<"/","a","/","b">>],
                  [kind |-> "regex",  p |-> <<>>] }
ListPathPats == { [kind |-> "prefix", p |-> <<"/">>],
                  [kind |-> "prefix", p |-> <<"/","a">>],
                  [kind |-> "equals", p |-> <<"/","a">>] }
RuleMethods == {"any", "GET"}

\* `alt` distinguishes two frontends with the same identity but different routes
TreeFronts == [pos : {"tree"}, host : TreeHostPats, path : TreePathPats, method : RuleMethods, alt : {0}]
ListFronts == [pos : {"pre", "post"}, host : ListHostPats, path : ListPathPats, method : RuleMethods, alt : {0}]
Fronts == TreeFronts \cup ListFronts

NotFound == [pos |-> "none"]

---------------------------------------------------------------------------
(* Matching *)

HostMatches(hp, h) ==
  CASE hp.kind = "any"   -> TRUE
    [] hp.kind = "exact" -> h = hp.labels
    [] hp.kind = "wild"  -> Len(h) = Len(hp.labels) + 1 /\ Tail(h) = hp.labels
    [] hp.kind = "regex" -> Len(h) = Len(hp.labels) + 1 /\ Tail(h) = hp.labels
                            /\ Head(h) \in LabelRegex.R1

PathMatches(pp, p) ==
  CASE pp.kind = "prefix" -> IsPrefix(pp.p, p)
    [] pp.kind = "equals" -> pp.p = p
    [] pp.kind = "regex"  -> p \in PathRegex.P1

MethodMatches(m, rm) == m = "any" \/ m = rm

Matches(f, r) == HostMatches(f.host, r.host) /\ PathMatches(f.path, r.path) /\ MethodMatches(f.method, r.method)

SameIdentity(f, g) == f.pos = g.pos /\ f.host = g.host /\ f.path = g.path /\ f.method = g.method

HostRank(f) == CASE f.host.kind = "exact" -> 3 [] f.host.kind = "wild" -> 2 [] f.host.kind = "regex" -> 1 [] OTHER -> 0

\* path specificity as a pair <<kind rank, prefix length>>
PathKindRank(f) == CASE f.path.kind = "equals" -> 3 [] f.path.kind = "regex" -> 2 [] OTHER -> 1
PathLen(f) == IF f.path.kind = "prefix" THEN Len(f.path.p) ELSE 0
PathBetter(f, g) == PathKindRank(f) > PathKindRank(g)
                    \/ (PathKindRank(f) = PathKindRank(g) /\ PathLen(f) > PathLen(g))
PathEq(f, g) == PathKindRank(f) = PathKindRank(g) /\ PathLen(f) = PathLen(g)
MethodRank(f) == IF f.method = "any" THEN 0 ELSE 1

\* f dominates g: at least as specific on both documented criteria, strictly on one
Dominates(f, g) == /\ (PathBetter(f, g) \/ PathEq(f, g))
                   /\ MethodRank(f) >= MethodRank(g)
                   /\ (PathBetter(f, g) \/ MethodRank(f) > MethodRank(g))

FirstMatch(seq, r) ==
  LET idx == {i \in 1..Len(seq) : Matches(seq[i], r)}
  IN IF idx = {} THEN NotFound ELSE seq[Min(idx)]

---------------------------------------------------------------------------
(* The documented lookup: a SET of admissible answers (the documentation   *)
(* fixes path-kind precedence and method precedence but not how the two    *)
(* combine, so every Pareto-maximal matching frontend is admissible).      *)

TreeAdmissible(t, r) ==
  LET cand == {f \in t : Matches(f, r)}
      top  == {f \in cand : \A g \in cand : HostRank(g) <= HostRank(f)}
  IN {f \in top : \A g \in top : ~Dominates(g, f)}

Admissible(p, t, q, r) ==
  IF FirstMatch(p, r) # NotFound THEN {FirstMatch(p, r)}
  ELSE IF TreeAdmissible(t, r) # {} THEN TreeAdmissible(t, r)
  ELSE {FirstMatch(q, r)}

(* The lookup as the implementation resolves the remaining freedom         *)
(* (lib/src/router/mod.rs::lookup): an EQUALS/REGEX path rule with a       *)
(* matching specific method wins outright, then EQUALS/REGEX with any      *)
(* method, then the longest PREFIX with method-specific before any-method. *)
CodeKey(f) ==
  IF f.path.kind \in {"equals", "regex"}
  THEN <<1, MethodRank(f), PathKindRank(f)>>
  ELSE <<0, Len(f.path.p), MethodRank(f)>>
KeyLess(a, b) == a[1] < b[1] \/ (a[1] = b[1] /\ (a[2] < b[2] \/ (a[2] = b[2] /\ a[3] < b[3])))

\* Which trie node serves the host. Property reading: the most specific host
\* class among MATCHING frontends. Code (deviation HostShadow): the most specific
\* host class that EXISTS for the host, whether or not any of its rules match.
NodeFronts(t, r) ==
  LET hostOK == {f \in t : HostMatches(f.host, r.host)}
      pool   == IF "HostShadow" \in Deviations THEN hostOK ELSE {f \in hostOK : Matches(f, r)}
      top    == {f \in pool : \A g \in pool : HostRank(g) <= HostRank(f)}
  IN {f \in top : Matches(f, r)}

CodeTree(t, r) ==
  LET n == NodeFronts(t, r)
  IN IF n = {} THEN NotFound
     ELSE CHOOSE f \in n : \A g \in n : g = f \/ KeyLess(CodeKey(g), CodeKey(f))

CodeLookup(p, t, q, r) ==
  IF FirstMatch(p, r) # NotFound THEN FirstMatch(p, r)
  ELSE IF CodeTree(t, r) # NotFound THEN CodeTree(t, r)
  ELSE FirstMatch(q, r)

---------------------------------------------------------------------------
(* Actions *)

Size == Len(pre) + Cardinality(tree) + Len(post)
Present(f) == \/ f.pos = "tree" /\ \E g \in tree : SameIdentity(f, g)
              \/ f.pos = "pre"  /\ \E i \in 1..Len(pre)  : SameIdentity(f, pre[i])
              \/ f.pos = "post" /\ \E i \in 1..Len(post) : SameIdentity(f, post[i])

AddFront(f) ==
  /\ Size < MaxFronts
  /\ ~Present(f)               \* a duplicate identity is rejected by the code: state unchanged
  /\ CASE f.pos = "tree" -> tree' = tree \cup {f} /\ UNCHANGED <<pre, post>>
       [] f.pos = "pre"  -> pre' = Append(pre, f) /\ UNCHANGED <<tree, post>>
       [] f.pos = "post" -> post' = Append(post, f) /\ UNCHANGED <<pre, tree>>

RemoveFront(f) ==
  /\ Present(f)
  /\ CASE f.pos = "tree" -> tree' = {g \in tree : ~SameIdentity(f, g)} /\ UNCHANGED <<pre, post>>
       [] f.pos = "pre"  -> pre' = SelectSeq(pre, LAMBDA g : ~SameIdentity(f, g)) /\ UNCHANGED <<tree, post>>
       [] f.pos = "post" -> post' = SelectSeq(post, LAMBDA g : ~SameIdentity(f, g)) /\ UNCHANGED <<pre, tree>>

Init == pre = <<>> /\ tree = {} /\ post = <<>>
Next == \E f \in Fronts : AddFront(f) \/ RemoveFront(f)
Spec == Init /\ [][Next]_vars

---------------------------------------------------------------------------
(* Properties (C04) *)

TypeOK == /\ tree \subseteq TreeFronts
          /\ \A i \in 1..Len(pre) : pre[i] \in ListFronts /\ pre[i].pos = "pre"
          /\ \A i \in 1..Len(post) : post[i] \in ListFronts /\ post[i].pos = "post"

\* (a) what the implementation computes is one of the documented answers
P_C04_CodeWithinDoc == \A r \in Requests : CodeLookup(pre, tree, post, r) \in Admissible(pre, tree, post, r)

\* (b) a frontend that is not configured never serves
P_C04_OnlyConfigured ==
  \A r \in Requests :
    LET a == CodeLookup(pre, tree, post, r)
    IN a = NotFound \/ a \in tree \/ (\E i \in 1..Len(pre) : pre[i] = a) \/ (\E i \in 1..Len(post) : post[i] = a)

\* (c) adding or removing a frontend that does not match a request never changes its route
P_C04_NonMatchingIrrelevant ==
  \A f \in TreeFronts : \A r \in Requests :
    (~Matches(f, r)) =>
      CodeLookup(pre, tree \cup {f}, post, r) = CodeLookup(pre, tree \ {f}, post, r)

\* (d) a removed frontend never serves afterwards (action property)
P_C04_RemovedNeverServes ==
  [][\A f \in Fronts : (Present(f) /\ ~Present(f)') =>
        \A r \in Requests : LET a == CodeLookup(pre', tree', post', r) IN a = NotFound \/ ~SameIdentity(a, f)]_vars

P_C04 == P_C04_CodeWithinDoc /\ P_C04_OnlyConfigured /\ P_C04_NonMatchingIrrelevant

---------------------------------------------------------------------------
(* Generator: one line per distinct state with the probe table.            *)

U == SetToSeq(Fronts)                         \* fixed enumeration of the universe
Idx(f) == IF f = NotFound THEN 0 ELSE CHOOSE i \in 1..Len(U) : U[i] = f
ReqSeq == SetToSeq(Requests)

Table == [i \in 1..Len(ReqSeq) |->
            [adm |-> {Idx(f) : f \in Admissible(pre, tree, post, ReqSeq[i])},
             code |-> Idx(CodeLookup(pre, tree, post, ReqSeq[i]))]]

EmitState ==
  Emit => PrintT(<<"REPLAY", ToJson([pre  |-> [i \in 1..Len(pre) |-> Idx(pre[i])],
                                      tree |-> {Idx(f) : f \in tree},
                                      post |-> [i \in 1..Len(post) |-> Idx(post[i])],
                                      table |-> Table])>>)

ASSUME IF Emit THEN PrintT(<<"REPLAY", ToJson([universe |-> U, requests |-> ReqSeq])>>) ELSE TRUE
=============================================================================
