//! C01 scripted HTTP/2 endpoint (client role over TLS towards sozu, server role = h2c backend).
#![allow(dead_code)]

use std::collections::{HashMap, VecDeque};
use std::sync::Arc;
use std::time::{Duration, Instant};

use serde_json::json;
use vh::h2::*;

use crate::kit::*;
use crate::peers::{CloseAction, Machine, Shared};

struct SendSt {
    plan: MsgPlan,
    rec: SendRec,
    code: Code,
    off: u64,
    rng: Rng,
    pace: Pace,
    done: bool,
    aborted: bool,
    /// response only: wait for the end of the request
    armed: bool,
}

struct St {
    idx: u32,
    sid: u32,
    run: u64,
    send: Option<SendSt>,
    recv: Option<RecvRec>,
    rplan: ReadPlan,
    send_window: i64,
    pending_grant: u64,
    grant_at: Option<Instant>,
    got_headers: bool,
    counted: bool,
    resp_headers_sent: bool,
    /// server role: the response was started before the end of the request; its last byte waits for that end
    early: bool,
}

pub struct H2Peer {
    sh: Arc<Shared>,
    server: bool,
    fb: FrameBuf,
    hp: Hpack,
    ctl: VecDeque<Seg>,
    streams: Vec<St>,
    by_sid: HashMap<u32, usize>,
    conn_send_window: i64,
    peer_initial_window: i64,
    peer_max_frame: usize,
    my_initial_window: u32,
    my_conn_window: u32,
    conn_consumed: u64,
    need_preface: bool,
    rr: usize,
    dead: bool,
    closing: CloseAction,
    pub goaway: Option<(u32, u32)>,
    pub protocol_errors: Vec<String>,
    pub plan: Option<Arc<RunPlan>>,
    hdr_acc: Option<(u32, Vec<u8>, bool)>,
    pub foreign_answers: Vec<(u32, String)>,
    pub frames_in: u64,
    peer_settings_seen: bool,
    /// send a PING after every `ping_every` bytes of DATA moved in either direction (0 = never)
    pub ping_every: u64,
    ping_acc: u64,
    pub pings_sent: u64,
    pub ping_acks: u64,
    pending_open: Vec<usize>,
    cluster: String,
    w0: u32,
    /// full-duplex schedule: stop reading the socket for a while once enough DATA arrived (kit::Hold)
    pub hold: Option<Hold>,
    hold_until: Option<Instant>,
    hold_done: bool,
    data_in: u64,
    pub holds: u64,
}

impl H2Peer {
    /// client role: all streams of the plan are opened at once
    pub fn client(sh: Arc<Shared>, plan: Arc<RunPlan>, cluster: &str, conn_window: u32) -> H2Peer {
        let w0 = plan.streams.iter().map(|s| s.client_read.h2_window).min().unwrap_or(65535);
        let mut p = H2Peer::base(sh, false, w0, conn_window);
        let mut first = PREFACE.to_vec();
        first.extend_from_slice(&Frame::settings(&[(S_ENABLE_PUSH, 0), (S_INITIAL_WINDOW_SIZE, w0)]).encode());
        if conn_window > 65535 {
            first.extend_from_slice(&Frame::window_update(0, conn_window - 65535).encode());
        }
        p.ctl.push_back(Seg::meta(first));
        // streams of the second wave are opened once the first exchange is over: by then the backend
        // connection is established and sozu multiplexes them on it
        let wave1 = if plan.second_wave && plan.streams.len() >= 3 { 1 } else { plan.streams.len() };
        p.plan = Some(plan.clone());
        p.cluster = cluster.to_string();
        p.w0 = w0;
        p.hold = plan.client_hold.clone();
        if plan.ping_every > 0 {
            p.ping_every = plan.ping_every;
        }
        for i in 0..plan.streams.len() {
            if i < wave1 { p.open_stream(i) } else { p.pending_open.push(i) }
        }
        p
    }

    fn open_stream(&mut self, i: usize) {
        let plan = self.plan.clone().expect("client plan");
        let w0 = self.w0;
        let cluster = self.cluster.clone();
        let p = self;
        {
            let sp = &plan.streams[i];
            let sid = 1 + 2 * i as u32;
            let path = format!("/{}/r{}/s{}", cluster, plan.run, sp.idx);
            let method = if sp.req.size == 0 && !sp.req.h2_cl { "GET" } else { "POST" };
            let cl = sp.req.size.to_string();
            let mut extra: Vec<(&str, &str)> = Vec::new();
            if sp.req.h2_cl && method == "POST" {
                extra.push(("content-length", &cl));
            }
            let block = request_block(&mut p.hp, method, "https", "localhost", &path, &extra);
            let end_now = sp.req.size == 0 && !sp.req.h2_sep_end;
            p.ctl.push_back(Seg::meta(Frame::headers(sid, block, true, end_now).encode()));
            let key = MsgKey { run: plan.run, stream: sp.idx, dir: 0 };
            let mut rec = SendRec::new(key, p.sh.log.clone(), "Client");
            if end_now {
                rec.end("clean", "END_STREAM on HEADERS");
            }
            let st = St {
                idx: sp.idx, sid, run: plan.run,
                send: Some(SendSt { plan: sp.req.clone(), rec, code: Code::new(plan.seed, sp.idx, 0), off: 0, rng: Rng(mix(plan.seed ^ sid as u64)),
                                    pace: Pace::new(sp.req.wpause_every, sp.req.wpause_us), done: end_now, aborted: false, armed: true }),
                recv: Some(RecvRec::new(MsgKey { run: plan.run, stream: sp.idx, dir: 1 }, plan.seed, p.sh.log.clone(), "Client")),
                rplan: sp.client_read.clone(),
                send_window: p.peer_initial_window, pending_grant: 0, grant_at: None, got_headers: false, counted: false, resp_headers_sent: false, early: false,
            };
            p.by_sid.insert(sid, p.streams.len());
            p.streams.push(st);
            // streams whose own window is larger than the connection-wide initial value get the difference
            if sp.client_read.h2_window > w0 {
                p.ctl.push_back(Seg::meta(Frame::window_update(sid, sp.client_read.h2_window - w0).encode()));
            }
        }
    }
    /// server role (h2c backend): streams are created by the HEADERS sozu sends
    pub fn server(sh: Arc<Shared>, initial_window: u32, max_frame: u32, conn_window: u32) -> H2Peer {
        let mut p = H2Peer::base(sh, true, initial_window, conn_window);
        p.need_preface = true;
        let mut first = Frame::settings(&[(S_INITIAL_WINDOW_SIZE, initial_window), (S_MAX_FRAME_SIZE, max_frame)]).encode();
        if conn_window > 65535 {
            first.extend_from_slice(&Frame::window_update(0, conn_window - 65535).encode());
        }
        p.ctl.push_back(Seg::meta(first));
        p
    }
    fn base(sh: Arc<Shared>, server: bool, w0: u32, conn_window: u32) -> H2Peer {
        H2Peer { sh, server, fb: FrameBuf::default(), hp: Hpack::default(), ctl: VecDeque::new(), streams: Vec::new(), by_sid: HashMap::new(),
                 conn_send_window: 65535, peer_initial_window: 65535, peer_max_frame: 16384, my_initial_window: w0, my_conn_window: conn_window.max(65535),
                 conn_consumed: 0, need_preface: false, rr: 0, dead: false, closing: CloseAction::None, goaway: None, protocol_errors: Vec::new(), plan: None,
                 hdr_acc: None, foreign_answers: Vec::new(), frames_in: 0, peer_settings_seen: false, ping_every: 0, ping_acc: 0, pings_sent: 0, ping_acks: 0, pending_open: Vec::new(), cluster: String::new(), w0: 65535,
                 hold: None, hold_until: None, hold_done: false, data_in: 0, holds: 0 }
    }

    fn release(&mut self, i: usize) {
        if self.server && self.streams[i].counted {
            self.streams[i].counted = false;
            let r = self.streams[i].run;
            self.sh.activity(r, -1);
        }
    }

    fn stream_settled(&self, i: usize) -> bool {
        let s = &self.streams[i];
        s.recv.as_ref().map(|r| r.ended).unwrap_or(true) && s.send.as_ref().map(|x| x.done || x.aborted).unwrap_or(true)
    }

    fn on_headers(&mut self, sid: u32, block: &[u8], end_stream: bool) {
        let hs = match self.hp.decode(block) {
            Ok(h) => h,
            Err(e) => {
                self.protocol_errors.push(format!("hpack: {e}"));
                return;
            }
        };
        let get = |n: &str| hs.iter().find(|(k, _)| k == n.as_bytes()).map(|(_, v)| String::from_utf8_lossy(v).to_string());
        if self.server {
            if self.by_sid.contains_key(&sid) {
                // trailers: ignore content, honour END_STREAM
                if end_stream {
                    self.end_recv(sid, "clean", "END_STREAM on trailers");
                }
                return;
            }
            let path = get(":path").unwrap_or_default();
            let found = parse_path(&path).and_then(|(r, s)| self.sh.plan(r).map(|p| (p, r, s)));
            match found {
                Some((p, r, s)) if (s as usize) < p.streams.len() => {
                    let sp = &p.streams[s as usize];
                    self.sh.activity(r, 1);
                    let st = St {
                        idx: s, sid, run: r,
                        send: Some(SendSt { plan: sp.resp.clone(), rec: SendRec::new(MsgKey { run: r, stream: s, dir: 1 }, self.sh.log.clone(), "Backend"),
                                            code: Code::new(p.seed, s, 1), off: 0, rng: Rng(mix(p.seed ^ sid as u64 ^ 0x77)),
                                            pace: Pace::new(sp.resp.wpause_every, sp.resp.wpause_us), done: false, aborted: false, armed: sp.early_resp && !end_stream }),
                        recv: Some(RecvRec::new(MsgKey { run: r, stream: s, dir: 0 }, p.seed, self.sh.log.clone(), "Backend")),
                        rplan: sp.backend_read.clone(),
                        send_window: self.peer_initial_window, pending_grant: 0, grant_at: None, got_headers: true, counted: true, resp_headers_sent: false,
                        early: sp.early_resp && !end_stream,
                    };
                    if self.hold.is_none() && !self.hold_done {
                        self.hold = p.backend_hold.clone();
                    }
                    if p.ping_every > 0 {
                        self.ping_every = p.ping_every;
                    }
                    // the stream's own receive window may differ from the connection-wide initial value
                    if sp.backend_read.h2_window > self.my_initial_window {
                        self.ctl.push_back(Seg::meta(Frame::window_update(sid, sp.backend_read.h2_window - self.my_initial_window).encode()));
                    }
                    self.by_sid.insert(sid, self.streams.len());
                    self.streams.push(st);
                    if end_stream {
                        self.end_recv(sid, "clean", "END_STREAM on HEADERS");
                    }
                }
                _ => {
                    // unknown request: answer 200 without body
                    let blk = self.hp.encode(&[(b":status", b"200"), (b"content-length", b"0")]);
                    self.ctl.push_back(Seg::meta(Frame::headers(sid, blk, true, true).encode()));
                }
            }
        } else {
            let Some(&i) = self.by_sid.get(&sid) else { return };
            let status = get(":status").unwrap_or_default();
            if self.streams[i].got_headers {
                if end_stream {
                    self.end_recv(sid, "clean", "END_STREAM on trailers");
                }
                return;
            }
            if status.starts_with('1') {
                return;
            }
            self.streams[i].got_headers = true;
            let want = format!("{}-{}", self.streams[i].run, self.streams[i].idx);
            let xrun = get("x-run");
            if status != "200" || xrun.as_deref() != Some(want.as_str()) {
                let idx = self.streams[i].idx;
                self.foreign_answers.push((idx, status.clone()));
                if let Some(r) = self.streams[i].recv.as_mut() {
                    r.end("abort", &format!("answer {status} x-run={xrun:?} instead of the backend's response"));
                }
                if let Some(s) = self.streams[i].send.as_mut() {
                    if !s.done && !s.aborted {
                        s.aborted = true;
                        s.rec.end("abort", "client gives up after a foreign answer");
                        self.ctl.push_back(Seg::meta(Frame::rst(sid, 8).encode()));
                    }
                }
                return;
            }
            if end_stream {
                self.end_recv(sid, "clean", "END_STREAM on HEADERS");
            }
        }
    }

    fn end_recv(&mut self, sid: u32, kind: &str, why: &str) {
        let Some(&i) = self.by_sid.get(&sid) else { return };
        if let Some(r) = self.streams[i].recv.as_mut() {
            r.end(kind, why);
        }
        if self.server && kind == "clean" {
            if let Some(s) = self.streams[i].send.as_mut() {
                s.armed = true;
            }
        }
        if kind != "clean" {
            if let Some(s) = self.streams[i].send.as_mut() {
                if !s.done && !s.aborted {
                    s.aborted = true;
                    s.rec.end("abort", &format!("stream ended by the peer: {why}"));
                }
            }
        }
        if self.stream_settled(i) {
            self.release(i);
        }
        if !self.server && !self.pending_open.is_empty() {
            let todo = std::mem::take(&mut self.pending_open);
            for j in todo {
                self.open_stream(j);
            }
        }
    }

    fn on_frame(&mut self, f: Frame) {
        self.frames_in += 1;
        if let Some((sid, _, _)) = self.hdr_acc.as_ref() {
            if f.ty != CONTINUATION || f.sid != *sid {
                self.protocol_errors.push("header block interrupted".into());
            }
        }
        match f.ty {
            SETTINGS => {
                if f.flags & FLAG_ACK == 0 {
                    self.peer_settings_seen = true;
                    for (k, v) in f.settings_pairs() {
                        match k {
                            S_INITIAL_WINDOW_SIZE => {
                                let delta = v as i64 - self.peer_initial_window;
                                self.peer_initial_window = v as i64;
                                for s in self.streams.iter_mut() {
                                    s.send_window += delta;
                                }
                            }
                            S_MAX_FRAME_SIZE => self.peer_max_frame = v as usize,
                            _ => {}
                        }
                    }
                    self.ctl.push_back(Seg::meta(Frame::settings_ack().encode()));
                }
            }
            WINDOW_UPDATE => {
                let inc = f.u32_at(0).unwrap_or(0) as i64 & 0x7fff_ffff;
                if f.sid == 0 {
                    self.conn_send_window += inc;
                } else if let Some(&i) = self.by_sid.get(&f.sid) {
                    self.streams[i].send_window += inc;
                }
            }
            PING => {
                if f.flags & FLAG_ACK != 0 {
                    self.ping_acks += 1;
                }
                if f.flags & FLAG_ACK == 0 {
                    let mut d = [0u8; 8];
                    d.copy_from_slice(&f.payload[..8.min(f.payload.len())]);
                    self.ctl.push_back(Seg::meta(Frame::ping(d, true).encode()));
                }
            }
            HEADERS => {
                let mut p = &f.payload[..];
                let mut bad = false;
                if f.flags & FLAG_PADDED != 0 && !p.is_empty() {
                    let pad = p[0] as usize;
                    if 1 + pad > p.len() { bad = true } else { p = &p[1..p.len() - pad] }
                }
                if f.flags & FLAG_PRIORITY != 0 {
                    if p.len() >= 5 { p = &p[5..] } else { bad = true }
                }
                if bad {
                    self.protocol_errors.push("malformed HEADERS".into());
                } else if f.end_headers() {
                    let b = p.to_vec();
                    self.on_headers(f.sid, &b, f.flags & FLAG_END_STREAM != 0);
                } else {
                    self.hdr_acc = Some((f.sid, p.to_vec(), f.flags & FLAG_END_STREAM != 0));
                }
            }
            CONTINUATION => {
                if let Some((sid, mut acc, es)) = self.hdr_acc.take() {
                    acc.extend_from_slice(&f.payload);
                    if f.end_headers() {
                        self.on_headers(sid, &acc, es);
                    } else {
                        self.hdr_acc = Some((sid, acc, es));
                    }
                }
            }
            DATA => {
                let wire = f.payload.len() as u64;
                self.conn_consumed += wire;
                self.note_bytes(wire);
                self.data_in += wire;
                if !self.hold_done {
                    if let Some(h) = self.hold.as_ref() {
                        if self.data_in >= h.after_bytes {
                            self.hold_done = true;
                            self.holds += 1;
                            self.hold_until = Some(Instant::now() + Duration::from_millis(h.ms));
                        }
                    }
                }
                let Some(&i) = self.by_sid.get(&f.sid) else {
                    return;
                };
                match f.data_bytes() {
                    Some(b) => {
                        let st = &mut self.streams[i];
                        if let Some(r) = st.recv.as_mut() {
                            if r.ended && !b.is_empty() {
                                self.protocol_errors.push(format!("DATA after the end of stream {}", f.sid));
                            }
                            r.data(b);
                        }
                        if f.flags & FLAG_END_STREAM == 0 && wire > 0 {
                            st.pending_grant += wire;
                            if st.grant_at.is_none() {
                                st.grant_at = Some(Instant::now() + Duration::from_micros(st.rplan.h2_grant_delay_us));
                            }
                        }
                    }
                    None => self.protocol_errors.push("malformed padding in DATA".into()),
                }
                if f.flags & FLAG_END_STREAM != 0 {
                    self.end_recv(f.sid, "clean", "END_STREAM");
                }
            }
            RST_STREAM => {
                let code = f.u32_at(0).unwrap_or(0);
                if let Some(&i) = self.by_sid.get(&f.sid) {
                    let already = self.streams[i].recv.as_ref().map(|r| r.ended).unwrap_or(true);
                    if !already {
                        self.end_recv(f.sid, "abort", &format!("RST_STREAM({code})"));
                    } else if let Some(s) = self.streams[i].send.as_mut() {
                        if !s.done && !s.aborted {
                            s.aborted = true;
                            s.rec.end("abort", &format!("RST_STREAM({code}) from the peer"));
                        }
                    }
                    if self.stream_settled(i) {
                        self.release(i);
                    }
                }
            }
            GOAWAY => {
                self.goaway = Some((f.u32_at(0).unwrap_or(0) & 0x7fff_ffff, f.u32_at(4).unwrap_or(0)));
            }
            _ => {}
        }
    }

    fn note_bytes(&mut self, n: u64) {
        if self.ping_every == 0 {
            return;
        }
        self.ping_acc += n;
        if self.ping_acc >= self.ping_every {
            self.ping_acc = 0;
            self.pings_sent += 1;
            self.ctl.push_back(Seg::meta(Frame::ping(self.pings_sent.to_be_bytes(), false).encode()));
        }
    }

    fn grants(&mut self) {
        let now = Instant::now();
        for s in self.streams.iter_mut() {
            if let Some(t) = s.grant_at {
                let open = s.recv.as_ref().map(|r| !r.ended).unwrap_or(false);
                if !open {
                    s.grant_at = None;
                    s.pending_grant = 0;
                } else if now >= t && s.pending_grant > 0 {
                    let g = s.pending_grant.min(s.rplan.h2_grant.max(1) as u64);
                    self.sh.add_frames(s.run, 1);
                    self.ctl.push_back(Seg::meta(Frame::window_update(s.sid, g as u32).encode()));
                    s.pending_grant -= g;
                    s.grant_at = if s.pending_grant > 0 { Some(now + Duration::from_micros(s.rplan.h2_grant_delay_us)) } else { None };
                }
            }
        }
        if self.conn_consumed >= (self.my_conn_window / 2) as u64 || (self.conn_consumed > 0 && self.my_conn_window <= 65535 && self.conn_consumed >= 16384) {
            self.ctl.push_back(Seg::meta(Frame::window_update(0, self.conn_consumed as u32).encode()));
            self.conn_consumed = 0;
        }
    }

    fn next_data(&mut self) -> Option<Seg> {
        // like real clients, acknowledge the peer's SETTINGS before any DATA is put in front of the ACK
        if !self.peer_settings_seen {
            return None;
        }
        let n = self.streams.len();
        for k in 0..n {
            let i = (self.rr + k) % n;
            let max_frame = self.peer_max_frame;
            let cw = self.conn_send_window;
            let st = &mut self.streams[i];
            let sid = st.sid;
            let sw = st.send_window;
            let Some(s) = st.send.as_mut() else { continue };
            if s.done || s.aborted || !s.armed {
                continue;
            }
            if s.pace.until.map(|t| Instant::now() < t).unwrap_or(false) {
                continue;
            }
            if self.server && !st.resp_headers_sent {
                continue;
            }
            if let Some(a) = s.plan.abort_at {
                if s.off >= a {
                    s.aborted = true;
                    s.rec.end("abort", "harness resets the stream here");
                    // RST_STREAM closes the stream in both directions
                    if let Some(r) = st.recv.as_mut() {
                        r.end("abort", "stream reset by this endpoint");
                    }
                    self.rr = i + 1;
                    return Some(Seg::meta(Frame::rst(sid, 8).encode()));
                }
            }
            let mut remaining = s.plan.size - s.off;
            // an early response never ends before the request did (sozu would rightly abandon the upload)
            let req_open = st.early && st.recv.as_ref().map(|r| !r.ended).unwrap_or(false);
            if req_open {
                if remaining <= 1 {
                    continue;
                }
                remaining -= 1;
            }
            if remaining == 0 {
                // only the separate END_STREAM frame is left
                s.done = true; // EndSent is logged once the frame is written (see wrote)
                self.rr = i + 1;
                return Some(Seg { bytes: Frame::data(sid, vec![], true).encode(), pay_start: 0, pay_len: 0, pay_off: s.off, owner: i });
            }
            let pad: usize = if s.plan.h2_pad { 1 + s.rng.below(40) as usize } else { 0 };
            let overhead = if s.plan.h2_pad { 1 + pad } else { 0 };
            let room = (cw.min(sw)).min(max_frame as i64) - overhead as i64;
            if room <= 0 {
                continue; // blocked on a window
            }
            let mut want = piece_size(&mut s.rng, remaining, s.plan.wchunk.max(1) as u64).min(room as u64);
            if let Some(a) = s.plan.abort_at {
                want = want.min(a - s.off).max(1);
            }
            let last = want == remaining && !req_open;
            let end_here = last && !s.plan.h2_sep_end;
            let mut payload = vec![0u8; want as usize];
            s.code.fill(s.off, &mut payload);
            let bytes = if s.plan.h2_pad { Frame::data_padded(sid, &payload, pad as u8, end_here).encode() } else { Frame::data(sid, payload, end_here).encode() };
            let seg = Seg { bytes, pay_start: 9 + if s.plan.h2_pad { 1 } else { 0 }, pay_len: want as usize, pay_off: s.off, owner: i };
            s.off += want;
            let used = want as i64 + overhead as i64;
            self.sh.add_frames(st.run, 1);
            st.send_window -= used;
            self.conn_send_window -= used;
            if end_here {
                s.done = true; // EndSent is logged once the frame is written (see wrote)
            }
            self.rr = i + 1;
            return Some(seg);
        }
        None
    }
}

impl Machine for H2Peer {
    fn input(&mut self, data: &[u8]) {
        let mut data = data;
        if self.need_preface {
            self.fb.push(data);
            if self.fb.buf.len() < PREFACE.len() {
                return;
            }
            if &self.fb.buf[..PREFACE.len()] != PREFACE {
                self.protocol_errors.push("bad client preface".into());
                self.dead = true;
                self.closing = CloseAction::Abort;
                return;
            }
            self.fb.buf.drain(..PREFACE.len());
            self.need_preface = false;
            data = &[];
        }
        self.fb.push(data);
        while let Some(f) = self.fb.next() {
            self.on_frame(f);
        }
    }
    fn eof(&mut self, why: &str) {
        for i in 0..self.streams.len() {
            let ga = self.goaway;
            let s = &mut self.streams[i];
            if let Some(r) = s.recv.as_mut() {
                if !r.ended {
                    r.end("abort", &format!("connection ended ({why}, goaway={ga:?})"));
                }
            }
            if let Some(x) = s.send.as_mut() {
                if !x.rec.ended && (x.armed || !self.server) {
                    if x.plan.h2_cl && x.rec.sent >= x.plan.size && x.plan.abort_at.is_none() {
                        // every byte of the declared length was written: the message is complete for a
                        // receiver that frames by length, even if END_STREAM had not left yet
                        x.done = true;
                        x.rec.end("clean", "declared length met");
                    } else {
                        x.aborted = true;
                        x.rec.end("abort", &format!("connection ended ({why})"));
                    }
                }
            }
            self.release(i);
        }
        self.dead = true;
    }
    fn output(&mut self) -> Option<Seg> {
        self.grants();
        if let Some(s) = self.ctl.pop_front() {
            return Some(s);
        }
        // server role: response HEADERS of armed streams
        if self.server {
            for i in 0..self.streams.len() {
                let st = &mut self.streams[i];
                let sid = st.sid;
                if let Some(s) = st.send.as_mut() {
                    if s.armed && !s.done && !s.aborted && !st.resp_headers_sent {
                        st.resp_headers_sent = true;
                        let xr = format!("{}-{}", st.run, st.idx);
                        let cl = s.plan.size.to_string();
                        let mut hs: Vec<(&[u8], &[u8])> = vec![(b":status", b"200"), (b"x-run", xr.as_bytes())];
                        if s.plan.h2_cl {
                            hs.push((b"content-length", cl.as_bytes()));
                        }
                        let end_now = s.plan.size == 0 && !s.plan.h2_sep_end;
                        let blk = self.hp.encode(&hs);
                        if end_now {
                            s.done = true;
                            s.rec.end("clean", "END_STREAM on HEADERS");
                        }
                        let seg = Seg::meta(Frame::headers(sid, blk, true, end_now).encode());
                        if end_now && self.stream_settled(i) {
                            self.release(i);
                        }
                        return Some(seg);
                    }
                }
            }
        }
        self.next_data()
    }
    fn wrote(&mut self, owner: usize, off: u64, len: u64) {
        if owner >= self.streams.len() {
            return;
        }
        let mut settle = false;
        self.note_bytes(len);
        if let Some(s) = self.streams[owner].send.as_mut() {
            if len > 0 {
                s.rec.sent(off, len);
                s.pace.wrote(len);
            }
            if s.done && !s.rec.ended && s.rec.sent >= s.plan.size {
                s.rec.end("clean", "END_STREAM");
                settle = true;
            }
        }
        if settle && self.stream_settled(owner) {
            self.release(owner);
        }
    }
    fn read_plan(&self) -> (usize, u64) {
        // the socket itself is drained (HTTP/2 receivers pace with their windows) - except during a full-duplex hold
        if self.hold_until.map(|t| Instant::now() < t).unwrap_or(false) {
            return (0, 0);
        }
        (65536, 0)
    }
    fn wchunk(&self) -> usize {
        1 << 20
    }
    fn write_blocked(&mut self) -> Option<Duration> {
        None
    }
    fn expecting(&self) -> bool {
        if self.dead {
            return false;
        }
        if self.server {
            (0..self.streams.len()).any(|i| !self.stream_settled(i))
        } else {
            true
        }
    }
    fn finished(&self) -> bool {
        if self.dead {
            return true;
        }
        if self.server {
            return false;
        }
        self.ctl.is_empty() && self.pending_open.is_empty() && (0..self.streams.len()).all(|i| self.stream_settled(i))
    }
    fn stall(&mut self, why: &str) {
        for i in 0..self.streams.len() {
            let cw = self.conn_send_window;
            let s = &mut self.streams[i];
            let sw = s.send_window;
            if let Some(x) = s.send.as_mut() {
                if !x.done && !x.aborted && x.armed {
                    x.rec.flush();
                    let k = x.rec.key;
                    self.sh.log.push(k, 0, json!({"ev":"SendStall","k":"sendstall","run":k.run,"s":k.stream,"d":dir_name(k.dir),"at":x.rec.sent,
                        "why":format!("{why}; stream window {sw}, connection window {cw}")}));
                    x.aborted = true;
                }
            }
            if let Some(r) = s.recv.as_mut() {
                if !r.ended {
                    r.stall(why);
                }
            }
            self.release(i);
        }
        self.dead = true;
    }
    fn inconclusive(&mut self) {
        let runs: Vec<u64> = self.streams.iter().map(|s| s.run).collect();
        for r in runs {
            self.sh.mark_inconclusive(r);
        }
        for i in 0..self.streams.len() {
            self.release(i);
        }
        self.dead = true;
    }
    fn runs(&self) -> Vec<u64> {
        let mut v: Vec<u64> = self.streams.iter().map(|s| s.run).collect();
        if let Some(p) = self.plan.as_ref() {
            v.push(p.run);
        }
        v.sort_unstable();
        v.dedup();
        v
    }
    fn wants_close(&mut self) -> CloseAction {
        std::mem::replace(&mut self.closing, CloseAction::None)
    }
    fn next_timer(&self) -> Option<Instant> {
        let mut t: Option<Instant> = self.hold_until.filter(|t| Instant::now() < *t);
        for s in &self.streams {
            for c in [s.grant_at, s.send.as_ref().and_then(|x| if x.done || x.aborted { None } else { x.pace.until })] {
                if let Some(c) = c {
                    t = Some(t.map_or(c, |o| o.min(c)));
                }
            }
        }
        t
    }
}
