--------------------------- MODULE Gen_BufferPool ---------------------------
(* S->I generator for BufferPool.tla: TLC as generator and oracle.  One REPLAY line per behaviour: after   *)
(* every step the spec's prediction of the call's result (in the step label), of the pool counters and of   *)
(* every held buffer's window (available data / space and the bytes of data()).                             *)
EXTENDS BufferPool, Json

\* simulation picks uniformly among the successor states: weights for the steps that have few instances, a
\* thin set of slices (GDatas: short ones for the edits, GLong: also longer ones for write) and arguments
\* chosen around the current window (valid edits and the refusals next to them)
CONSTANTS WPool, WSmall, GDatas, GLong

VARIABLES hist, done

BProj(g) == IF held[g] = NoIdx THEN [held |-> FALSE, avail |-> 0, space |-> 0, data |-> <<>>]
            ELSE [held |-> TRUE, avail |-> Avail(B(g)), space |-> Space(B(g)), data |-> Data(B(g))]
Snap == [step |-> last, used |-> used, cap |-> cap, gauge |-> gauge, bufs |-> [g \in Guards |-> BProj(g)]]

Av(g) == IF held[g] = NoIdx THEN 0 ELSE Avail(B(g))
Near(g) == 0..(Av(g) + 1)
WNext ==
  \/ \E i \in 1..WPool, g \in Guards : Checkout(g)
  \/ \E i \in 1..WPool, g \in Guards : DropG(g)
  \/ \E i \in 1..WSmall, g \in Guards, d \in GDatas \cup GLong : Write(g, d)
  \/ \E i \in 1..WSmall, g \in Guards, k \in {0, 1, 2, 3, 5, Cap} : Consume(g, k)
  \/ \E g \in Guards, k \in {0, 1, 2, 4, Cap} : Read(g, k)
  \/ \E i \in 1..(2 * WSmall), g \in Guards : Shift(g)
  \/ \E g \in Guards : Reset(g)
  \/ \E g \in Guards, e \in Offs, p \in Offs : Sync(g, e, p)
  \/ \E g \in Guards : \E s \in Near(g), l \in Near(g) : s + l <= Av(g) + 1 /\ Delete(g, s, l)
  \/ \E g \in Guards : \E d \in GDatas, s \in Near(g), l \in 0..3 : s + l <= Av(g) + 1 /\ Replace(g, d, s, l)
  \/ \E g \in Guards : \E d \in GDatas, s \in Near(g) : Insert(g, d, s)

MCDatas == {<<>>, <<1>>, <<2, 3>>, <<3, 1, 2>>}
MCLong == {<<2, 2, 1, 3>>, <<1, 3, 2, 1, 3, 2>>}

GenInit == Init /\ hist = <<>> /\ done = FALSE
GenNext == \/ WNext /\ hist' = Append(hist, Snap') /\ done' = FALSE
           \/ steps = MaxSteps /\ ~done /\ done' = TRUE /\ UNCHANGED <<vars, hist>>
GenSpec == GenInit /\ [][GenNext]_<<vars, hist, done>>

EmitHist == done => PrintT(<<"REPLAY", ToJson(hist)>>)
=============================================================================
