SPECIFICATION TraceSpec
CONSTANTS
  NSlots = 4
  MaxDelay = 1000000
  Toks <- T_Toks
  Conts <- T_Conts
  RawOps = TRUE
  MaxNow = 100000000
  MaxAdv = 1000
  MaxArm = 100000000
  MaxSteps = 1000000000
  FreePoll = TRUE
  Misuse = FALSE
  Deviations = {}
CONSTRAINT Track
INVARIANTS P_C16t_Structure P_C16t_SlabReleased P_C16t_OnceOnly P_C16t_WheelNotAhead P_C16t_Fires P_C16t_NoneBehind P_C16t_NoOversleep P_C16t_IdleOnlyIfEmpty P_C16t_Containers P_C16t_NoSteal
PROPERTIES P_C16t_Results P_C16t_NotEarly
POSTCONDITION TraceAccepted
CHECK_DEADLOCK FALSE
