---------------------------- MODULE Trace_H2Conn ----------------------------
(***************************************************************************)
(* I->S trace validation for H2Conn.tla (property C15).                    *)
(*                                                                         *)
(* harness/src/bin/drive_h2storm.rs drives a real sozu worker with seeded  *)
(* frame storms and logs, per connection ("run") and in the peer's own     *)
(* program order:                                                          *)
(*   conn  - connection established, client preface + SETTINGS exchanged   *)
(*   send  - one abstract frame sent (f), whether a HEADERS block was      *)
(*           encoded as trailers (trl), whether more than 0.9 s passed     *)
(*           since the connection started (slow: the flood window may have *)
(*           expired, see Tick_Decay)                                      *)
(*   recv  - what sozu sent: rst(sid, c) | goaway(c) | pingack |           *)
(*           settingsack                                                   *)
(*   end   - fate: "closed" (sozu released the connection) | "open"        *)
(*                                                                         *)
(* The trace is a behaviour of the spec iff every `send` can be explained  *)
(* by the code model Sozu(st, f) - or, failing that, by another reaction   *)
(* of React(st, f), after which the run is no longer judged - every `recv` *)
(* is an output some frame's admissible reaction produces, no mandatory    *)
(* output is missing when the run ends, and the fate matches.              *)
(***************************************************************************)
EXTENDS H2Conn, IOUtils

Rec == ndJsonDeserialize(IOEnv.TRACE)

\* the stream-id universe is whatever the storms used
TraceOddSids == {1, 3, 5} \cup {Rec[k].f.sid : k \in {j \in 1..Len(Rec) : Rec[j].ev = "send" /\ Rec[j].f.sid % 2 = 1}}

VARIABLES l,      \* events consumed
          pend,   \* outputs predicted and not yet received: sequence of [x, sid, c, must]
          alts,   \* outputs of admissible-but-not-predicted reactions seen so far in the run
          div,    \* the run left the code model through an admissible alternative: no longer judged
          devs    \* sends explained only by an open known finding (deviation switched on)
tvars == <<st, hist, l, pend, alts, div, devs>>

ASSUME TLCSet(1, 0)
ASSUME TLCSet(2, 0)

Out(x, sid, c) == [x |-> x, sid |-> sid, c |-> c]
\* what a reaction puts on the wire
OutputsOf(r, f) ==
  CASE r.k = "rst" -> {Out("rst", f.sid, r.c)}
    [] r.k = "goaway" -> {Out("goaway", 0, r.c)}
    [] r.k = "handle" /\ f.ty = "PING" /\ f.fl = "-" -> {Out("pingack", 0, "-")}
    [] r.k = "handle" /\ f.ty = "SETTINGS" /\ f.fl = "-" -> {Out("settingsack", 0, "-")}
    [] OTHER -> {}

Decay(s) == [s EXCEPT !.fc = [c \in Counters |->
                                IF c \in {"rst", "ping", "settings", "empty", "wu0", "glitch", "gmin"}
                                THEN s.fc[c] \div 2 ELSE s.fc[c]]]

\* the block the driver encoded does not fit the stream state the spec is in: it is a malformed block
Effective(s, e) ==
  LET f == e.f
  IN IF f.ty = "HEADERS" /\ f.pay \in {"req", "split", "idx_add", "idx_use"} /\ f.sid \in OddSids
        /\ e.trl # (s.ss[f.sid] \in {"open", "hcr"}) /\ s.ec = 0
     THEN [f EXCEPT !.pay = "malformed"] ELSE f

Cur == Rec[l + 1]
Consume == l' = l + 1

T_Conn ==
  /\ Cur.ev = "conn"
  /\ st' = [InitState EXCEPT !.cs = "settingsWait", !.fc.settings = 1, !.fc.settingsLife = 1]
  /\ pend' = << [x |-> "settingsack", sid |-> 0, c |-> "-", must |-> TRUE] >>   \* the preface SETTINGS is acknowledged
  /\ alts' = {} /\ div' = FALSE
  /\ Consume /\ UNCHANGED <<hist, devs>>

T_Free ==     \* a run that diverged through an admissible alternative is consumed without judgement
  /\ Cur.ev # "conn" /\ div
  /\ Consume /\ UNCHANGED <<st, hist, pend, alts, div, devs>>

T_Send ==
  /\ Cur.ev = "send" /\ ~div
  /\ \E n \in (IF Cur.slow THEN 0..2 ELSE {0}) :
       LET s0 == IF n = 0 THEN st ELSE IF n = 1 THEN Decay(st) ELSE Decay(Decay(st))
           f  == Effective(s0, Cur)
           c  == Sozu(s0, f)
           adm == React(s0, f)
           quiet == Handle \in adm \/ Ignore \in adm
           outs == OutputsOf(c.r, f)
           \* the reset that pushed the emitted-RST count over its cap was queued before the GOAWAY: it may still be flushed
           comp == IF c.r = Goaway("EYC") THEN {Out("rst", f.sid, r.c) : r \in {x \in RfcAdm(s0, f) : x.k = "rst"}} ELSE {}
       IN /\ c.r \in adm \/ DevOf(s0, f) # {}             \* P_C15_React on the visited states (or a listed finding)
          /\ devs' = IF c.r \in adm THEN devs ELSE devs + 1
          /\ st' = c.s
          /\ pend' = pend \o SetToSeq({[x |-> o.x, sid |-> o.sid, c |-> o.c,
                                        must |-> ~(quiet /\ o.x \in {"rst", "goaway"})] : o \in outs}
                                      \cup {[x |-> o.x, sid |-> o.sid, c |-> o.c, must |-> FALSE] : o \in comp})
          /\ alts' = alts \cup UNION {OutputsOf(r, f) : r \in adm \ {c.r}}
  /\ Consume /\ UNCHANGED <<hist, div>>

Matches(p, e) == p.x = e.x /\ (e.x \in {"pingack", "settingsack"} \/ (p.c = e.c /\ (e.x = "goaway" \/ p.sid = e.sid)))

\* sozu may start a graceful shutdown (GOAWAY(NO_ERROR)) whenever it wants, and answers 5xx by itself when its
\* backend fails: both are outside the relation of C15; the run is no longer judged afterwards
T_Env ==
  /\ Cur.ev = "recv" /\ ~div
  /\ \/ (Cur.x = "goaway" /\ Cur.c = "NO" /\ ~\E k \in 1..Len(pend) : pend[k].x = "goaway" /\ pend[k].c = "NO")
     \/ Cur.x = "response"      \* a 5xx of sozu's own (backend trouble); responses to released requests are `respond` events
  /\ div' = TRUE
  /\ Consume /\ UNCHANGED <<st, hist, pend, alts, devs>>

T_Recv ==
  /\ Cur.ev = "recv" /\ ~div
  /\ LET idx == {k \in 1..Len(pend) : Matches(pend[k], Cur)}
     IN IF idx # {}
        THEN LET k == CHOOSE k \in idx : \A j \in idx : k <= j
             IN pend' = SubSeq(pend, 1, k - 1) \o SubSeq(pend, k + 1, Len(pend)) /\ UNCHANGED div
        ELSE \* not predicted: admissible only as the output of an alternative reaction; the run is then free
             /\ \E a \in alts : Matches(a, Cur)
             /\ div' = TRUE /\ UNCHANGED pend
  /\ Consume /\ UNCHANGED <<st, hist, alts, devs>>

\* the backend answered and the complete response (200, body, END_STREAM) reached the peer: Sozu_Respond with a
\* stream window that lets the whole body through
T_Respond ==
  /\ Cur.ev = "respond" /\ ~div
  /\ Cur.sid \in OddSids /\ st.ss[Cur.sid] = "hcr" /\ st.rem[Cur.sid] = 0 /\ ~st.gs
  /\ LET s1 == RespondState(st, Cur.sid, "ok")
     IN /\ s1.ss[Cur.sid] = "closed"
        /\ st' = s1
        /\ pend' = IF s1.gs THEN Append(pend, [x |-> "goaway", sid |-> 0, c |-> "NO", must |-> TRUE]) ELSE pend
  /\ Consume /\ UNCHANGED <<hist, alts, div, devs>>

T_End ==
  /\ Cur.ev = "end" /\ ~div
  /\ IF Cur.fate = "open"
     THEN /\ ~st.gs                                        \* a predicted GOAWAY/close did not happen
          /\ \A k \in 1..Len(pend) : ~pend[k].must        \* every mandatory output was received
     ELSE /\ st.gs \/ (\E a \in alts : a.x = "goaway")    \* released without an admissible reason
          /\ \A k \in 1..Len(pend) : pend[k].x # "goaway" \/ ~pend[k].must   \* the GOAWAY itself was seen
  /\ Consume /\ UNCHANGED <<st, hist, pend, alts, div, devs>>

TraceNext == l < Len(Rec) /\ (T_Conn \/ T_Free \/ T_Send \/ T_Recv \/ T_Env \/ T_Respond \/ T_End)
TraceInit == st = InitState /\ hist = <<>> /\ l = 0 /\ pend = <<>> /\ alts = {} /\ div = FALSE /\ devs = 0
TraceSpec == TraceInit /\ [][TraceNext]_tvars

Track == (l > TLCGet(1) => TLCSet(1, l) /\ TLCSet(2, devs)) /\ TRUE

\* invariants evaluated on every state the trace visits
T_Streams == div \/ Active(st) <= MaxStreams
T_Structural == div \/ P_C15_Structural

TraceAccepted ==
  /\ IF TLCGet(1) = Len(Rec)
     THEN PrintT(<<"TRACE-ACCEPTED", TLCGet(1)>>) /\ PrintT(<<"DEVIATIONS-USED", TLCGet(2)>>)
     ELSE /\ PrintT(<<"TRACE-REJECTED", TLCGet(1), Len(Rec)>>)
          /\ PrintT(<<"FIRST-UNEXPLAINED", Rec[TLCGet(1) + 1]>>)
  /\ TRUE
=============================================================================
