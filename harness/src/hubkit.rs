//! Scaffolding shared by replay_hub (S->I) and drive_hub (I->S), property C09.
//! Included with `#[path = "../hubkit.rs"] mod hubkit;` (not part of the `vh` lib so that the
//! shared lib.rs does not have to change).
//!
//! A REAL `sozu::command::server::CommandHub` runs on its own thread on a temp unix socket with
//! `worker_automatic_restart = false` and `worker_timeout = <timeout>`. FAKE workers are
//! registered through the public `Server::register_worker`: the hub side of a socketpair becomes
//! the worker `Channel`; the harness keeps the other side. The pid handed to the hub is that of a
//! dedicated `sleep` child (close_worker SIGKILLs `worker.pid`): never 0, never ours. Children
//! are reaped only after the hub thread is gone (a zombie keeps its pid reserved, so the hub can
//! never signal a recycled pid).
#![allow(dead_code)]

use std::os::fd::{FromRawFd, IntoRawFd, RawFd};
use std::os::unix::net::UnixStream as StdUnixStream;
use std::panic::{AssertUnwindSafe, catch_unwind};
use std::process::{Child, Command, Stdio};
use std::sync::mpsc;
use std::sync::{Arc, Condvar, Mutex};
use std::thread::JoinHandle;
use std::time::{Duration, Instant};

use sozu::command::server::CommandHub;
use sozu_command_lib::{
    channel::Channel,
    config::{ConfigBuilder, FileConfig},
    proto::command::{
        Cluster, ListWorkers, QueryMetricsOptions, Request, Response, ResponseStatus, RunState, Status,
        WorkerRequest, WorkerResponse, request::RequestType, response_content::ContentType,
    },
    scm_socket::ScmSocket,
};

pub const BUF: u64 = 16_384;
pub const MAX_BUF: u64 = 4_000_000;

pub enum Recv<M> {
    Msg(M),
    Timeout,
    Eof,
    Bad(String),
}

fn poll_readable(fd: RawFd, ms: i32) -> bool {
    let mut p = libc::pollfd { fd, events: libc::POLLIN, revents: 0 };
    let r = unsafe { libc::poll(&mut p, 1, ms) };
    r > 0 && (p.revents & (libc::POLLIN | libc::POLLHUP | libc::POLLERR)) != 0
}

/// Read one message from a *blocking* channel, waiting at most `timeout`. (Two concrete functions
/// instead of one generic: the `prost::Message` bound cannot be named, prost is not a direct dependency.)
macro_rules! def_recv {
    ($name:ident, $tx:ty, $rx:ty) => {
        pub fn $name(chan: &mut Channel<$tx, $rx>, timeout: Duration) -> Recv<$rx> {
            let deadline = Instant::now() + timeout;
            loop {
                if chan.front_buf.available_data() == 0 {
                    let left = deadline.saturating_duration_since(Instant::now());
                    let ms = left.as_millis().min(i32::MAX as u128) as i32;
                    if !poll_readable(chan.fd(), ms) {
                        return Recv::Timeout;
                    }
                }
                match chan.read_message_blocking_timeout(Some(Duration::from_millis(150))) {
                    Ok(m) => return Recv::Msg(m),
                    Err(e) => {
                        let s = format!("{e:?}");
                        if s.contains("NoByteToRead") {
                            return Recv::Eof;
                        }
                        if s.contains("TimeoutReached") {
                            if Instant::now() >= deadline {
                                return Recv::Timeout;
                            }
                            continue;
                        }
                        if s.contains("ConnectionReset") || s.contains("BrokenPipe") || s.contains("NotConnected") {
                            return Recv::Eof;
                        }
                        return Recv::Bad(s);
                    }
                }
            }
        }
    };
}
def_recv!(recv, Request, Response);
def_recv!(recv_worker, WorkerResponse, WorkerRequest);

// ---------------------------------------------------------------------------------------------

pub struct FakeWorker {
    pub id: u32,
    /// harness side of the worker channel; `None` once closed by the script
    pub chan: Option<Channel<WorkerResponse, WorkerRequest>>,
    scm_keep: Option<StdUnixStream>,
    child: Option<Child>,
    pub pid: i32,
}

/// A gate on the hub's run loop (through the `verif_hook::install_loop_hook` closure, called once per
/// loop turn between `poll` and the handling of the events it returned). While the gate is closed the
/// hub thread waits in the hook: everything the harness does meanwhile (a worker's answer AND its
/// hang-up, several clients' requests, ...) is found by the hub's NEXT poll in one batch - the
/// "busy main process" of the spec's non-quiescent schedules, made deterministic.
pub struct Gate {
    /// (closed, parked, turns)
    state: Mutex<(bool, bool, u64)>,
    cv: Condvar,
}

impl Gate {
    fn new() -> Gate {
        Gate { state: Mutex::new((false, false, 0)), cv: Condvar::new() }
    }
    fn hook(&self) {
        let mut st = self.state.lock().unwrap();
        st.2 += 1;
        if st.0 {
            st.1 = true;
            self.cv.notify_all();
            while st.0 {
                st = self.cv.wait(st).unwrap();
            }
            st.1 = false;
            self.cv.notify_all();
        }
    }
    fn open(&self) {
        let mut st = self.state.lock().unwrap();
        st.0 = false;
        self.cv.notify_all();
    }
}

pub struct Hub {
    pub path: String,
    pub workers: Vec<FakeWorker>,
    pub join: Option<JoinHandle<Result<bool, String>>>,
    _dir: tempfile::TempDir,
    pub timeout_s: u32,
    fate: Option<Result<bool, String>>,
    gate: Arc<Gate>,
    /// private client connection used to wake the loop when parking it (created on first use)
    poke: Option<ClientChan>,
    poke_pending: bool,
}

pub type ClientChan = Channel<Request, Response>;

fn spawn_sleep() -> Child {
    Command::new("sleep")
        .arg("100000")
        .stdin(Stdio::null())
        .stdout(Stdio::null())
        .stderr(Stdio::null())
        .spawn()
        .expect("cannot spawn the dummy `sleep` child")
}

impl Hub {
    /// Start a hub with `n` fake workers (ids 0..n).
    pub fn start(n: usize, timeout_s: u32) -> Result<Hub, String> {
        let dir = tempfile::Builder::new().prefix("c09hub").tempdir_in("/tmp").map_err(|e| e.to_string())?;
        let path = dir.path().join("s.sock").to_string_lossy().to_string();
        let mut workers = Vec::new();
        let mut hub_fds: Vec<(u32, i32, RawFd, RawFd)> = Vec::new();
        for id in 0..n as u32 {
            let (hub_side, mine) = StdUnixStream::pair().map_err(|e| e.to_string())?;
            let (scm_hub, scm_mine) = StdUnixStream::pair().map_err(|e| e.to_string())?;
            hub_side.set_nonblocking(true).map_err(|e| e.to_string())?;
            let child = spawn_sleep();
            let pid = child.id() as i32;
            assert!(pid > 1 && pid != std::process::id() as i32);
            let mio_mine = {
                mine.set_nonblocking(true).map_err(|e| e.to_string())?;
                mio::net::UnixStream::from_std(mine)
            };
            let mut chan: Channel<WorkerResponse, WorkerRequest> = Channel::new(mio_mine, BUF, MAX_BUF);
            chan.blocking().map_err(|e| format!("{e:?}"))?;
            hub_fds.push((id, pid, hub_side.into_raw_fd(), scm_hub.into_raw_fd()));
            workers.push(FakeWorker { id, chan: Some(chan), scm_keep: Some(scm_mine), child: Some(child), pid });
        }
        let (tx, rx) = mpsc::channel::<Result<(), String>>();
        let gate = Arc::new(Gate::new());
        let gate2 = gate.clone();
        let p2 = path.clone();
        let cfg_path = dir.path().join("config.toml").to_string_lossy().to_string();
        let join = std::thread::Builder::new()
            .name("hub".into())
            .stack_size(8 << 20)
            .spawn(move || -> Result<bool, String> {
                let scm_fds: Vec<RawFd> = hub_fds.iter().map(|x| x.3).collect();
                let built = catch_unwind(AssertUnwindSafe(|| -> Result<CommandHub, String> {
                    let mut config = ConfigBuilder::new(FileConfig::default(), &cfg_path)
                        .into_config()
                        .map_err(|e| format!("config: {e:?}"))?;
                    config.worker_timeout = timeout_s;
                    config.worker_automatic_restart = false;
                    config.worker_count = n as u16;
                    config.command_socket = p2.clone();
                    config.saved_state = None;
                    let listener = mio::net::UnixListener::bind(&p2).map_err(|e| format!("bind: {e}"))?;
                    let mut hub = CommandHub::new(listener, config, "sozu-verif".to_string())
                        .map_err(|e| format!("hub: {e:?}"))?;
                    for (id, pid, fd, scm_fd) in hub_fds {
                        let stream = unsafe { mio::net::UnixStream::from_raw_fd(fd) };
                        let channel: Channel<WorkerRequest, WorkerResponse> = Channel::new(stream, BUF, MAX_BUF);
                        let scm = ScmSocket::new(scm_fd).map_err(|e| format!("scm: {e:?}"))?;
                        hub.server
                            .register_worker(id, pid, channel, scm)
                            .map_err(|e| format!("register: {e:?}"))?;
                    }
                    Ok(hub)
                }));
                let mut hub = match built {
                    Ok(Ok(h)) => {
                        let _ = tx.send(Ok(()));
                        h
                    }
                    Ok(Err(e)) => {
                        let _ = tx.send(Err(e.clone()));
                        return Err(e);
                    }
                    Err(p) => {
                        let m = vh::util::panic_message(p);
                        let _ = tx.send(Err(m.clone()));
                        return Err(m);
                    }
                };
                sozu::command::server::verif_hook::install_loop_hook(Box::new(move |_server| gate2.hook()));
                let res = match catch_unwind(AssertUnwindSafe(|| hub.run())) {
                    Ok(upgrading) => Ok(upgrading),
                    Err(p) => Err(vh::util::panic_message(p)),
                };
                drop(hub);
                // ScmSocket does not own its descriptor: close the hub side of the scm pairs ourselves
                for fd in scm_fds {
                    unsafe {
                        libc::close(fd);
                    }
                }
                res
            })
            .map_err(|e| e.to_string())?;
        match rx.recv_timeout(Duration::from_secs(20)) {
            Ok(Ok(())) => {}
            Ok(Err(e)) => return Err(format!("hub setup failed: {e}")),
            Err(_) => return Err("hub setup timed out".into()),
        }
        Ok(Hub { path, workers, join: Some(join), _dir: dir, timeout_s, fate: None, gate, poke: None, poke_pending: false })
    }

    /// Park the hub's loop: returns once the hub thread waits in the loop hook (it has returned from
    /// `poll` with, at least, the wake-up message of a private connection, and handles nothing until
    /// `unpark`). Err = the hub did not get there within 10 s (dead, or stuck elsewhere).
    pub fn park(&mut self) -> Result<(), String> {
        if self.poke.is_none() {
            self.poke = Some(self.connect()?);
        }
        self.gate.state.lock().unwrap().0 = true;
        let poke = self.poke.as_mut().unwrap();
        if let Err(e) = poke.write_message(&list_workers_request()) {
            self.gate.open();
            return Err(format!("park: cannot wake the hub: {e:?}"));
        }
        self.poke_pending = true;
        let deadline = Instant::now() + Duration::from_secs(10);
        let mut st = self.gate.state.lock().unwrap();
        while !st.1 {
            let left = deadline.saturating_duration_since(Instant::now());
            if left.is_zero() {
                st.0 = false;
                self.gate.cv.notify_all();
                return Err("park: the hub did not reach its loop hook within 10 s".into());
            }
            st = self.gate.cv.wait_timeout(st, left).unwrap().0;
        }
        Ok(())
    }

    /// Let the parked loop go on, and take the answer to the wake-up message off the private connection.
    pub fn unpark(&mut self) {
        self.gate.open();
        if self.poke_pending {
            self.poke_pending = false;
            if let Some(p) = self.poke.as_mut() {
                loop {
                    match recv(p, Duration::from_secs(10)) {
                        Recv::Msg(m) if status_name(m.status) == "processing" => continue,
                        _ => break,
                    }
                }
            }
        }
    }

    /// loop turns of the hub so far
    pub fn turns(&self) -> u64 {
        self.gate.state.lock().unwrap().2
    }

    pub fn dir(&self) -> &std::path::Path {
        self._dir.path()
    }

    pub fn connect(&self) -> Result<ClientChan, String> {
        let mut last = String::new();
        for _ in 0..50 {
            match Channel::<Request, Response>::from_path(&self.path, BUF, MAX_BUF) {
                Ok(mut c) => {
                    c.blocking().map_err(|e| format!("{e:?}"))?;
                    return Ok(c);
                }
                Err(e) => {
                    last = format!("{e:?}");
                    std::thread::sleep(Duration::from_millis(20));
                }
            }
        }
        Err(format!("cannot connect to the hub: {last}"))
    }

    /// `Some(Ok(upgrading))` = run() returned, `Some(Err(msg))` = the hub thread panicked.
    pub fn finished(&mut self) -> Option<Result<bool, String>> {
        if self.fate.is_none() && self.join.as_ref().map(|j| j.is_finished()).unwrap_or(false) {
            let j = self.join.take().unwrap();
            self.fate = Some(match j.join() {
                Ok(r) => r,
                Err(p) => Err(vh::util::panic_message(p)),
            });
        }
        self.fate.clone()
    }

    /// Close the harness side of worker `w` (the hub sees HUP).
    pub fn close_worker(&mut self, w: usize) {
        if let Some(c) = self.workers[w].chan.take() {
            unsafe {
                libc::shutdown(c.fd(), libc::SHUT_RDWR);
            }
            drop(c);
        }
    }

    /// Tear down: close every worker; if the hub thread is still running ask it to stop (HardStop with
    /// no live worker finishes at once) and wait for run() to return. Returns the hub thread's fate:
    /// Ok(Some(r)) joined, Ok(None) still running after `wait` (leaked, parked in poll).
    pub fn teardown(mut self, wait: Duration) -> Option<Result<bool, String>> {
        self.gate.open();
        self.poke = None;
        for w in 0..self.workers.len() {
            self.close_worker(w);
        }
        let mut fate = self.finished();
        if fate.is_none() {
            if let Ok(mut c) = self.connect() {
                let _ = c.write_message(&Request { request_type: Some(RequestType::HardStop(Default::default())) });
                let t0 = Instant::now();
                while t0.elapsed() < wait {
                    match recv(&mut c, Duration::from_millis(100)) {
                        Recv::Eof | Recv::Bad(_) => break,
                        _ => {}
                    }
                    if self.join.as_ref().map(|j| j.is_finished()).unwrap_or(true) {
                        break;
                    }
                }
                drop(c);
            }
            let t0 = Instant::now();
            while t0.elapsed() < wait {
                fate = self.finished();
                if fate.is_some() {
                    break;
                }
                std::thread::sleep(Duration::from_millis(10));
            }
        }
        let hub_gone = fate.is_some();
        for w in self.workers.iter_mut() {
            if let Some(mut ch) = w.child.take() {
                let _ = ch.kill();
                if hub_gone {
                    let _ = ch.wait();
                } else {
                    // leaked hub thread: keep the zombie (pid stays reserved) until the process exits
                    std::mem::forget(ch);
                }
            }
        }
        fate
    }
}

// ---------------------------------------------------------------------------------------------
// Concretisation of the spec's verbs. Every request carries its spec request number `r` (and
// the part number for load-state) in a cluster id so that fake workers can tell which client
// request a scattered WorkerRequest belongs to without knowing the hub's task ids.

pub fn cluster_name(r: u64, part: u64) -> String {
    format!("r{r}p{part}")
}

/// (r, part) from a scattered request, if it carries one.
pub fn request_tag(req: &Request) -> Option<(u64, u64)> {
    let name = match req.request_type.as_ref()? {
        RequestType::AddCluster(c) => c.cluster_id.clone(),
        RequestType::QueryClusterById(id) => id.clone(),
        RequestType::QueryClustersByDomain(d) => d.hostname.trim_end_matches(".example").to_string(),
        _ => return None,
    };
    let rest = name.strip_prefix('r')?;
    let (a, b) = rest.split_once('p')?;
    Some((a.parse().ok()?, b.parse().ok()?))
}

pub fn add_cluster(r: u64, part: u64) -> RequestType {
    RequestType::AddCluster(Cluster { cluster_id: cluster_name(r, part), ..Default::default() })
}

pub fn list_workers_request() -> Request {
    Request { request_type: Some(RequestType::ListWorkers(ListWorkers {})) }
}

pub fn status_request() -> RequestType {
    RequestType::Status(Status {})
}

pub fn metrics_request() -> RequestType {
    RequestType::QueryMetrics(QueryMetricsOptions::default())
}

/// Write a state file with `parts` AddCluster requests for request `r`; returns its path.
pub fn write_state_file(dir: &std::path::Path, r: u64, parts: u64) -> String {
    let shape: Vec<String> = (0..parts).map(|_| "good".to_string()).collect();
    write_state_file_shape(dir, r, &shape, 0)
}

/// Concretisation of the spec's file shapes (MasterHub.tla, `Files`): one record per element.
///   "good"    AddCluster r<r>p<k>, k = 1, 2, ... (accepted by the main state, scattered as part k)
///   "refused" a record that parses but that ConfigState::dispatch refuses (RemoveCluster of an absent cluster)
///   "bad"     a record that does not parse; `flavour` picks how: the first half of a valid record, a JSON
///             document of the wrong type, raw bytes, or - when it is the last element - a record cut off
///             before its terminator (a file truncated by a crash / full disk)
///   ["missing"] no file at all: the returned path does not exist
pub fn write_state_file_shape(dir: &std::path::Path, r: u64, shape: &[String], flavour: u64) -> String {
    use std::io::Write;
    let path = dir.join(format!("state_r{r}.json"));
    if shape.len() == 1 && shape[0] == "missing" {
        let _ = std::fs::remove_file(&path);
        return path.to_string_lossy().to_string();
    }
    let mut f = std::fs::File::create(&path).expect("state file");
    let mut good = 0u64;
    for (i, kind) in shape.iter().enumerate() {
        let last = i + 1 == shape.len();
        match kind.as_str() {
            "good" => {
                good += 1;
                let m = WorkerRequest { id: format!("SAVE-{i}"), content: Request { request_type: Some(add_cluster(r, good)) } };
                f.write_all(serde_json::to_string(&m).unwrap().as_bytes()).unwrap();
                f.write_all(b"\n\0").unwrap();
            }
            "refused" => {
                let m = WorkerRequest {
                    id: format!("SAVE-{i}"),
                    content: Request { request_type: Some(RequestType::RemoveCluster(format!("absent-r{r}-{i}"))) },
                };
                f.write_all(serde_json::to_string(&m).unwrap().as_bytes()).unwrap();
                f.write_all(b"\n\0").unwrap();
            }
            "bad" => {
                let m = WorkerRequest { id: format!("SAVE-{i}"), content: Request { request_type: Some(add_cluster(r, 99)) } };
                let text = serde_json::to_string(&m).unwrap();
                match (flavour + i as u64) % 4 {
                    0 => {
                        f.write_all(&text.as_bytes()[..text.len() / 2]).unwrap();
                        f.write_all(b"\n\0").unwrap();
                    }
                    1 => f.write_all(b"{\"id\": 5, \"content\": []}\n\0").unwrap(),
                    2 => f.write_all(b"\x01\x02 not json \xff\n\0").unwrap(),
                    _ if last => f.write_all(&text.as_bytes()[..text.len() - 3]).unwrap(),
                    _ => {
                        f.write_all(&text.as_bytes()[..text.len() - 3]).unwrap();
                        f.write_all(b"\0").unwrap();
                    }
                }
            }
            other => panic!("unknown record kind {other}"),
        }
    }
    f.sync_all().ok();
    path.to_string_lossy().to_string()
}

/// records of a shape that are scattered (the good ones before the first bad one)
pub fn accepted_records(shape: &[String]) -> u64 {
    if shape.len() == 1 && shape[0] == "missing" {
        return 0;
    }
    shape.iter().take_while(|k| *k != "bad").filter(|k| *k == "good").count() as u64
}

pub fn status_name(s: i32) -> &'static str {
    match ResponseStatus::try_from(s) {
        Ok(ResponseStatus::Ok) => "ok",
        Ok(ResponseStatus::Failure) => "failure",
        Ok(ResponseStatus::Processing) => "processing",
        Err(_) => "invalid",
    }
}

pub fn worker_response(id: &str, status: &str, msg: &str) -> WorkerResponse {
    WorkerResponse {
        id: id.to_string(),
        status: match status {
            "ok" => ResponseStatus::Ok,
            "failure" => ResponseStatus::Failure,
            _ => ResponseStatus::Processing,
        } as i32,
        message: msg.to_string(),
        content: None,
    }
}

/// Run states of the workers as the hub reports them through ListWorkers: id -> "running"/"stopped"/...
pub fn run_states(resp: &Response) -> Option<Vec<(u32, &'static str)>> {
    let c = resp.content.as_ref()?;
    match c.content_type.as_ref()? {
        ContentType::Workers(ws) => {
            let mut v: Vec<(u32, &'static str)> = ws
                .vec
                .iter()
                .map(|w| {
                    (
                        w.id,
                        match RunState::try_from(w.run_state) {
                            Ok(RunState::Running) => "running",
                            Ok(RunState::Stopping) => "stopping",
                            Ok(RunState::Stopped) => "stopped",
                            Ok(RunState::NotAnswering) => "notanswering",
                            Err(_) => "invalid",
                        },
                    )
                })
                .collect();
            v.sort();
            Some(v)
        }
        _ => None,
    }
}
