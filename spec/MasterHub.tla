------------------------------ MODULE MasterHub ------------------------------
(***************************************************************************)
(* The main process's scatter/gather hub (property C09).                   *)
(*   bin/src/command/server.rs   CommandHub::run, handle_worker_response,  *)
(*                               handle_finishing_task, Server::scatter_on,*)
(*                               handle_worker_close / close_worker        *)
(*   bin/src/command/requests.rs handle_client_request, worker_request,    *)
(*                               query_clusters, load_state, stop and the  *)
(*                               per-kind GatheringTask::on_finish         *)
(*                                                                         *)
(* One action per run-to-completion step of the hub (Hub_x), environment   *)
(* actions separate (Client_x, Worker_x, Tick).  Written to be bound:      *)
(* MasterHubGen.tla restricts the environment to scripted worker           *)
(* behaviours and prints scenarios for harness/replay_hub (S->I);          *)
(* Trace_MasterHub.tla replays recorded runs of a real hub (I->S).         *)
(*                                                                         *)
(* Abstractions.                                                           *)
(*  - A client request r creates at most one task; the task id IS r.       *)
(*    ClientOf(r) is the connection it was sent on; a client sends its     *)
(*    next request only after the final answer of the previous one (the    *)
(*    command protocol has no request ids on answers).                     *)
(*  - Worker request ids are records [w, r, p] (worker, task, part); the   *)
(*    code's "<verb>-<worker>-<task>-<request index>".  A load-state task  *)
(*    scatters Parts requests to every worker (multi-scatter).             *)
(*  - Time: every live task has an age in ticks (capped at T = the worker  *)
(*    timeout); a task with a deadline may be finished as timed out once   *)
(*    age >= T.  `timed` = the task has a deadline at all (Timeout::None   *)
(*    in the code = FALSE).  This is the clock/deadline pair of the code   *)
(*    made finite: deadline - now = T - age.                               *)
(*  - hub -> worker and hub -> client delivery is immediate (the code      *)
(*    queues in the channel and flushes on the next loop turn; nothing in  *)
(*    the property depends on that delay); worker -> hub is a FIFO per     *)
(*    worker that the hub drains one message per step.                     *)
(*                                                                         *)
(* Deviations (constant set): each name switches one branch from "what the *)
(* property needs" to "what the code does".  With Deviations = {} the spec *)
(* satisfies P_C09x; with a name switched on TLC finds the counterexample  *)
(* class of that defect.                                                   *)
(*   TimedOutIgnored   handle_finishing_task passed `false` for timed_out  *)
(*   DupCounted        a duplicate terminal answer is counted again        *)
(*   StopDoubleAnswer  hard stop timing out sends failure AND ok           *)
(*   QueryAlwaysOk     query/status/metrics tasks answer ok regardless     *)
(*   StopAlwaysOk      stop tasks answer ok whatever the workers said      *)
(*   NoTimeoutHang     load-state / soft-stop tasks have no deadline       *)
(*   LoadErrorKeepsTask  a load-state that fails while reading its file    *)
(*                     answers failure but leaves its gathering task queued*)
(*   CloseBeforeRead   a worker's hang-up is handled before the answers it *)
(*                     wrote ahead of it (they are never read)             *)
(*   DeadlineMasked    a live task without deadline hides the deadlines of *)
(*                     the other tasks (the loop sleeps with no time-out)  *)
(*                                                                         *)
(* Load-state files.  A LoadState request names a file; what the hub does  *)
(* depends on its SHAPE, a sequence of record kinds: "good" (parses and    *)
(* the main state accepts it: scattered to every live worker as the next   *)
(* part), "refused" (parses, ConfigState::dispatch refuses it: skipped),   *)
(* "bad" (does not parse: load_state stops there, tells the client         *)
(* failure and cancels the task - what was scattered before stays          *)
(* scattered, the answers to it are answers to an unknown task).  Missing  *)
(* is a path that cannot be opened (immediate failure).  Files is the set  *)
(* of shapes the clients may name.                                         *)
(***************************************************************************)
EXTENDS Integers, Sequences, FiniteSets, TLC

CONSTANTS Workers,      \* set of worker ids, 1..N
          Reqs,         \* set of client request numbers, 1..M
          Verbs,        \* verbs the clients may send (subset of AllVerbs)
          T,            \* worker timeout, in ticks (>= 1)
          Parts,        \* most requests a load-state scatters to every worker (bound of the part numbers)
          FileCodes,    \* the state files a load-state may name, one decimal code per shape (see Files below)
          MaxDup,       \* environment budget: terminal answers beyond the first one per request id (duplicates)
          MaxProc,      \* environment budget: processing notices sent by workers
          MaxQueue,     \* bound on the answers a worker has written that the hub has not read yet
          Deviations

VARIABLES master,   \* "running" | "workersStopping" | "stopping" (run() returned)
          wstate,   \* [Workers -> {"running","stopping","stopped"}]  WorkerSession.run_state
          wopen,    \* [Workers -> BOOLEAN]   environment: the worker's end of the channel is open
          wreq,     \* [Workers -> SUBSET Ids] requests delivered to the worker
          toHub,    \* [Workers -> Seq([id, st])] answers written by the worker, not yet read by the hub
          req,      \* [Reqs -> [st : {"idle","sent","handled"}, verb]]
          tasks,    \* [Reqs -> task record], st = "none" | "live" | "done"
          inFlight, \* SUBSET Ids        Server.in_flight (the task is id.r)
          out,      \* [Reqs -> Seq(status)]  messages sent to ClientOf(r) on behalf of r
          budget,   \* [dup, proc] what is left of the environment budgets
          firstAns  \* [Ids -> first terminal answer the worker gave]   history, for P_C09b

vars == <<master, wstate, wopen, wreq, toHub, req, tasks, inFlight, out, budget, firstAns>>

AllVerbs  == {"worker", "workerBad", "query", "load", "stopHard", "stopSoft"}
StopVerbs == {"stopHard", "stopSoft"}
AllDeviations == {"TimedOutIgnored", "DupCounted", "StopDoubleAnswer", "QueryAlwaysOk", "StopAlwaysOk", "NoTimeoutHang",
                  "LoadErrorKeepsTask", "CloseBeforeRead", "DeadlineMasked"}

ASSUME Verbs \subseteq AllVerbs /\ Deviations \subseteq AllDeviations /\ T >= 1 /\ Parts >= 1 /\ MaxDup \in Nat /\ MaxProc \in Nat

Ids == [w : Workers, r : Reqs, p : 1..Parts]
Id(w, r, p) == [w |-> w, r |-> r, p |-> p]

\* client c sends requests 2c-1 then 2c, one at a time
ClientOf(r) == (r + 1) \div 2
Prev(r) == IF r % 2 = 0 /\ (r - 1) \in Reqs THEN r - 1 ELSE 0

\* ---- state files
RecKinds  == {"good", "refused", "bad"}
Missing   == <<"missing">>
WholeFile == [i \in 1..Parts |-> "good"]
NoFile    == <<>>                                  \* the `file` of a request that is not a load-state
\* index of the first record that does not parse (Len + 1: none)
BadAt(f)    == IF \E i \in 1..Len(f) : f[i] = "bad"
               THEN CHOOSE i \in 1..Len(f) : f[i] = "bad" /\ \A j \in 1..(i - 1) : f[j] # "bad"
               ELSE Len(f) + 1
Damaged(f)  == BadAt(f) <= Len(f)
\* records scattered before load_state stops (or reaches the end of the file)
Accepted(f) == IF f = Missing THEN 0 ELSE Cardinality({i \in 1..(BadAt(f) - 1) : f[i] = "good"})
IsFile(f)   == f = Missing \/ (\A i \in 1..Len(f) : f[i] \in RecKinds)
\* A configuration file cannot hold sequences: a shape is written as a decimal number, one digit per record
\* (1 good, 2 refused, 3 bad), e.g. 113 = two good records then a damaged one; 0 = empty file, 9 = Missing.
RECURSIVE DecodeFile(_)
DecodeFile(c) == IF c = 9 THEN Missing
                 ELSE IF c = 0 THEN <<>>
                 ELSE Append(DecodeFile(c \div 10), CASE c % 10 = 1 -> "good" [] c % 10 = 2 -> "refused" [] OTHER -> "bad")
Files       == {DecodeFile(c) : c \in FileCodes}
FilesOf(v)  == IF v = "load" THEN Files ELSE {NoFile}

ASSUME FileCodes \subseteq Nat /\ \A c \in FileCodes : c = 9 \/ \A k \in 0..8 : (c \div (10^k)) % 10 \in 0..3
ASSUME \A f \in Files : IsFile(f) /\ Accepted(f) <= Parts

NoTask == [st |-> "none", client |-> 0, kind |-> "none", targets |-> {}, nparts |-> 0, expected |-> 0,
           ok |-> 0, errors |-> 0, age |-> 0, timed |-> FALSE]

Final(s) == s \in {"ok", "failure"}
Finals(r) == SelectSeq(out[r], Final)
HasFinal(r) == Len(Finals(r)) > 0
HubUp == master \in {"running", "workersStopping"}

---------------------------------------------------------------------------
Init ==
  /\ master = "running"
  /\ wstate = [w \in Workers |-> "running"]
  /\ wopen = [w \in Workers |-> TRUE]
  /\ wreq = [w \in Workers |-> {}]
  /\ toHub = [w \in Workers |-> <<>>]
  /\ req = [r \in Reqs |-> [st |-> "idle", verb |-> "none", file |-> NoFile]]
  /\ tasks = [r \in Reqs |-> NoTask]
  /\ inFlight = {}
  /\ out = [r \in Reqs |-> <<>>]
  /\ budget = [dup |-> MaxDup, proc |-> MaxProc]
  /\ firstAns = [i \in Ids |-> "none"]

---------------------------------------------------------------------------
(* Environment: clients *)

\* Scope: a stop verb is only sent when nothing else is pending, and nothing is sent once a stop was
\* sent (a stopping main process drops the other sessions; that is not what C09 is about).
Client_Send(r, v, f) ==
  /\ v \in Verbs /\ f \in FilesOf(v)
  /\ req[r].st = "idle"
  /\ Prev(r) # 0 => HasFinal(Prev(r))
  /\ \A q \in Reqs : req[q].st # "idle" => req[q].verb \notin StopVerbs
  /\ v \in StopVerbs => \A q \in Reqs : req[q].st = "idle" \/ HasFinal(q)
  /\ req' = [req EXCEPT ![r] = [st |-> "sent", verb |-> v, file |-> f]]
  /\ UNCHANGED <<master, wstate, wopen, wreq, toHub, tasks, inFlight, out, budget, firstAns>>

---------------------------------------------------------------------------
(* Hub: handle_client_request (requests.rs) including the scatter(s) it performs *)

Targets == {w \in Workers : wstate[w] # "stopped"}            \* scatter_on's filter

\* scatter_on for every part 1..n: one in-flight id per live worker and part, expected += count
\* (n = 0: a task that waits for nobody; has_finished holds at once)
ScatterIds(r, n) == {Id(w, r, p) : w \in Targets, p \in 1..n}
Deliver(ids) == [w \in Workers |-> IF w \in Targets /\ wopen[w] THEN wreq[w] \cup {i \in ids : i.w = w} ELSE wreq[w]]
ScatterOn(r, kind, n, timed) ==
  LET tg == Targets
      ids == ScatterIds(r, n)
  IN /\ tasks' = [tasks EXCEPT ![r] = [st |-> "live", client |-> ClientOf(r), kind |-> kind, targets |-> tg,
                                        nparts |-> n, expected |-> Cardinality(ids), ok |-> 0, errors |-> 0,
                                        age |-> 0, timed |-> timed]]
     /\ inFlight' = inFlight \cup ids
     /\ wreq' = Deliver(ids)

\* load_state's error arm: the records before the damage were scattered, the task is cancelled
\* (Server::cancel_task).  The in-flight ids the code leaves behind point to a task that no longer
\* exists - Hub_HandleWorkerResponse treats that exactly like an unknown id, so they are not kept here.
ScatterCancelled(r, kind, n) ==
  /\ tasks' = [tasks EXCEPT ![r] = [NoTask EXCEPT !.st = "done", !.client = ClientOf(r), !.kind = kind,
                                                  !.targets = Targets, !.nparts = n]]
  /\ wreq' = Deliver(ScatterIds(r, n))
  /\ UNCHANGED inFlight

HasDeadline(kind) == ~(kind \in {"load", "stopSoft"} /\ "NoTimeoutHang" \in Deviations)

Hub_HandleClientRequest(r) ==
  /\ HubUp
  /\ req[r].st = "sent"
  /\ req' = [req EXCEPT ![r].st = "handled"]
  /\ LET v == req[r].verb IN
     CASE v = "workerBad" ->          \* state.dispatch fails: immediate failure, nothing scattered
            /\ out' = [out EXCEPT ![r] = Append(@, "failure")]
            /\ UNCHANGED <<master, tasks, inFlight, wreq>>
       [] v \in {"worker", "query"} ->
            /\ out' = [out EXCEPT ![r] = Append(@, "processing")]
            /\ ScatterOn(r, v, 1, TRUE)
            /\ UNCHANGED master
       [] v = "load" /\ req[r].file = Missing ->      \* File::open fails: immediate failure, no task
            /\ out' = [out EXCEPT ![r] = Append(@, "failure")]
            /\ UNCHANGED <<master, tasks, inFlight, wreq>>
       [] v = "load" /\ req[r].file # Missing /\ ~Damaged(req[r].file) ->
            \* "Parsing state file", scatter_on per accepted record, "Applying state file"
            /\ out' = [out EXCEPT ![r] = @ \o <<"processing", "processing">>]
            /\ ScatterOn(r, v, Accepted(req[r].file), HasDeadline(v))
            /\ UNCHANGED master
       [] v = "load" /\ req[r].file # Missing /\ Damaged(req[r].file) ->
            \* "Parsing state file", scatter_on per record accepted before the damage, failure
            /\ out' = [out EXCEPT ![r] = @ \o <<"processing", "failure">>]
            /\ IF "LoadErrorKeepsTask" \in Deviations
               THEN ScatterOn(r, v, Accepted(req[r].file), HasDeadline(v))
               ELSE ScatterCancelled(r, v, Accepted(req[r].file))
            /\ UNCHANGED master
       [] v \in StopVerbs ->
            /\ out' = [out EXCEPT ![r] = Append(@, "processing")]
            /\ ScatterOn(r, v, 1, HasDeadline(v))
            /\ master' = "workersStopping"
  /\ UNCHANGED <<wstate, wopen, toHub, budget, firstAns>>

---------------------------------------------------------------------------
(* Environment: workers *)

Slow(r) == tasks[r].st # "live" \/ tasks[r].age >= T

Worker_Answer(w, id, st) ==
  /\ wopen[w] /\ id.w = w /\ id \in wreq[w]
  /\ st \in {"ok", "failure", "processing"}
  /\ Len(toHub[w]) < MaxQueue
  /\ st = "processing" => budget.proc > 0
  /\ (st # "processing" /\ firstAns[id] # "none") => budget.dup > 0
  /\ budget' = CASE st = "processing" -> [budget EXCEPT !.proc = @ - 1]
                 [] firstAns[id] # "none" -> [budget EXCEPT !.dup = @ - 1]
                 [] OTHER -> budget
  /\ toHub' = [toHub EXCEPT ![w] = Append(@, [id |-> id, st |-> st])]
  /\ firstAns' = IF st # "processing" /\ firstAns[id] = "none"
                 THEN [firstAns EXCEPT ![id] = IF ~Slow(id.r) THEN st
                                                      ELSE IF st = "ok" THEN "slow_ok" ELSE "slow_failure"]
                 ELSE firstAns
  /\ UNCHANGED <<master, wstate, wopen, wreq, req, tasks, inFlight, out>>

\* a worker that stays silent: nothing happens (listed for the reader; TLC sees a stuttering step)
Worker_Silent(w, id) == id \in wreq[w] /\ UNCHANGED vars

Worker_Close(w) ==
  /\ wopen[w]
  /\ wopen' = [wopen EXCEPT ![w] = FALSE]
  /\ UNCHANGED <<master, wstate, wreq, toHub, req, tasks, inFlight, out, budget, firstAns>>

---------------------------------------------------------------------------
(* Hub: worker side *)

Hub_HandleWorkerResponse(w) ==
  /\ HubUp
  /\ toHub[w] # <<>> /\ wstate[w] # "stopped"          \* a stopped worker's session is never ticked again
  /\ LET m == Head(toHub[w])
         r == m.id.r
     IN /\ toHub' = [toHub EXCEPT ![w] = Tail(@)]
        /\ IF m.id \notin inFlight \/ tasks[r].st # "live"
           THEN UNCHANGED <<tasks, inFlight, out>>           \* "Got a response for an unknown task"
           ELSE CASE m.st = "processing" ->
                       /\ out' = [out EXCEPT ![r] = Append(@, "processing")]
                       /\ UNCHANGED <<tasks, inFlight>>
                  [] OTHER ->
                       /\ tasks' = IF m.st = "ok" THEN [tasks EXCEPT ![r].ok = @ + 1]
                                                  ELSE [tasks EXCEPT ![r].errors = @ + 1]
                       \* a terminal answer retires its in-flight id, so a duplicate is "unknown"
                       /\ inFlight' = IF "DupCounted" \in Deviations THEN inFlight ELSE inFlight \ {m.id}
                       /\ UNCHANGED out
  /\ UNCHANGED <<master, wstate, wopen, wreq, req, budget, firstAns>>

\* WorkerSession::ready returns CloseSession only when no response is left to read: an answer and the
\* hang-up that follows it may well arrive in one poll turn, the answer is handled first.
\* (CloseBeforeRead: the hang-up wins; a stopped worker is never read again, toHub[w] stays for ever.)
Hub_HandleWorkerClose(w) ==
  /\ HubUp
  /\ ~wopen[w] /\ wstate[w] # "stopped"
  /\ toHub[w] = <<>> \/ "CloseBeforeRead" \in Deviations
  /\ wstate' = [wstate EXCEPT ![w] = "stopped"]
  /\ UNCHANGED <<master, wopen, wreq, toHub, req, tasks, inFlight, out, budget, firstAns>>

---------------------------------------------------------------------------
(* Time *)

Tick(d) ==
  /\ d \in 1..T
  /\ \E r \in Reqs : tasks[r].st = "live" /\ tasks[r].age < T
  /\ tasks' = [r \in Reqs |-> IF tasks[r].st = "live"
                              THEN [tasks[r] EXCEPT !.age = IF @ + d > T THEN T ELSE @ + d]
                              ELSE tasks[r]]
  /\ UNCHANGED <<master, wstate, wopen, wreq, toHub, req, inFlight, out, budget, firstAns>>

---------------------------------------------------------------------------
(* Hub: the run loop's finishing pass + handle_finishing_task + per-kind on_finish *)

HasFinished(t) == t.ok + t.errors >= t.expected

\* what on_finish tells the client, as a sequence of final statuses
OnFinish(t, timedOut) ==
  LET tout   == IF "TimedOutIgnored" \in Deviations THEN FALSE ELSE timedOut
      failed == t.errors > 0 \/ tout
  IN CASE t.kind \in {"worker", "load"} -> IF failed THEN <<"failure">> ELSE <<"ok">>
       [] t.kind = "query" -> IF "QueryAlwaysOk" \in Deviations THEN <<"ok">>
                              ELSE IF failed THEN <<"failure">> ELSE <<"ok">>
       [] t.kind \in StopVerbs ->
            IF tout /\ t.kind = "stopHard"              \* the one failure StopTask::on_finish knows
            THEN IF "StopDoubleAnswer" \in Deviations THEN <<"failure", "ok">> ELSE <<"failure">>
            ELSE IF "StopAlwaysOk" \in Deviations THEN <<"ok">>
            ELSE IF failed THEN <<"failure">> ELSE <<"ok">>

Hub_FinishTask(r, timedOut) ==
  /\ HubUp
  /\ tasks[r].st = "live"
  /\ timedOut = ~HasFinished(tasks[r])                    \* has_finished is tested first
  /\ timedOut => tasks[r].timed /\ tasks[r].age >= T
  \* every deadline fires by itself, whatever else is pending: the loop sleeps until the EARLIEST deadline
  \* of the tasks that have one.  (DeadlineMasked: one live task without deadline and the loop sleeps
  \* without time-out; nothing wakes it on a quiet socket.)
  /\ (timedOut /\ "DeadlineMasked" \in Deviations) => \A q \in Reqs : tasks[q].st = "live" => tasks[q].timed
  /\ out' = [out EXCEPT ![r] = @ \o OnFinish(tasks[r], timedOut)]
  \* the task is dropped; only what the properties refer to is kept (client, kind, targets)
  /\ tasks' = [tasks EXCEPT ![r] = [@ EXCEPT !.st = "done", !.expected = 0, !.ok = 0, !.errors = 0, !.age = 0,
                                               !.timed = FALSE]]
  /\ inFlight' = {i \in inFlight : i.r # r}
  /\ master' = IF tasks[r].kind \in StopVerbs THEN "stopping" ELSE master
  /\ UNCHANGED <<wstate, wopen, wreq, toHub, req, budget, firstAns>>

---------------------------------------------------------------------------
HubNext ==
  \/ \E r \in Reqs : Hub_HandleClientRequest(r)
  \/ \E w \in Workers : Hub_HandleWorkerResponse(w) \/ Hub_HandleWorkerClose(w)
  \/ \E r \in Reqs, b \in BOOLEAN : Hub_FinishTask(r, b)

EnvNext ==
  \/ \E r \in Reqs, v \in Verbs : \E f \in FilesOf(v) : Client_Send(r, v, f)
  \/ \E w \in Workers : Worker_Close(w)
  \/ \E w \in Workers, id \in Ids, st \in {"ok", "failure", "processing"} : Worker_Answer(w, id, st)
  \/ \E d \in 1..T : Tick(d)

Next == HubNext \/ EnvNext

Spec == Init /\ [][Next]_vars

\* the hub keeps turning and time keeps passing; no fairness for clients and workers
FairSpec == /\ Spec
            /\ WF_vars(\E d \in 1..T : Tick(d))
            /\ \A r \in Reqs : WF_vars(Hub_HandleClientRequest(r)) /\ WF_vars(\E b \in BOOLEAN : Hub_FinishTask(r, b))
            /\ \A w \in Workers : WF_vars(Hub_HandleWorkerResponse(w)) /\ WF_vars(Hub_HandleWorkerClose(w))

---------------------------------------------------------------------------
(* Properties (C09) *)

Statuses == {"ok", "failure", "processing"}
TypeOK ==
  /\ master \in {"running", "workersStopping", "stopping"}
  /\ wstate \in [Workers -> {"running", "stopping", "stopped"}]
  /\ wopen \in [Workers -> BOOLEAN]
  /\ \A w \in Workers : wreq[w] \subseteq Ids /\ \A i \in wreq[w] : i.w = w
  /\ \A r \in Reqs : req[r].st \in {"idle", "sent", "handled"} /\ req[r].verb \in AllVerbs \cup {"none"}
                     /\ req[r].file \in Files \cup {NoFile}
  /\ \A r \in Reqs : /\ tasks[r].st \in {"none", "live", "done"}
                     /\ tasks[r].age \in 0..T
                     /\ tasks[r].targets \subseteq Workers
                     /\ tasks[r].nparts \in 0..Parts
  /\ inFlight \subseteq Ids
  /\ \A r \in Reqs : \A i \in 1..Len(out[r]) : out[r][i] \in Statuses

\* (a) at most one final answer per request and nothing after it
P_C09a_AtMostOneFinal ==
  \A r \in Reqs : Len(Finals(r)) <= 1 /\ (HasFinal(r) => Final(out[r][Len(out[r])]))

\* (b) final ok => every worker that was targeted (alive at dispatch) acknowledged every part with ok
P_C09b_OkMeansAllAcked ==
  \A r \in Reqs :
    (HasFinal(r) /\ Finals(r)[1] = "ok" /\ tasks[r].st # "none") =>
      \A w \in tasks[r].targets, p \in 1..tasks[r].nparts : firstAns[Id(w, r, p)] \in {"ok", "slow_ok"}

\* (c) liveness: every request that was sent gets its final answer (checked under FairSpec)
P_C09c_EveryRequestAnswered == \A r \in Reqs : (req[r].st = "sent") ~> HasFinal(r)

\* (c') the same for the requests whose task has a deadline: holds even under NoTimeoutHang, which excuses
\* only the task without deadline itself - never the deadlines of the tasks pending beside it
P_C09c_DeadlinedAnswered == \A r \in Reqs : (req[r].st = "sent" /\ HasDeadline(req[r].verb)) ~> HasFinal(r)

\* (f) the hub never gives up a worker while answers that worker wrote are unread
P_C09f_NoAnswerDropped == \A w \in Workers : wstate[w] = "stopped" => toHub[w] = <<>>

\* (d) answers go to the client that asked
P_C09d_RightClient == \A r \in Reqs : tasks[r].st # "none" => tasks[r].client = ClientOf(r)

\* (e) no in-flight entry for a finished (or never created) task
P_C09e_NoStaleInFlight == \A i \in inFlight : tasks[i.r].st = "live"

\* a request never gets an answer before it was handled, nor a final while its task is live
P_C09_AnswersFollowTasks ==
  \A r \in Reqs : /\ req[r].st # "handled" => out[r] = <<>>
                  /\ tasks[r].st = "live" => ~HasFinal(r)

P_C09 == P_C09a_AtMostOneFinal /\ P_C09b_OkMeansAllAcked /\ P_C09d_RightClient /\ P_C09e_NoStaleInFlight
         /\ P_C09f_NoAnswerDropped /\ P_C09_AnswersFollowTasks
=============================================================================
