"""C12, health part - WHEN a backend is marked unhealthy / healthy again (spec/HealthCheck.tla).

Called by tools/props/c12.py (start() right after its cargo build, finish() before its Report is closed); the
three legs run in background threads next to the C12 legs and are merged into the same Report / evidence.

1. model:  TLC checks P_C12h_* on small exhaustive instances of HealthCheck.tla (hysteresis exact per backend, a
           result credited once and only to the backend it was sent to, one probe in flight per backend, stale probes
           dropped, no health check => every backend eligible, timeouts bounded) and the two liveness properties under
           fairness; every named deviation (the behaviour of the code before its repairs) must still produce a
           counterexample.
2. I->S:   harness/drive_health runs real sozu workers with scripted mock backends (scenarios + seeded random
           schedules); the trace - ordered by the worker thread's own cfg(sozu_verif) hook events - is validated by
           TLC against spec/Trace_HealthCheck.tla; two corrupted copies must be rejected at the corrupted event.
3. S->I:   spec/Gen_HealthCheck.tla makes TLC print random schedules with the predicted state after every step;
           harness/replay_health executes them on a real HealthChecker + BackendMap + mio::Poll with a real clock.
"""
import json
import os
import threading
import time

import vlib

PID = "C12"
BINS = ["drive_health", "replay_health"]
ALL_DEVIATIONS = ["CreditByAddress", "RemoveKeepsHealth", "AddClusterKeepsProbes"]
SAFETY = ("TypeOK P_C12h_OneInFlight P_C12h_Consecutive P_C12h_StaleDropped P_C12h_NoCfgAllEligible "
          "P_C12h_TimeoutBound")
ACTION_PROPS = "P_C12h_Step P_C12h_DownOnlyAtThreshold P_C12h_UpOnlyAtThreshold P_C12h_CreditedOnce"

MC_CFG = """SPECIFICATION %(spec)s
CONSTANTS
  Clusters = %(clusters)s
  Slots <- %(slots)s
  Configs <- %(configs)s
  Modes = %(modes)s
  Unroutable = %(unroutable)s
  MaxPids = %(pids)d
  Grace = 1
  HCap = %(hcap)d
  MaxEnv %(maxenv)s
  MaxCfg %(maxcfg)s
  Deviations = %(dev)s
%(view)s
INVARIANTS %(invs)s
PROPERTIES %(props)s
CHECK_DEADLOCK FALSE
"""

GEN_CFG = """SPECIFICATION GenSpec
CONSTANTS
  Clusters = {"c1", "c2"}
  Slots <- GenSlots
  Configs <- MCConfigs3
  Modes = {"s200", "s204", "s500", "close", "stall", "refuse"}
  Unroutable = {3}
  MaxPids = 8
  Grace = 1
  HCap = 3
  MaxEnv <- Unlimited
  MaxCfg <- Unlimited
  Deviations = %(dev)s
  MaxSteps = %(steps)d
INVARIANTS EmitHist
CHECK_DEADLOCK FALSE
"""

TRACE_CFG = """SPECIFICATION TraceSpec
CONSTANTS
  Clusters = {"c1", "c2"}
  Slots <- TraceSlots
  Configs <- TraceConfigs
  Modes = {"any"}
  Unroutable = {4}
  MaxPids = 16
  Grace = 3
  HCap = 1000000
  MaxEnv <- Unlimited
  MaxCfg <- Unlimited
  Deviations = %(dev)s
CONSTRAINT Track
INVARIANTS %(invs)s
POSTCONDITION TraceAccepted
CHECK_DEADLOCK FALSE
"""

# deadline-type invariants of the trace check: the first two on the harness clock (4 x value + 3 s), the last one in
# ticks of the checker's own clock (timeout + 3 ticks); inconclusive when the machine was overloaded
DEADLINES = ("P_C12h_T_ProbeEnds", "P_C12h_T_Probed", "P_C12h_TimeoutBound")


def tla_set(xs):
    return "{" + ", ".join('"%s"' % x for x in xs) + "}"


def write(wd, name, text):
    path = os.path.join(wd, name)
    with open(path, "w") as f:
        f.write(text)
    return path


def mc_cfg(wd, name, slots, configs, dev=(), modes=("any",), unroutable="{}", pids=2, clusters=("c1",), spec="Spec",
           maxenv="<- Unlimited", maxcfg="<- Unlimited", invs=SAFETY, props=ACTION_PROPS, view=True, hcap=2):
    return write(wd, name, MC_CFG % {
        "spec": spec, "clusters": tla_set(clusters), "slots": slots, "configs": configs, "modes": tla_set(modes),
        "unroutable": unroutable, "pids": pids, "hcap": hcap, "maxenv": maxenv, "maxcfg": maxcfg, "dev": tla_set(dev),
        "view": "VIEW view" if view else "", "invs": invs, "props": props})


class Legs:
    """Results of the three legs, filled by the background threads."""

    def __init__(self, tier, wd, bins, devs):
        self.tier = tier
        self.wd = wd
        self.bins = bins
        self.devs = devs
        self.tlc = []            # TLC results to add to the Report
        self.violations = []     # (class, description, replay object, file name)
        self.extra = {}
        self.samples = []
        self.traces = 0
        self.sim_states = 0
        self.errors = []         # ToolError messages of the threads
        self.threads = []
        self.lock = threading.Lock()
        self.t0 = time.time()
        self.rule = ""

    def violation(self, klass, desc, obj, name):
        with self.lock:
            self.violations.append((klass, desc, obj, name))


def _guard(legs, fn, label):
    def run():
        t = time.time()
        try:
            fn(legs)
        except vlib.ToolError as e:
            legs.errors.append("%s: %s" % (label, e))
        except Exception as e:  # a crash of the orchestration is a tool error, never a silent pass
            legs.errors.append("%s: %s: %s" % (label, type(e).__name__, e))
        legs.extra["health_%s_wall_s" % label] = round(time.time() - t, 1)
    return run


# ------------------------------------------------------------------------------------------ leg 1: model

def leg_model(legs):
    wd, thorough = legs.wd, legs.tier == "thorough"
    workers = 8 if thorough else 4
    runs = [
        # (name, cfg) - one backend, two configurations (thresholds 2/2 and 1/1, timeout = and > interval)
        ("h_one", mc_cfg(wd, "h_one.cfg", "MCSlots1", "MCConfigs", pids=1)),
        # two backends at one address: whom a result is credited to (thresholds 1/1 in the quick tier)
        ("h_same", mc_cfg(wd, "h_same.cfg", "MCSlotsSame", "MCConfigs1") if thorough
         else mc_cfg(wd, "h_same.cfg", "MCSlotsSame", "MCConfigsMin", hcap=1)),
    ]
    if thorough:
        runs += [
            ("h_two", mc_cfg(wd, "h_two.cfg", "MCSlots2", "MCConfigs", unroutable="{2}")),
            ("h_two_real", mc_cfg(wd, "h_two_real.cfg", "MCSlots2", "MCConfigs1")),
            ("h_clusters", mc_cfg(wd, "h_clusters.cfg", "MCSlots1", "MCConfigs1", clusters=("c1", "c2"), pids=2)),
            ("h_sameid", mc_cfg(wd, "h_sameid.cfg", "MCSlotsSameId", "MCConfigsMin", hcap=1)),
        ]
    states = 0
    for name, cfg in runs:
        r = vlib.tlc("MC_HealthCheck", cfg, PID, workers=workers, timeout=3000 if thorough else 300,
                     xmx="6g" if thorough else "4g")
        legs.tlc.append(r)
        states += r["distinct"]
        if r["violated"]:
            legs.violation("spec-health:" + r["violated"], "HealthCheck.tla itself violates %s (%s)" % (r["violated"], name),
                           r["out"], "health_spec_%s.txt" % name)
    # random long behaviours of a larger instance (two clusters, three backends, all server modes)
    sim = vlib.tlc("MC_HealthCheck", mc_cfg(wd, "h_sim.cfg", "MCSlots3", "MCConfigs3", clusters=("c1", "c2"), pids=6,
                                            modes=("s200", "s204", "s500", "close", "stall", "refuse"), unroutable="{2}",
                                            view=False),
                   PID, workers=workers, timeout=900, simulate="num=%d" % (2000 if thorough else 150), depth=120)
    import re
    m = re.search(r"The number of states generated: (\d+)", sim["out"])
    legs.sim_states += int(m.group(1)) if m else 0
    if sim["violated"]:
        legs.violation("spec-health:" + sim["violated"], "HealthCheck.tla itself violates %s (simulation)" % sim["violated"],
                       sim["out"], "health_spec_sim.txt")
    # liveness under fairness
    live = vlib.tlc("MC_HealthCheck", mc_cfg(
        wd, "h_live.cfg", "MCSlots2" if thorough else "MCSlots1", "MCConfigs1", spec="FairSpec",
        modes=("s200", "s500", "stall", "refuse"), pids=2 if thorough else 1, maxenv="= 1", maxcfg="= %d" % (4 if thorough else 3),
        invs="TypeOK", props="P_C12h_EventuallyHealthy P_C12h_EventuallyUnhealthy", view=False),
        PID, workers=workers, timeout=3000 if thorough else 300)
    legs.tlc.append(live)
    states += live["distinct"]
    if live["violated"]:
        legs.violation("spec-health:" + live["violated"], "HealthCheck.tla violates the liveness property %s" % live["violated"],
                       live["out"], "health_spec_live.txt")
    # the switchable pre-repair behaviours must still break the properties in the model
    broke = {}
    for d, slots, configs, pids in (("CreditByAddress", "MCSlotsSame", "MCConfigs1", 2),
                                    ("RemoveKeepsHealth", "MCSlots1", "MCConfigs1", 1),
                                    ("AddClusterKeepsProbes", "MCSlots1", "MCConfigsUth1", 1)):
        rd = vlib.tlc("MC_HealthCheck", mc_cfg(wd, "h_dev_%s.cfg" % d, slots, configs, dev=[d], pids=pids), PID,
                      workers=workers, timeout=300)
        legs.tlc.append(rd)
        if not rd["violated"]:
            raise vlib.ToolError("deviation %s no longer violates P_C12h in the model" % d)
        broke[d] = rd["violated"]
    legs.extra["health_model_states"] = states
    legs.extra["health_deviation_counterexamples"] = broke
    legs.rule_model = "%d distinct states over %d exhaustive instances of HealthCheck.tla" % (states, len(runs) + 1)


# ------------------------------------------------------------------------------------------ leg 2: I->S

def trace_cfg(wd, name, devs, deadlines=True):
    invs = ["TypeOK", "P_C12h_OneInFlight", "P_C12h_Consecutive"]
    if "AddClusterKeepsProbes" not in devs:
        invs.append("P_C12h_StaleDropped")
    if not ({"AddClusterKeepsProbes", "RemoveKeepsHealth"} & set(devs)):
        invs.append("P_C12h_NoCfgAllEligible")
    if deadlines:
        invs += list(DEADLINES)
    return write(wd, name, TRACE_CFG % {"dev": tla_set(devs), "invs": " ".join(invs)})


def segment_of(trace_path, index):
    """The run (reset .. event `index`, 0-based) that contains event `index`, as ndjson text + that event."""
    with open(trace_path) as f:
        lines = f.readlines()
    if not lines:
        return "", {}
    index = min(index, len(lines) - 1)
    if index > 0 and '"ev":"reset"' in lines[index]:
        index -= 1          # (the next run's first line: stay in the run that was being validated)
    start = index
    while start > 0 and '"ev":"reset"' not in lines[start]:
        start -= 1
    return "".join(lines[start:index + 1]), json.loads(lines[index])


def judge_trace(legs, r, trace, overloaded, name):
    """Turn a TLC verdict on a recorded trace into nothing / a violation / a tool error."""
    if r["accepted"]:
        return True
    if r["violated"] in DEADLINES and overloaded:
        raise vlib.ToolError("inconclusive: deadline %s missed while the machine was overloaded" % r["violated"])
    consumed = r["consumed"]
    if consumed is None:
        # an invariant violation ends the run before the postcondition prints: the violating state carries l
        import re
        ls = re.findall(r"^/\\ l = (\d+)", r["out"], re.M)
        consumed = int(ls[-1]) if ls else 0
    if r["violated"]:
        # an invariant: TLC stops at the violating state, the offending event is the last one consumed
        # (the segment keeps one more event so that the violating state is certainly reached on re-validation)
        seg, _ = segment_of(trace, consumed)
        consumed = max(consumed - 1, 0)
        _, ev = segment_of(trace, consumed)
        klass = "trace-health:invariant:%s" % r["violated"]
        why = "invariant %s violated after the event" % r["violated"]
    else:
        seg, ev = segment_of(trace, consumed)
        klass = "trace-health:rejected:%s" % ev.get("ev", "?")
        why = "no action of HealthCheck.tla explains the event (outcome, credited backend or health record differs from the specification)"
    legs.violation(klass, "event %d of the recorded worker history: %s: %s" % (consumed + 1, json.dumps(ev)[:200], why), seg, name)
    return False


def leg_trace(legs):
    wd, thorough = legs.wd, legs.tier == "thorough"
    trace = os.path.join(wd, "health_trace.ndjson")
    runs, secs = (28, 40) if thorough else (12, 13)
    out = vlib.run_harness(legs.bins["drive_health"], ["--seed", str(vlib.seed()), "--runs", str(runs), "--threads", str(runs),
                                                        "--secs", str(secs), "--out", trace], timeout=1500)
    summ = [o for o in out if o.get("kind") == "summary"]
    if not summ:
        raise vlib.ToolError("drive_health produced no summary")
    summ = summ[0]
    if not summ.get("hooked"):
        raise vlib.ToolError("drive_health: the tree has no hc_* hooks")
    for v in out:
        if v.get("kind") == "violation":
            legs.violation(v["class"], "run %s: the worker thread panicked: %s" % (v["detail"]["run"], v["detail"]["panic"][:200]),
                           v, "health_panic_run_%s.json" % v["detail"]["run"])
    counts = summ["counts"]
    if counts.get("stray", 0) or counts.get("harness_panic", 0) or counts.get("setup_failed", 0):
        raise vlib.ToolError("drive_health: malformed recording (%s)" % {k: counts.get(k, 0) for k in ("stray", "harness_panic", "setup_failed")})
    need = ["ev_round", "ev_req", "ev_tick", "done_ok_200", "done_fail_500", "done_timeout", "cmd_SetHealthCheck",
            "cmd_RemoveHealthCheck", "cmd_AddClusterNoHc", "cmd_RemoveCluster", "cmd_AddBackend", "cmd_RemoveBackend"]
    missing = [k for k in need if counts.get(k, 0) == 0]
    overloaded = summ["worst_stall_ms"] > 400
    legs.samples += summ["samples"][:2]
    legs.extra["health_trace_events"] = summ["events"]
    legs.extra["health_trace_counts"] = counts
    legs.extra["health_trace_worst_stall_ms"] = summ["worst_stall_ms"]
    r = vlib.tlc_trace("Trace_HealthCheck", trace_cfg(wd, "h_trace.cfg", legs.devs), PID, trace, timeout=1500)
    legs.tlc.append(r)
    legs.trace_runs = 0
    if judge_trace(legs, r, trace, overloaded, "health_rejected_trace.ndjson"):
        # (a rejected trace is a verdict; only an accepted one can be vacuous)
        if missing:
            raise vlib.ToolError("vacuous drive_health run: never recorded: %s" % missing)
        legs.traces += summ["runs"]
        legs.trace_runs = summ["runs"]
        # self-test of the binding: corrupted copies must be rejected exactly at the corrupted event
        with open(trace) as f:
            evs = [json.loads(l) for l in f]
        done = 0
        for canary, mutate in (("flip", _corrupt_health), ("served", _corrupt_served), ("double", _corrupt_double_probe)):
            bad, at = mutate([dict(e) for e in evs])
            if at is None:
                if canary == "served":
                    continue  # needs an unhealthy backend next to a healthy one while requests flow
                raise vlib.ToolError("health canary %s: nothing to corrupt" % canary)
            cpath = os.path.join(wd, "health_canary_%s.ndjson" % canary)
            with open(cpath, "w") as f:
                for e in bad[:at + 1]:
                    f.write(json.dumps(e) + "\n")
            rc = vlib.tlc_trace("Trace_HealthCheck", trace_cfg(wd, "h_canary.cfg", legs.devs, deadlines=False), PID, cpath, timeout=600)
            if rc["accepted"] or rc["consumed"] != at:
                raise vlib.ToolError("health canary %s: corrupted event %d not rejected there (accepted=%s consumed=%s)"
                                     % (canary, at, rc["accepted"], rc["consumed"]))
            done += 1
        legs.extra["health_canaries_rejected"] = done


def _corrupt_health(evs):
    """A probe result that leaves the backend healthy although the specification marks it down (or the reverse)."""
    for i, e in enumerate(evs):
        if e.get("ev") == "done" and e.get("credited") and i > 10:
            e["h"] = not e["h"]
            return evs, i
    return evs, None


def _corrupt_served(evs):
    """A request served from an address whose backends were all unhealthy, next to a healthy one, in every state of
    its window (only in runs without refusing / unroutable servers: no fail-open excuse)."""
    health, since_change, skip = {}, 0, True
    for i, e in enumerate(evs):
        ev = e.get("ev")
        if ev == "reset":
            health, since_change, skip = {}, 0, e.get("unroutable", 0) != 0
        elif ev == "mode" and e["m"] == "refuse":
            skip = True
        elif ev == "cmd":
            c = e["c"]
            if e["op"] == "AddBackend":
                health.setdefault(c, {}).setdefault((e["id"], e["addr"]), True)
            elif e["op"] == "RemoveBackend":
                health[c] = {k: v for k, v in health.get(c, {}).items() if k[1] != e["addr"]}
            elif e["op"] in ("RemoveHealthCheck", "RemoveCluster", "AddClusterNoHc"):
                health[c] = {k: True for k in health.get(c, {})}
            since_change = 0
        elif ev == "done":
            if e.get("credited"):
                health.setdefault(e["c"], {})[(e["cid"], e["caddr"])] = e["h"]
            since_change = 0
        elif ev == "round":
            for r in e["imm"]:
                if r.get("credited"):
                    health.setdefault(e["c"], {})[(r["cid"], r["caddr"])] = r["h"]
            since_change = 0
        elif ev == "req":
            hs = health.get(e["c"], {})
            up = {a for (_, a), h in hs.items() if h}
            down = {a for (_, a), h in hs.items() if not h} - up
            # two earlier requests since the last change: this one was sent after that change had been recorded
            if not skip and down and up and since_change >= 2 and e["served"] in up:
                e["served"] = sorted(down)[0]
                return evs, i
            since_change += 1
    return evs, None


def _corrupt_double_probe(evs):
    """A round that starts a second probe for a backend that still has one in flight."""
    inflight = {}
    for i, e in enumerate(evs):
        ev = e.get("ev")
        if ev == "reset":
            inflight = {}
        elif ev == "round":
            if inflight and i > 10:
                tok, (c, pid, addr) = sorted(inflight.items())[0]
                if c == e["c"]:
                    e["probes"] = e["probes"] + [{"id": pid, "addr": addr, "tok": tok + 4096}]
                    return evs, i
            for p in e["probes"]:
                inflight[p["tok"]] = (e["c"], p["id"], p["addr"])
        elif ev == "done":
            inflight.pop(e["tok"], None)
        elif ev == "cmd" and e["op"] in ("RemoveHealthCheck", "RemoveCluster", "AddClusterNoHc"):
            inflight = {t: v for t, v in inflight.items() if v[0] != e["c"]}
    return evs, None


# ------------------------------------------------------------------------------------------ leg 3: S->I

def generate(legs, n_hist, steps, name):
    beh = os.path.join(legs.wd, name)
    gen_workers = 4
    with open(beh, "w") as f:
        g = vlib.tlc("Gen_HealthCheck", write(legs.wd, name.replace(".ndjson", ".cfg"), GEN_CFG % {"steps": steps, "dev": tla_set(legs.devs)}),
                     PID, workers=gen_workers, timeout=900, simulate="num=%d" % max(1, n_hist // gen_workers), depth=40 * steps,
                     want_replay=True, replay_sink=lambda o: f.write(json.dumps(o) + "\n"))
    import re
    m = re.search(r"The number of states generated: (\d+)", g["out"])
    legs.sim_states += int(m.group(1)) if m else 0
    if g["violated"] or g["n_replays"] == 0:
        raise vlib.ToolError("Gen_HealthCheck run failed: violated=%s schedules=%d" % (g["violated"], g["n_replays"]))
    return beh, g["n_replays"]


def replay_once(legs, beh, label):
    out = vlib.run_harness(legs.bins["replay_health"], ["--seed", str(vlib.seed()), "--threads", "240", "--hcap", "3"],
                           stdin_path=beh, timeout=1500)
    summ = [o for o in out if o.get("kind") == "summary"]
    if not summ:
        raise vlib.ToolError("replay_health produced no summary")
    return out, summ[0]


def leg_replay(legs):
    thorough = legs.tier == "thorough"
    beh, n = generate(legs, 640 if thorough else 160, 22 if thorough else 16, "health_behaviours.ndjson")
    legs.replay_input = (beh, n)
    out, summ = replay_once(legs, beh, "first")
    legs.replay_result = (out, summ)


def settle_replay(legs):
    """Judge the replay leg (after the other legs are done: a retry then runs on a quieter machine)."""
    if not hasattr(legs, "replay_result"):
        return
    out, summ = legs.replay_result
    beh, n = legs.replay_input
    found = any(v.get("kind") == "violation" for v in out)
    if not found and summ["inconclusive"] * 10 > max(1, summ["histories"]):
        vlib.log("replay_health: %d of %d schedules inconclusive (%s): retrying once" % (summ["inconclusive"], summ["histories"], summ["first_inconclusive"][:120]))
        out, summ = replay_once(legs, beh, "retry")
        if not any(v.get("kind") == "violation" for v in out) and summ["inconclusive"] * 10 > max(1, summ["histories"]):
            raise vlib.ToolError("inconclusive: replay_health could not keep its clock on this machine (%d of %d schedules: %s)"
                                 % (summ["inconclusive"], summ["histories"], summ["first_inconclusive"][:200]))
    if not summ.get("hooked"):
        raise vlib.ToolError("replay_health: the tree has no hc_* hooks")
    counts = summ["counts"]
    need = ["probes_started", "result_ok", "result_fail", "flip_up", "flip_down", "tick", "srv_answer", "srv_partial", "srv_close",
            "cfg_SetHealthCheck", "cfg_RemoveHealthCheck", "cfg_AddClusterNoHc", "cfg_RemoveCluster", "cfg_AddBackend", "cfg_RemoveBackend"]
    missing = [k for k in need if counts.get(k, 0) == 0]
    if missing and not any(v.get("kind") == "violation" for v in out):
        raise vlib.ToolError("vacuous replay_health run: never exercised: %s" % missing)
    for v in out:
        if v.get("kind") == "violation":
            b = v["detail"].get("behaviour", 0)
            line = None
            with open(beh) as f:
                for i, l in enumerate(f, 1):
                    if i == b:
                        line = l
            legs.violation(v["class"].replace("replay:", "replay-health:"), "schedule %d step %d: %s" % (b, v["detail"].get("step", 0), v["detail"]["what"][:300]),
                           line or v, "health_behaviour_%d.ndjson" % b)
    legs.traces += summ["completed"]
    legs.samples += summ["samples"][:2]
    legs.extra["health_replay_schedules"] = summ["completed"]
    legs.extra["health_replay_inconclusive"] = summ["inconclusive"]
    legs.extra["health_replay_counts"] = counts
    legs.extra["health_replay_distinct_combinations"] = summ["distinct_combinations"]
    legs.extra["health_replay_worst_drift_ms"] = summ["worst_drift_ms"]


# ------------------------------------------------------------------------------------------ entry points

def start(tier, devs=None):
    """Build the binaries and start the three legs in the background. `devs`: open deviations of C12 (only the
    health ones matter here; none is open at the moment)."""
    wd = os.path.join(vlib.workdir(PID, clean=False), "health")
    os.makedirs(wd, exist_ok=True)
    bins = vlib.cargo_build(BINS)
    hdevs = [d for d in (devs or []) if d in ALL_DEVIATIONS]
    legs = Legs(tier, wd, bins, hdevs)
    for label, fn in (("trace", leg_trace), ("replay", leg_replay), ("model", leg_model)):
        t = threading.Thread(target=_guard(legs, fn, label), name="c12h-" + label, daemon=True)
        t.start()
        legs.threads.append(t)
    return legs


def finish(legs, rep):
    """Wait for the legs and merge them into the C12 report. Returns a sentence for the coverage rule."""
    for t in legs.threads:
        t.join()
    try:
        settle_replay(legs)
    except vlib.ToolError as e:
        legs.errors.append("replay: %s" % e)
    for r in legs.tlc:
        rep.add_tlc(r)
    rep.cov["transitions"] += legs.sim_states
    for klass, desc, obj, name in legs.violations:
        rep.violation(klass, desc, obj, name=name)
    rep.extra.update(legs.extra)
    rep.extra["health_wall_s"] = round(time.time() - legs.t0, 1)
    rep.add_samples(legs.samples, 3)
    rep.cov["traces_validated_against_impl"] += legs.traces
    if legs.errors and not legs.violations:
        raise vlib.ToolError("health legs: " + " | ".join(legs.errors))
    rep.assumptions += [
        "health checker: the worker-level trace is ordered by the worker thread's own cfg(sozu_verif) hook events; what a mock server did is joined by the probe connection's port, a client request by the hook-stream positions read before it was sent and after its answer arrived (the backend was selected in a state in between), never by wall-clock order",
        "health checker: connection back-off is not observed; a request served by an unhealthy backend is accepted whenever every healthy backend of the cluster is at an address whose server refused connections earlier in the run (fail-open may then apply)",
        "health checker: replay_health applies configuration commands to BackendMap / HealthChecker the way lib/src/server.rs does (the worker-level leg exercises the real handlers); one tick = a real 1.4 s sleep, schedules whose polls ran more than 150 ms late are inconclusive; HTTP/1.1 probes only (no h2c probe), the UDP health prober is not covered",
    ]
    return ("; health checker (HealthCheck.tla): %s, %d worker runs (%d trace events) accepted by TLC, %d TLC-generated "
            "schedules replayed on a real HealthChecker"
            % (getattr(legs, "rule_model", "model leg incomplete"), getattr(legs, "trace_runs", 0),
               legs.extra.get("health_trace_events", 0), legs.extra.get("health_replay_schedules", 0)))


def handles(path):
    """Is `path` a replay file of the health legs?"""
    try:
        with open(path) as f:
            head = f.read(2000)
    except OSError:
        return False
    if head.startswith("["):
        return '"op": "init"' in head or '"op":"init"' in head
    return '"unroutable"' in head and '"ev"' in head


def run_replay(rep, path, devs):
    """./check C12 --replay <file of the health legs>: a recorded trace segment is re-validated by TLC, a generated
    schedule is re-executed by replay_health."""
    wd = os.path.join(vlib.workdir(PID, clean=False), "health")
    os.makedirs(wd, exist_ok=True)
    hdevs = [d for d in devs if d in ALL_DEVIATIONS]
    legs = Legs("quick", wd, vlib.cargo_build(BINS), hdevs)
    with open(path) as f:
        first = f.read(1)
    if first == "[":
        out, summ = replay_once(legs, path, "replay")
        for v in out:
            if v.get("kind") == "violation":
                rep.violation(v["class"].replace("replay:", "replay-health:"), v["detail"]["what"][:300], v)
        if summ["inconclusive"]:
            raise vlib.ToolError("inconclusive: %s" % summ["first_inconclusive"])
        rep.cov["traces_validated_against_impl"] = summ["completed"]
    else:
        r = vlib.tlc_trace("Trace_HealthCheck", trace_cfg(wd, "h_replay.cfg", hdevs, deadlines=False), PID, path, timeout=600)
        rep.add_tlc(r)
        if judge_trace(legs, r, path, False, "health_replayed_trace.ndjson"):
            rep.cov["traces_validated_against_impl"] = 1
        for klass, desc, obj, name in legs.violations:
            rep.violation(klass, desc, obj, name=name)
    rep.cov["rule"] = "replay of %s" % path
