//! C12 (spec/Backends.tla): one binding of the real `sozu_lib::backends::BackendMap` to the spec's
//! vocabulary, shared by the I->S driver (drive_backends) and the S->I replayer (replay_backends).
//!
//! * every spec action is one method here that calls the public sozu API;
//! * time: the back-off policy's own clock arithmetic is what is under test. `fail()` / `succeed()` /
//!   `can_try()` are the real ones on the real `Instant`s; the spec's `Elapse(d)` is executed by moving
//!   every live backend's `last_try` d seconds into the past (hook `verif_age_by`) BEFORE the next call,
//!   never by writing a window or a try count. The hook `verif_get` reads (tries, wait, age) for the
//!   projection. Real time that passes while the harness works adds to every age: the callers bound it
//!   (a history / run that took longer than their slack is repeated or dropped, never judged);
//! * `project` is the single projection of the real state to the spec's state record (DESIGN A.5).
//!
//! The kit keeps, per cluster, the `Rc<RefCell<Backend>>` handles a session would keep (object ids
//! in order of creation, outstanding opens `out` and requests `rout`), and drops a handle exactly when
//! the spec's `Sweep` does (not registered any more and nothing outstanding).

use std::cell::RefCell;
use std::collections::BTreeMap;
use std::net::SocketAddr;
use std::rc::Rc;
use std::time::Duration;

use serde_json::{Value, json};
use sozu_command_lib::proto::command::{LoadBalancingAlgorithms, LoadBalancingParams, LoadMetric};
use sozu_lib::backends::{Backend, BackendError, BackendMap, BackendStatus, HealthState};
use sozu_lib::retry::{RetryAction, RetryPolicy};

pub const NONE: i64 = -1;

/// sozu's thread-local logger prints errors to stdout when nobody set it up: send everything to
/// /dev/null so that the harness's stdout stays ndjson (the messages are not observations of the check).
pub fn quiet_logs() {
    let _ = sozu_command_lib::logging::setup_logging("file:///dev/null", false, None, None, None, "off", "C12");
}

/// splitmix64: the only random source of the C12 harness (seeded from VERIF_SEED)
#[derive(Clone)]
pub struct Rng(pub u64);
impl Rng {
    pub fn next(&mut self) -> u64 {
        self.0 = self.0.wrapping_add(0x9E37_79B9_7F4A_7C15);
        let mut z = self.0;
        z = (z ^ (z >> 30)).wrapping_mul(0xBF58_476D_1CE4_E5B9);
        z = (z ^ (z >> 27)).wrapping_mul(0x94D0_49BB_1331_11EB);
        z ^ (z >> 31)
    }
    pub fn below(&mut self, n: u64) -> u64 {
        if n == 0 { 0 } else { self.next() % n }
    }
    pub fn chance(&mut self, num: u64, den: u64) -> bool {
        self.below(den) < num
    }
    pub fn pick<'a, T>(&mut self, xs: &'a [T]) -> &'a T {
        &xs[self.below(xs.len() as u64) as usize]
    }
}

pub struct Obj {
    pub rc: Rc<RefCell<Backend>>,
    pub out: u64,
    pub rout: u64,
}

#[derive(Default)]
pub struct Cluster {
    pub objs: BTreeMap<i64, Obj>,
    pub next_oid: i64,
}

pub struct World {
    pub map: BackendMap,
    pub clusters: BTreeMap<String, Cluster>,
    /// model address (1..) -> socket address
    pub addrs: Vec<SocketAddr>,
    /// `Some(n)`: every new backend gets a real `ExponentialBackoffPolicy::new(n)` instead of the budget of 6
    /// hard-coded in `Backend::new` (the field is public), so that short histories reach the exhausted budget
    pub retry_budget: Option<usize>,
    /// the spec's AgeCap: ages are projected saturating at this many seconds
    pub age_cap: u64,
}

pub fn policy_of(name: &str) -> LoadBalancingAlgorithms {
    match name {
        "rr" => LoadBalancingAlgorithms::RoundRobin,
        "random" => LoadBalancingAlgorithms::Random,
        "leastLoaded" => LoadBalancingAlgorithms::LeastLoaded,
        "p2c" => LoadBalancingAlgorithms::PowerOfTwo,
        "hrw" => LoadBalancingAlgorithms::Hrw,
        "maglev" => LoadBalancingAlgorithms::Maglev,
        other => panic!("harness: unknown policy {other}"),
    }
}

pub fn metric_of(name: &str) -> LoadMetric {
    match name {
        "reqs" => LoadMetric::Requests,
        _ => LoadMetric::Connections,
    }
}

fn status_str(s: &BackendStatus) -> &'static str {
    match s {
        BackendStatus::Normal => "normal",
        BackendStatus::Closing => "closing",
        BackendStatus::Closed => "closed",
    }
}

/// An address table: `unreachable` (model address, 0 = none) is mapped to the limited-broadcast
/// address, to which a non-blocking connect fails immediately (ENETUNREACH / EACCES), i.e. the
/// error branch of `Backend::try_connect`; every other address is a loopback port (a non-blocking
/// connect returns at once, nothing needs to listen). `variant` picks IPv4 / IPv6 and the port base.
pub fn addr_table(n: usize, variant: u64, unreachable: usize) -> Vec<SocketAddr> {
    let base = 20000 + (variant % 20000) as u16;
    // IPv6 loopback only where the host has it (otherwise every connect to it would fail immediately)
    let variant = if std::net::TcpListener::bind("[::1]:0").is_ok() { variant } else { 0 };
    (1..=n)
        .map(|i| {
            if i == unreachable {
                format!("255.255.255.255:{}", base + i as u16).parse().unwrap()
            } else if (variant >> (i % 8)) & 1 == 1 {
                format!("[::1]:{}", base + i as u16).parse().unwrap()
            } else {
                format!("127.0.0.1:{}", base + i as u16).parse().unwrap()
            }
        })
        .collect()
}

impl World {
    pub fn new(addrs: Vec<SocketAddr>) -> World {
        World { map: BackendMap::new(), clusters: BTreeMap::new(), addrs, retry_budget: None, age_cap: 64 }
    }

    pub fn sock(&self, addr: i64) -> SocketAddr {
        self.addrs[(addr - 1) as usize]
    }

    pub fn addr_idx(&self, a: &SocketAddr) -> i64 {
        self.addrs.iter().position(|x| x == a).map(|i| i as i64 + 1).unwrap_or(0)
    }

    fn cl(&mut self, c: &str) -> &mut Cluster {
        self.clusters.entry(c.to_string()).or_insert_with(|| Cluster { objs: BTreeMap::new(), next_oid: 1 })
    }

    pub fn rc(&self, c: &str, oid: i64) -> Rc<RefCell<Backend>> {
        self.clusters[c].objs[&oid].rc.clone()
    }

    pub fn live(&self, c: &str) -> Vec<i64> {
        self.clusters.get(c).map(|k| k.objs.keys().copied().collect()).unwrap_or_default()
    }

    fn real_list(&self, c: &str) -> Vec<Rc<RefCell<Backend>>> {
        self.map.backends.get(c).map(|l| l.backends.clone()).unwrap_or_default()
    }

    pub fn oid_of(&self, c: &str, rc: &Rc<RefCell<Backend>>) -> i64 {
        self.clusters
            .get(c)
            .and_then(|k| k.objs.iter().find(|(_, o)| Rc::ptr_eq(&o.rc, rc)).map(|(i, _)| *i))
            .unwrap_or(0) // 0: an object the harness never saw (no spec object has id 0)
    }

    /// the spec's Sweep: forget (drop) handles that are neither registered nor holding anything
    pub fn sweep(&mut self, c: &str) {
        let listed = self.real_list(c);
        if let Some(k) = self.clusters.get_mut(c) {
            k.objs.retain(|_, o| o.out > 0 || o.rout > 0 || listed.iter().any(|r| Rc::ptr_eq(r, &o.rc)));
        }
    }

    // ------------------------------------------------------------------ configuration

    pub fn add(&mut self, c: &str, id: &str, addr: i64, backup: bool, sticky: &str, w: Option<i32>) {
        let sock = self.sock(addr);
        let b = Backend::new(
            id,
            sock,
            if sticky.is_empty() { None } else { Some(sticky.to_string()) },
            w.map(|weight| LoadBalancingParams { weight }),
            Some(backup),
        );
        self.map.add_backend(c, b);
        // a handle for every registered object the harness does not know yet
        let listed = self.real_list(c);
        for rc in listed {
            if self.oid_of(c, &rc) == 0 {
                if let Some(n) = self.retry_budget {
                    rc.borrow_mut().retry_policy = sozu_lib::retry::ExponentialBackoffPolicy::new(n).into();
                }
                let k = self.cl(c);
                let oid = k.next_oid;
                k.next_oid += 1;
                k.objs.insert(oid, Obj { rc, out: 0, rout: 0 });
            }
        }
    }

    pub fn remove(&mut self, c: &str, addr: i64) -> Vec<String> {
        let sock = self.sock(addr);
        let ids = self.map.remove_backend(c, &sock);
        self.sweep(c);
        ids
    }

    pub fn set_policy(&mut self, c: &str, policy: &str, metric: &str) {
        let m = if policy == "leastLoaded" || policy == "p2c" { Some(metric_of(metric)) } else { None };
        self.map.set_load_balancing_policy_for_cluster(c, policy_of(policy), m);
        self.cl(c);
    }

    // ------------------------------------------------------------------ health

    pub fn health(&mut self, c: &str, oid: i64, up: bool, th: u32) -> bool {
        let rc = self.rc(c, oid);
        let mut b = rc.borrow_mut();
        let h: &mut HealthState = &mut b.health;
        if up { h.record_success(th) } else { h.record_failure(th) }
    }

    pub fn reset_health(&mut self, c: &str) {
        self.map.set_health_check_config(c, None);
    }

    // ------------------------------------------------------------------ back-off

    /// what a session does when a connection attempt to its backend fails (the policy decides by its own
    /// clock whether the failure counts, draws the window and stamps `last_try`)
    pub fn retry_fail(&mut self, c: &str, oid: i64) {
        let rc = self.rc(c, oid);
        let mut b = rc.borrow_mut();
        b.failures += 1;
        b.retry_policy.fail();
    }

    pub fn retry_succeed(&mut self, c: &str, oid: i64) {
        let rc = self.rc(c, oid);
        let mut b = rc.borrow_mut();
        b.failures = 0;
        b.retry_policy.succeed();
    }

    /// (current_tries, wait, time since last_try) as the policy's own arithmetic sees them
    pub fn retry_view(&self, c: &str, oid: i64) -> (usize, Duration, Duration) {
        self.rc(c, oid).borrow().retry_policy.verif_get()
    }

    /// S->I only. The policy draws the length of a window at random (unseeded); the generated history goes
    /// on with the length TLC drew. Only the drawn length is replaced - the try count and `last_try` stay
    /// what the real `fail()` made them (the caller has checked the real draw against the spec's range).
    pub fn redraw_window(&mut self, c: &str, oid: i64, secs: u64) {
        let rc = self.rc(c, oid);
        let mut b = rc.borrow_mut();
        let (tries, _, age) = b.retry_policy.verif_get();
        b.retry_policy.verif_set(tries, Duration::from_secs(secs), age);
    }

    /// the spec's Elapse(d): d seconds pass for every live backend of every cluster
    pub fn elapse_all(&mut self, secs: u64) {
        for k in self.clusters.values() {
            for o in k.objs.values() {
                o.rc.borrow_mut().retry_policy.verif_age_by(Duration::from_secs(secs));
            }
        }
    }

    // ------------------------------------------------------------------ load accounting

    pub fn set_closing(&mut self, c: &str, oid: i64) {
        self.rc(c, oid).borrow_mut().set_closing();
    }

    pub fn inc(&mut self, c: &str, oid: i64) -> i64 {
        let r = self.rc(c, oid).borrow_mut().inc_connections();
        if r.is_some() {
            self.cl(c).objs.get_mut(&oid).unwrap().out += 1;
        }
        r.map(|n| n as i64).unwrap_or(NONE)
    }

    pub fn dec(&mut self, c: &str, oid: i64) -> i64 {
        let r = self.rc(c, oid).borrow_mut().dec_connections();
        let o = self.cl(c).objs.get_mut(&oid).unwrap();
        o.out = o.out.saturating_sub(1);
        self.sweep(c);
        r.map(|n| n as i64).unwrap_or(NONE)
    }

    /// the session code's own bookkeeping of `active_requests` (a public field)
    pub fn req_start(&mut self, c: &str, oid: i64) {
        self.rc(c, oid).borrow_mut().active_requests += 1;
        self.cl(c).objs.get_mut(&oid).unwrap().rout += 1;
    }

    pub fn req_end(&mut self, c: &str, oid: i64) {
        {
            let rc = self.rc(c, oid);
            let mut b = rc.borrow_mut();
            b.active_requests = b.active_requests.saturating_sub(1);
        }
        let o = self.cl(c).objs.get_mut(&oid).unwrap();
        o.rout = o.rout.saturating_sub(1);
        self.sweep(c);
    }

    // ------------------------------------------------------------------ selection

    /// backend_from_cluster_id / backend_from_sticky_session: (res, oid, model address)
    pub fn connect(&mut self, c: &str, sticky: &str) -> (&'static str, i64, i64) {
        let r = if sticky.is_empty() {
            self.map.backend_from_cluster_id(c)
        } else {
            self.map.backend_from_sticky_session(c, sticky)
        };
        match r {
            Ok((rc, stream)) => {
                drop(stream);
                let oid = self.oid_of(c, &rc);
                let addr = self.addr_idx(&rc.borrow().address);
                if let Some(o) = self.cl(c).objs.get_mut(&oid) {
                    o.out += 1;
                }
                ("ok", oid, addr)
            }
            Err(BackendError::NoBackendForCluster(_)) => ("none", NONE, 0),
            Err(BackendError::ConnectionFailures { backend_address, .. }) => ("fail", NONE, self.addr_idx(&backend_address)),
            Err(BackendError::MioConnection(_)) => ("fail", NONE, 0),
            Err(BackendError::Status(_)) => ("status", NONE, 0),
        }
    }

    /// backend_from_cluster_id_with_key: the chosen object id (NONE when the call reports no backend)
    pub fn keyed(&mut self, c: &str, key: Option<u64>) -> i64 {
        match self.map.backend_from_cluster_id_with_key(c, key) {
            Ok((id, sock)) => {
                let listed = self.real_list(c);
                for rc in listed {
                    let hit = {
                        let b = rc.borrow();
                        b.backend_id == id && b.address == sock
                    };
                    if hit {
                        return self.oid_of(c, &rc);
                    }
                }
                0
            }
            Err(_) => NONE,
        }
    }

    // ------------------------------------------------------------------ projection

    /// The spec's state record of one cluster. `hcap` caps the consecutive counters like the spec's HCap.
    pub fn project(&self, c: &str, hcap: u32) -> Value {
        let listed = self.real_list(c);
        let list: Vec<i64> = listed.iter().map(|rc| self.oid_of(c, rc)).collect();
        let mut objs = Vec::new();
        if let Some(k) = self.clusters.get(c) {
            for (oid, o) in &k.objs {
                let b = o.rc.borrow();
                let (_, wait, age) = b.retry_policy.verif_get();
                let left = wait.saturating_sub(age);
                objs.push(json!({
                    "oid": oid,
                    "id": b.backend_id,
                    "addr": self.addr_idx(&b.address),
                    "backup": b.backup,
                    "sticky": b.sticky_id.clone().unwrap_or_default(),
                    "w": b.load_balancing_parameters.as_ref().map(|p| p.weight).unwrap_or(100),
                    "st": status_str(&b.status),
                    "h": b.health.is_healthy(),
                    "cs": b.health.consecutive_successes.min(hcap),
                    "cf": b.health.consecutive_failures.min(hcap),
                    "tries": b.retry_policy.current_tries(),
                    "wait": b.retry_policy.can_try() != Some(RetryAction::OKAY),
                    // whole seconds (the policy only draws whole seconds; anything else is reported as -1)
                    "wsec": if wait.subsec_nanos() == 0 { wait.as_secs() as i64 } else { -1 },
                    "age": age.as_secs().min(self.age_cap),
                    // what is left of the window, in whole seconds rounded up: the behaviourally relevant part of
                    // (wait, last_try) - `wsec` and `age` are informative, the legs compare `left`
                    "left": left.as_secs() + (left.subsec_nanos() > 0) as u64,
                    "conns": b.active_connections,
                    "reqs": b.active_requests,
                    "out": o.out,
                    "rout": o.rout,
                    "avail": b.is_available(),
                }));
            }
        }
        json!({"list": list, "objs": objs})
    }
}
