--------------------------- MODULE Trace_Sessions ---------------------------
(***************************************************************************)
(* Trace validation for Sessions (C16): is the ndjson trace recorded by     *)
(* harness/src/bin/drive_sessions.rs on a REAL worker a behaviour of the    *)
(* specification?  One causally merged stream (see design_notes/C16.md):    *)
(*                                                                         *)
(*  worker thread, cfg(sozu_verif) hooks, in execution order                *)
(*   accept_push{port,queue,can_accept}      AcceptPush                     *)
(*   create_pop{port,timed_out,wait_ms,timeout_ms,queue}   PopWith          *)
(*   sm_check_limits{res,nb,can_accept,slab} CheckLimitsWith                *)
(*   create_done{port,token,present} ; sm_incr{nb,can_accept}   CreateOk ; Incr *)
(*   create_loop_end{queue}                  end of create_sessions (CreateFail when a socket was admitted) *)
(*   evict{asked,evicted}                    EvictNone / after EvictClose   *)
(*   [sm_untrack_all{token,n}] session_close{token,slab_before,slab} sm_decr{nb,can_accept} *)
(*                                           Close / EvictClose (one step)  *)
(*   sm_at_limit{token,cluster,ip,limit,res} the per-(cluster, ip) gate     *)
(*   sm_track{token,cluster,ip,inserted,count}   Track                      *)
(*   [sm_clear] sm_set_per_ip_limit{limit,previous}   SetPerIpLimit         *)
(*   set_override{cluster,value}             SetOverride: the worker_cmd    *)
(*                         event of an AddCluster the harness sent for an   *)
(*                         existing cluster (matched by request id), so it  *)
(*                         sits where the worker applied the change         *)
(*   loop_idle{nb,can_accept,queue,slab,base,pool_used,backend_connections, *)
(*             backend_requests,per_ip_slots,per_ip_tokens,per_ip_limit}    *)
(*  harness                                                                 *)
(*   connect{port,ip}      written BEFORE the connect call      Connect     *)
(*   served{port,open}     first byte from sozu; `open` = served sockets    *)
(*                         the harness still sees open (poll POLLRDHUP)     *)
(*   client_close{port}    written BEFORE the close call                    *)
(*   baseline{gauges} / quiesce{gauges}   every QueryMetrics gauge at rest  *)
(*   backend_saw{port,cluster,epoch}  a backend of `cluster` (the harness   *)
(*                         owns the backends) received a request / the     *)
(*                         first bytes that client `port` had tagged;      *)
(*                         epoch = wipes acknowledged when the client sent *)
(*                         it.  Written after draining the hook channel:   *)
(*                         a connection reaches a backend only through the *)
(*                         gate, so its Track must be in the trace already *)
(*   not_reclaimed / not_quiescent / worker_panic / gauge_underflow: no     *)
(*                         action explains them - the trace is rejected     *)
(* Every check is a guard: a rejected trace stops at the offending event.   *)
(* There are no silent steps; the validation is deterministic.              *)
(***************************************************************************)
EXTENDS Sessions, IOUtils

ASSUME TLCSet(1, 0)

Trc == ndJsonDeserialize(IOEnv.TRACE)
N == Len(Trc)
Cfg == Trc[1]

\* constants of Sessions bound to the recorded run; the harness lists the universe in the first
\* event (the trace is deserialised again for every constant-level reference, so keep them few)
ToSet(seq) == {seq[k] : k \in 1..Len(seq)}
T_Max == Cfg.max
T_Socks == ToSet(Cfg.socks)
T_Toks == ToSet(Cfg.toks) \cup {0}
T_Ips == ToSet(Cfg.ips) \cup {"-"}
T_IpOf == [s \in T_Socks |-> "-"]              \* only Next uses IpOf; events carry the address
T_Clusters == ToSet(Cfg.clusters) \cup {"c1"}
T_Override == LET o == Cfg.overrides IN [c \in T_Clusters |-> IF c \in DOMAIN o THEN o[c] ELSE -1]
T_Limits == 0..1000000
T_OvrValues == -1..1000000
T_EvictOn == Cfg.evict
T_Sys == Cfg.sys

VARIABLES i,        \* next event to consume
          tserved,  \* sockets the harness counts as being served right now
          created,  \* ports for which the worker created a session (ever)
          idle,     \* the last loop_idle event, <<>> if something happened since
          bl,       \* the baseline: [gauges, idle] once taken
          wipes,    \* how often the tables were wiped (SetMaxConnectionsPerIp(0)) so far
          gated,    \* history: <<client port, cluster, wipes>> for every Track - LinkAllowed became true for that
                    \* connection and cluster in that epoch
          pend      \* the gate answered "not at the limit" for <<token, cluster, ip>>: the slot must be recorded
                    \* before the worker does anything else (<<>> = nothing pending)

tvars == <<vars, i, tserved, created, idle, bl, wipes, gated, pend>>

Ev == Trc[i]
Is(e) == i <= N /\ Ev.ev = e
Step(k) == i' = i + k
B(x) == IF x THEN 1 ELSE 0

TInit == InitWith(0) /\ i = 1 /\ tserved = {} /\ created = {} /\ idle = <<>> /\ bl = <<>>
         /\ wipes = 0 /\ gated = {} /\ pend = <<>>

Same == UNCHANGED <<tserved, created, bl>>
Hist == UNCHANGED <<wipes, gated, pend>>
\* the worker did something: the last snapshot is stale - and it may only do so with no gate decision left open
\* (cluster_ip_at_limit = false is followed by track_cluster_ip in the same run-to-completion step; harness
\* events may fall in between, worker events may not)
Touch == idle' = <<>> /\ pend = <<>>

T_Skip ==
  /\ i <= N /\ Ev.ev \in {"cfg", "wave", "note", "close_sweep", "zombie_sweep"}
  /\ Step(1) /\ UNCHANGED <<vars, tserved, created, idle, bl>> /\ Hist

T_Connect ==
  /\ Is("connect")
  /\ Connect(Ev.port)
  /\ Step(1) /\ Same /\ UNCHANGED idle /\ Hist

T_AcceptPush ==
  /\ Is("accept_push")
  /\ \E s \in (IF Ev.port = -1 THEN backlog ELSE {Ev.port}) : AcceptPush(s)
  /\ Ev.can_accept = 1
  /\ Ev.queue = Len(queue')
  /\ Step(1) /\ Same /\ Touch /\ Hist

T_Pop ==
  /\ Is("create_pop")
  /\ Ev.timeout_ms = Cfg.queue_timeout_ms
  \* the queue timeout decision. The hook logs wait_ms truncated to whole milliseconds and decides on the exact
  \* Duration: at wait = 1000.3 ms it logs (wait_ms 1000, timed_out 1), so equality at the boundary is undecidable.
  /\ (Ev.timed_out = 1 => Ev.wait_ms >= Ev.timeout_ms)
  /\ (Ev.timed_out = 0 => Ev.wait_ms <= Ev.timeout_ms)
  /\ \E k \in 1..Len(queue) :
        /\ Ev.port = -1 \/ queue[k].sock = Ev.port
        /\ PopWith(k, IF Ev.timed_out = 1 THEN QT + 1 ELSE 0)
  /\ Ev.queue = Len(queue')
  /\ Step(1) /\ Same /\ Touch /\ Hist

T_CheckLimits ==
  /\ Is("sm_check_limits")
  /\ CheckLimitsWith(Ev.slab)
  /\ Ev.res = B(nb < Max /\ Ev.slab < SlabThreshold)
  /\ Ev.nb = nb /\ Ev.can_accept = B(canAccept')
  /\ Step(1) /\ Same /\ Touch /\ Hist

T_CreateDone ==
  /\ Is("create_done")
  /\ Ev.port = -1 \/ cs.sock = Ev.port
  /\ Ev.present = 1                       \* the session sits in the slot the hook announced
  /\ CreateOk(Ev.token, FALSE)
  /\ created' = created \cup {cs.sock}
  /\ Step(1) /\ UNCHANGED <<tserved, bl>> /\ Touch /\ Hist

T_Incr ==
  /\ Is("sm_incr")
  /\ Incr
  /\ Ev.nb = nb' /\ Ev.can_accept = B(canAccept')
  /\ Step(1) /\ Same /\ Touch /\ Hist

\* create_sessions returns. With a socket admitted but no session created, create_session() failed.
T_LoopEnd ==
  /\ Is("create_loop_end")
  /\ \/ cs.pc = "idle" /\ UNCHANGED vars
     \/ cs.pc = "admit" /\ CreateFail
  /\ Ev.queue = Len(queue)
  /\ Step(1) /\ Same /\ Touch /\ Hist

T_Evict ==
  /\ Is("evict")
  /\ \/ Ev.evicted = 0 /\ EvictNone
     \/ Ev.evicted >= 1 /\ cs.pc = "rechk" /\ UNCHANGED vars
  /\ Step(1) /\ Same /\ Touch /\ Hist

\* a session ends: [sm_untrack_all] session_close sm_decr, one run-to-completion step of the worker
T_Close ==
  /\ i <= N /\ Ev.ev \in {"sm_untrack_all", "session_close"}
  /\ LET u == IF Ev.ev = "sm_untrack_all" THEN 1 ELSE 0 IN
     /\ i + u + 1 <= N
     /\ LET sc == Trc[i + u]
            dc == Trc[i + u + 1]
            t  == sc.token
        IN /\ sc.ev = "session_close" /\ dc.ev = "sm_decr"
           /\ t \in Toks /\ Live(t)
           \* every (cluster, ip) slot the session holds is given back, and only those
           /\ IF u = 1 THEN Ev.token = t /\ Ev.n = Cardinality(tracks[t])
                       ELSE tracks[t] = {}
           /\ sc.slab < sc.slab_before
           /\ IF cs.pc = "evict" THEN EvictClose(t) ELSE Close(t, "complete")
           /\ dc.nb = nb' /\ dc.can_accept = B(canAccept')
     /\ Step(u + 2)
  /\ Same /\ Touch /\ Hist

T_AtLimit ==
  /\ Is("sm_at_limit")
  /\ Ev.token \in Toks /\ Ev.cluster \in Clusters /\ Ev.ip \in Ips
  /\ Ev.limit = EffLimit(Ev.cluster)
  /\ Ev.res = B(AtLimit(Ev.token, Ev.cluster, Ev.ip))
  \* admitted: the slot is recorded next, whatever the limit (0 included)
  /\ pend' = IF Ev.res = 0 THEN <<Ev.token, Ev.cluster, Ev.ip>> ELSE <<>>
  /\ Step(1) /\ UNCHANGED <<vars, tserved, created, bl, wipes, gated>> /\ Touch

T_Track ==
  /\ Is("sm_track")
  /\ Ev.inserted = B(<<Ev.cluster, Ev.ip>> \notin tracks[Ev.token])
  /\ Track(Ev.token, Ev.cluster, Ev.ip)
  /\ Ev.count = perIp'[<<Ev.cluster, Ev.ip>>]
  /\ pend \in {<<>>, <<Ev.token, Ev.cluster, Ev.ip>>} /\ pend' = <<>>
  /\ gated' = gated \cup {<<sess[Ev.token].sock, Ev.cluster, wipes>>}
  /\ idle' = <<>> /\ UNCHANGED wipes
  /\ Step(1) /\ Same

T_SetLimit ==
  /\ i <= N /\ Ev.ev \in {"sm_clear", "sm_set_per_ip_limit"}
  /\ LET u == IF Ev.ev = "sm_clear" THEN 1 ELSE 0
         e == Trc[i + u]
     IN /\ i + u <= N /\ e.ev = "sm_set_per_ip_limit"
        /\ (u = 1) = (e.limit = 0)            \* the tables are wiped exactly when the feature is switched off
        /\ e.previous = perIpLimit
        /\ IF e.limit = perIpLimit /\ e.limit # 0
           THEN UNCHANGED vars
           ELSE SetPerIpLimit(e.limit)
        /\ wipes' = wipes + u
        /\ Step(u + 1)
  /\ Same /\ Touch /\ UNCHANGED <<gated, pend>>

\* AddCluster again with another max_connections_per_ip, at the point where the worker handled the command
T_SetOverride ==
  /\ Is("set_override")
  /\ Ev.cluster \in Clusters
  /\ IF Ev.value = ovr[Ev.cluster] THEN UNCHANGED vars ELSE SetOverride(Ev.cluster, Ev.value)
  /\ Step(1) /\ Same /\ Touch /\ Hist

\* a backend of the cluster saw traffic of this client connection: the connection went through the gate, for this
\* cluster, after the `epoch`-th wipe at the earliest (the client sent it after that wipe had been acknowledged)
T_BackendSaw ==
  /\ Is("backend_saw")
  /\ \E e \in Ev.epoch..wipes : <<Ev.port, Ev.cluster, e>> \in gated
  /\ Step(1) /\ UNCHANGED <<vars, tserved, created, idle, bl>> /\ Hist

\* the worker goes back to sleep: its own counters agree with the spec state, and with no
\* session left the footprint is the baseline
Quiet == NoSession /\ queue = <<>>
T_LoopIdle ==
  /\ Is("loop_idle")
  /\ cs.pc = "idle"
  /\ Ev.nb = nb /\ Ev.can_accept = B(canAccept) /\ Ev.queue = Len(queue) /\ Ev.max = Max
  /\ Ev.base = Sys
  /\ Ev.per_ip_limit = perIpLimit
  /\ Ev.per_ip_tokens = Cardinality({t \in Toks : tracks[t] # {}})
  /\ Ev.per_ip_slots = Cardinality({<<t, x>> \in Toks \X Slots : x \in tracks[t]})
  /\ Ev.slab >= Ev.base + Cardinality(LiveToks)
  /\ Ev.pool_used >= 0 /\ Ev.backend_connections >= 0 /\ Ev.backend_requests >= 0
  /\ Quiet => /\ Ev.slab = Ev.base /\ Ev.pool_used = 0
              /\ Ev.backend_connections = 0 /\ Ev.backend_requests = 0
  /\ pend = <<>>
  /\ idle' = Ev
  /\ Step(1) /\ UNCHANGED <<vars, tserved, created, bl>> /\ Hist

T_Served ==
  /\ Is("served")
  /\ Ev.port \in created                      \* a byte can only come from a session
  /\ ToSet(Ev.open) \subseteq tserved \cup {Ev.port}
  /\ tserved' = ToSet(Ev.open) \cup {Ev.port}
  /\ Step(1) /\ UNCHANGED <<vars, created, idle, bl>> /\ Hist

T_ClientClose ==
  /\ Is("client_close")
  /\ tserved' = tserved \ {Ev.port}
  /\ Step(1) /\ UNCHANGED <<vars, created, idle, bl>> /\ Hist

\* QueryMetrics at rest: every gauge is back to its baseline value
AtRest == Quiet /\ backlog = {} /\ idle # <<>> /\ tserved = {}
T_Baseline ==
  /\ Is("baseline")
  /\ AtRest
  /\ bl' = [gauges |-> Ev.gauges, idle |-> idle]
  /\ Step(1) /\ UNCHANGED <<vars, tserved, created, idle>> /\ Hist

T_Quiesce ==
  /\ Is("quiesce")
  /\ AtRest /\ bl # <<>>
  /\ Ev.gauges = bl.gauges
  /\ idle.slab = bl.idle.slab /\ idle.pool_used = bl.idle.pool_used
  \* the per-(cluster, ip) tables (the forward counts summed, the tokens of the reverse index, both read by the
  \* worker itself): empty, whatever path the sessions of the wave died on
  /\ idle.per_ip_slots = 0 /\ idle.per_ip_tokens = 0
  /\ canAccept                                 \* accepting has resumed
  /\ Step(1) /\ UNCHANGED <<vars, tserved, created, idle, bl>> /\ Hist

TraceNext ==
  \/ T_Skip \/ T_Connect \/ T_AcceptPush \/ T_Pop \/ T_CheckLimits \/ T_CreateDone \/ T_Incr \/ T_LoopEnd
  \/ T_Evict \/ T_Close \/ T_AtLimit \/ T_Track \/ T_SetLimit \/ T_SetOverride \/ T_BackendSaw \/ T_LoopIdle
  \/ T_Served \/ T_ClientClose \/ T_Baseline \/ T_Quiesce
TraceSpec == TInit /\ [][TraceNext]_tvars

\* the harness's own count of concurrently served sockets
T_ServedLeMax == Cardinality(tserved) <= Max

\* register 1 = number of events consumed
Track_ == TLCSet(1, IF i - 1 > TLCGet(1) THEN i - 1 ELSE TLCGet(1))

TraceAccepted ==
  LET consumed == TLCGet(1) IN
  IF consumed = N
  THEN PrintT(<<"TRACE-ACCEPTED", consumed>>)
  ELSE /\ PrintT(<<"TRACE-REJECTED", consumed, N>>)
       /\ PrintT(<<"first unmatched event", Trc[consumed + 1]>>)
=============================================================================
