"""C18 - TCP relays are byte-exact and PROXY protocol headers are exact and unique.

Specs: spec/ProxyProtocol.tla (v2 codec + expect / relay / send machines), spec/TcpRelay.tla (both
directions of a TCP session as offset pipelines, half-close, back-pressure), spec/Trace_TcpRelay.tla.

1. TLC: P_C18_Header on ProxyProtocol (header family x cmd x TLV length x every split of
   header o payload into <= 3 segments), P_C18_Relay + liveness + refinement of the observable spec on
   TcpRelay; no deviation.
2. Every open deviation (known_findings.json) is switched on alone and must give a TLC counterexample.
3. S->I: the generator config prints the codec table (Encode bytes, Parse verdicts) and one line per
   behaviour of the header machines; harness/replay_tcp checks HeaderV2::into_bytes / parse_v2_header
   against the table in-process and executes the behaviours against a real worker (one TCP cluster per
   proxy-protocol mode), comparing the recorded backend bytes with the predicted stream.
4. I->S: harness/drive_tcp relays position-coded payloads both ways through a real worker (sizes
   around the buffer boundaries, slow readers, half-close from either side) and records per-thread
   events; TLC validates the trace against Trace_TcpRelay with the open deviations on. For the open
   finding FrontFinDrops the same trace is validated with no deviation too and must then be rejected
   at a client-half-close run (that is the finding, reproduced).
5. Canary: a corrupted copy of the trace must be rejected (the trace spec cannot accept anything).

Hole closure (seeds C18-11/12/21/22), see design_notes/C18.md "Hole closed":
 * header classes are enumerated by TOTAL length (HdrLens) around every constant of the code (16, 28, 52,
   216, 232) for every family, plus a sweep over every length 16..240 (cut right after the header);
 * edge-triggered readiness (fev) and a backend that accepts late (SlowConnect, Backend_Up) are part of
   ProxyProtocol.tla; the replayer holds the backend's accept queue full to concretise it;
 * paced sessions in drive_tcp: silent / crawling readers, transfers beyond every buffer of the path,
   small kernel buffers on the worker's own sockets, end of stream while bytes are pending;
 * self-test switches (ExpectMaxRefused, SwitchDropsReadable, FinOvertakesBuffered, BlockedHupCloses)
   must be refuted by TLC in every run.
"""
import json
import os
import re
from concurrent.futures import ThreadPoolExecutor

import vlib

PID = "C18"
PP_DEVS = {"ExpectOverRead", "ExpectPanic", "RelayWedge", "UnixRejected"}
RELAY_DEVS = {"FrontFinDrops"}
# self-test switches: defect classes the legs must be able to see; never open findings
PP_SELFTEST = ["ExpectMaxRefused", "SwitchDropsReadable"]
RELAY_SELFTEST = ["FinOvertakesBuffered", "BlockedHupCloses"]
# total header lengths around every constant of the code: fixed part 16, INET 28, INET6 52, the 216-byte
# address block, the 232-byte limit of the expect state (and one comfortably beyond)
EDGE_LENS = [16, 17, 27, 28, 29, 51, 52, 53, 215, 216, 217, 231, 232, 233, 240]
ALL_LENS = list(range(16, 241))

PP_CFG = """SPECIFICATION %(spec)s
CONSTANTS
  Deviations = %(dev)s
  TlvLens = %(tlv)s
  HdrLens = %(hdrlens)s
  SlowConnect = %(slowc)s
  Payloads = %(pay)s
  MaxSeg = %(maxseg)d
  CutMode = "%(cut)s"
  Modes = %(modes)s
  Emit = %(emit)s
%(checks)s
CHECK_DEADLOCK FALSE
"""
PP_CHECKS = "INVARIANTS TypeOK P_C18_BackendPrefix P_C18_WorkerSurvives P_C18_CompleteAtRest"
PP_LIVE = "PROPERTIES P_C18_BadHeaderCloses"

RELAY_CFG = """SPECIFICATION FairSpec
CONSTANTS
  Deviations = %(dev)s
  MaxBytes = %(maxbytes)d
  B = %(b)d
  K = %(k)d
INVARIANTS TypeOK P_C18_Prefix P_C18_FinAfterPending P_C18_EofComplete P_C18_CutOnlyByOtherFin
PROPERTIES P_C18_RefinesObs P_C18_Delivery P_C18_FinPassed
CHECK_DEADLOCK FALSE
"""

TRACE_CFG = """SPECIFICATION TraceSpec
CONSTANTS
  Deviations = %(dev)s
  MaxBytes = 0
  B = 1
  K = 1
CONSTRAINT Track
INVARIANTS T_C18_Prefix
PROPERTIES T_C18_Obs
POSTCONDITION TraceAccepted
CHECK_DEADLOCK FALSE
"""


def tla_set(xs):
    return "{" + ", ".join('"%s"' % x if isinstance(x, str) else str(x) for x in xs) + "}"


def write(path, text):
    with open(path, "w") as f:
        f.write(text)
    return path


def pp_cfg(wd, name, dev, tlv, pay, maxseg, cut, emit=False, live=False, spec="Spec", hdrlens=(), slowc=False,
           modes=("send", "expect", "relay")):
    checks = "INVARIANTS EmitBehaviour" if emit else (PP_CHECKS + ("\n" + PP_LIVE if live else ""))
    return write(os.path.join(wd, name), PP_CFG % {
        "spec": spec, "dev": tla_set(dev), "tlv": tla_set(tlv), "pay": tla_set(pay), "maxseg": maxseg,
        "cut": cut, "emit": "TRUE" if emit else "FALSE", "checks": checks, "hdrlens": tla_set(sorted(hdrlens)),
        "slowc": "TRUE" if slowc else "FALSE", "modes": tla_set(list(modes))})


def stuck_run(out):
    m = re.search(r'"STUCK-RUN",\s*(-?\d+)', out)
    return int(m.group(1)) if m else None


def run_events(trace_path, run):
    keep = []
    with open(trace_path) as f:
        for line in f:
            try:
                o = json.loads(line)
            except ValueError:
                continue
            if o.get("run") == run:
                keep.append(o)
    return keep


def validate(wd, trace, dev, name):
    cfg = write(os.path.join(wd, name), TRACE_CFG % {"dev": tla_set(dev)})
    return vlib.tlc_trace("Trace_TcpRelay", cfg, PID, trace, timeout=1500)


def replay_violations(rep, out, what):
    summ = [o for o in out if o.get("kind") == "summary"]
    if not summ:
        raise vlib.ToolError("%s produced no summary" % what)
    summ = summ[0]
    if summ.get("setup_error"):
        raise vlib.ToolError("%s: setup failed: %s" % (what, summ["setup_error"]))
    per_class = {}
    for v in out:
        if v.get("kind") == "violation":
            per_class[v["class"]] = per_class.get(v["class"], 0) + 1
            if per_class[v["class"]] <= 3:      # a few replays per class are enough
                rep.violation(v["class"], json.dumps(v.get("detail"))[:260], v)
    more = {k: n - 3 for k, n in per_class.items() if n > 3}
    if more:
        rep.extra["more_violations_of_listed_classes"] = more
    return summ


def par(jobs):
    """run the thunks concurrently (each is a TLC or harness subprocess); results in order; first error wins"""
    with ThreadPoolExecutor(max_workers=max(1, len(jobs))) as ex:
        futs = [ex.submit(j) for j in jobs]
        return [f.result() for f in futs]


def drop_run(trace, run, out):
    """copy of the trace without the events of one run"""
    with open(trace) as f, open(out, "w") as g:
        for line in f:
            try:
                o = json.loads(line)
            except ValueError:
                continue
            if o.get("run") != run:
                g.write(line)
    return out


def stuck_heads(out):
    m = re.search(r'"STUCK-HEADS",(.*?)(?:Model checking|$)', out, re.S)
    return re.sub(r"\s+", " ", m.group(1)) if m else ""


def run(tier, replay=None):
    rep = vlib.Report(PID, tier)
    wd = vlib.workdir(PID)
    thorough = tier == "thorough"
    bins = vlib.cargo_build(["replay_tcp", "drive_tcp"])
    devs = vlib.open_deviations(PID)
    pp_open = [d for d in devs if d in PP_DEVS]
    relay_open = [d for d in devs if d in RELAY_DEVS]
    workers = 16 if thorough else 8
    tlv = [0, 1]

    # ---- replay of one saved violation ---------------------------------------------------------
    if replay:
        if replay.endswith(".ndjson"):
            r = validate(wd, replay, relay_open, "trace_replay.cfg")
            if not r["accepted"]:
                rep.violation("trace:replayed", "trace rejected at run %s (%s of %s events explained)" % (
                    stuck_run(r["out"]), r["consumed"], r["total"]), r["out"][-3000:])
            rep.cov["traces_validated_against_impl"] = 1
            rep.finish()
        with open(replay) as f:
            v = json.load(f)
        beh = os.path.join(wd, "one.ndjson")
        # the codec table of the class of the behaviour is needed
        h = (v.get("behaviour") or {}).get("hdr") or {}
        hl = [(v.get("behaviour") or {}).get("hlen", 16)] if h.get("kind") == "ok" else []
        g2 = vlib.tlc("ProxyProtocol", pp_cfg(wd, "gen2.cfg", pp_open, tlv, [0], 1, "edges", emit=True, hdrlens=EDGE_LENS + hl),
                      PID, workers=4, timeout=600, want_replay=True)
        with open(beh, "w") as f:
            for o in g2["replays"]:
                if o.get("kind") != "beh":
                    f.write(json.dumps(o) + "\n")
            if "behaviour" in v:
                f.write(json.dumps(v["behaviour"]) + "\n")
        out = vlib.run_harness(bins["replay_tcp"], ["--seed", str(vlib.seed()), "--threads", "1", "--per-class", "1000",
                                                    "--late", "1000", "--late-threads", "1"],
                               stdin_path=beh, timeout=600)
        summ = replay_violations(rep, out, "replay_tcp")
        print(json.dumps(summ, indent=1)[:3000])
        rep.cov["traces_validated_against_impl"] = summ["executed"]
        rep.finish()

    # ---- 1. design level ------------------------------------------------------------------------
    # header classes by total length around every constant of the code; then the same machines with a
    # backend that accepts late (SlowConnect): both at once, half the workers each
    def mc_main():
        return vlib.tlc("ProxyProtocol", pp_cfg(wd, "pp_mc.cfg", [], tlv, [0, 3], 3, "edges", hdrlens=EDGE_LENS), PID,
                        workers=workers // 2, timeout=1500, coverage=thorough)

    def mc_late():
        return vlib.tlc("ProxyProtocol", pp_cfg(wd, "pp_mc_late.cfg", [], tlv, [0, 3], 3, "edges", slowc=True), PID,
                        workers=workers // 2, timeout=1500, coverage=thorough)

    r, rlate = par([mc_main, mc_late])
    for x, what in ((r, "ProxyProtocol.tla"), (rlate, "ProxyProtocol.tla (backend accepts late)")):
        rep.add_tlc(x)
        if x["violated"]:
            rep.violation("spec:" + x["violated"], "%s itself violates %s" % (what, x["violated"]), x["out"][-4000:])
    if thorough:
        vlib.require_actions_covered(r, ["Expect_Readable", "Relay_Readable", "Relay_BackWritable", "Send_Step",
                                         "Pipe_Read", "Pipe_Write", "ClientStep", "Timeout"])
        vlib.require_actions_covered(rlate, ["Backend_Up", "Relay_BackWritable", "Send_Step", "Pipe_Read", "Pipe_Write"])
        # every single split position of every header class (2 segments), all byte positions
        r2 = vlib.tlc("ProxyProtocol", pp_cfg(wd, "pp_mc_all.cfg", [], tlv, [0, 1, 2, 3], 2, "all", hdrlens=EDGE_LENS), PID,
                      workers=workers, timeout=2400)
        rep.add_tlc(r2)
        if r2["violated"]:
            rep.violation("spec:" + r2["violated"], "ProxyProtocol.tla (all cut positions) violates %s" % r2["violated"],
                          r2["out"][-4000:])
        # every total length 16..240 of every family, cut near the field / window edges
        r3 = vlib.tlc("ProxyProtocol", pp_cfg(wd, "pp_mc_lens.cfg", [], [], [0, 3], 2, "edges", hdrlens=ALL_LENS), PID,
                      workers=workers, timeout=2400)
        rep.add_tlc(r3)
        if r3["violated"]:
            rep.violation("spec:" + r3["violated"], "ProxyProtocol.tla (all header lengths) violates %s" % r3["violated"],
                          r3["out"][-4000:])

    # liveness: unacceptable headers end closed (small instance, fairness)
    def mc_live():
        return vlib.tlc("ProxyProtocol", pp_cfg(wd, "pp_live.cfg", [], [0, 217], [3], 2, "edges", live=True, spec="FairSpec",
                                                hdrlens=[232, 233]),
                        PID, workers=workers // 2, timeout=1500)

    sizes = dict(maxbytes=4, b=2, k=2) if thorough else dict(maxbytes=3, b=2, k=1)

    def mc_relay():
        return vlib.tlc("TcpRelay", write(os.path.join(wd, "relay_mc.cfg"), RELAY_CFG % dict(dev=tla_set([]), **sizes)), PID,
                        workers=workers // 2, timeout=2400, coverage=thorough)

    rl, rr = par([mc_live, mc_relay])
    rep.add_tlc(rl)
    if rl["violated"]:
        rep.violation("spec:" + rl["violated"], "ProxyProtocol.tla violates %s under fairness" % rl["violated"], rl["out"][-4000:])
    rep.add_tlc(rr)
    if rr["violated"]:
        rep.violation("spec:" + rr["violated"], "TcpRelay.tla itself violates %s" % rr["violated"], rr["out"][-4000:])
    if thorough:
        vlib.require_actions_covered(rr, ["Peer_Write", "Peer_Fin", "Peer_Read", "Peer_Eof", "Sozu_Read", "Sozu_Write",
                                          "Sozu_SeeFin", "Sozu_CloseAfterFin"])

    # ---- 2. each open deviation, and each self-test switch, breaks the property in the model --------
    def dev_job(d):
        def job():
            if d in PP_DEVS:
                return vlib.tlc("ProxyProtocol", pp_cfg(wd, "pp_dev_%s.cfg" % d, [d], [0, 1], [3], 2, "edges"), PID, workers=2, timeout=600)
            if d in PP_SELFTEST:
                return vlib.tlc("ProxyProtocol", pp_cfg(wd, "pp_dev_%s.cfg" % d, [d], [0], [3], 2, "edges", hdrlens=[231, 232, 233],
                                                        slowc=True), PID, workers=2, timeout=600)
            return vlib.tlc("TcpRelay", write(os.path.join(wd, "relay_dev_%s.cfg" % d),
                                              RELAY_CFG % dict(dev=tla_set([d]), maxbytes=2, b=1, k=1)), PID, workers=2, timeout=600)
        return job

    switches = list(devs) + PP_SELFTEST + RELAY_SELFTEST
    for d, rd in zip(switches, par([dev_job(d) for d in switches])):
        rep.add_tlc(rd)
        if not rd["violated"]:
            raise vlib.ToolError("%s %s does not violate P_C18 in the model" % ("deviation" if d in devs else "self-test switch", d))
        vlib.log("%s %s: TLC counterexample to %s as expected" % ("deviation" if d in devs else "self-test switch", d, rd["violated"]))
    rep.extra["self_test_switches_refuted"] = PP_SELFTEST + RELAY_SELFTEST
    if thorough:
        # the repaired defects stay distinguishable: switching the old behaviour on must break the property
        for d in sorted(PP_DEVS - set(devs)):
            rd = vlib.tlc("ProxyProtocol", pp_cfg(wd, "pp_old.cfg", [d], [0, 1], [3], 2, "edges"), PID, workers=4, timeout=600)
            rep.add_tlc(rd)
            if not rd["violated"]:
                raise vlib.ToolError("old behaviour %s does not violate P_C18 in the model" % d)

    # ---- 3. S->I -------------------------------------------------------------------------------
    # three generator runs at once: (main) length classes x segmentations near the edges; (sweep) EVERY total
    # length 16..240 of every family, unsplit and cut right after the header, expect + relay; (late) the backend
    # accepts after k client segments
    beh = os.path.join(wd, "behaviours.ndjson")
    n_beh = {"main": 0, "sweep": 0, "late": 0, "all": 0}
    import threading
    wlock = threading.Lock()
    with open(beh, "w") as f:
        def sink_for(tag, tables):
            def sink(o):
                if o.get("kind") == "beh":
                    o["gen"] = tag
                elif not tables:
                    return
                with wlock:
                    if o.get("kind") == "beh":
                        n_beh[tag] += 1
                    f.write(json.dumps(o) + "\n")
            return sink

        def gen_main():
            return vlib.tlc("ProxyProtocol", pp_cfg(wd, "pp_gen.cfg", pp_open, tlv, [0, 3], 3, "edges", emit=True, hdrlens=EDGE_LENS),
                            PID, workers=max(2, workers // 2), timeout=1500, want_replay=True, replay_sink=sink_for("main", True))

        def gen_sweep():
            return vlib.tlc("ProxyProtocol", pp_cfg(wd, "pp_gen_sweep.cfg", pp_open, [], [0, 3] if thorough else [3], 2, "hdr", emit=True,
                                                    hdrlens=ALL_LENS, modes=("expect", "relay")),
                            PID, workers=2, timeout=1500, want_replay=True, replay_sink=sink_for("sweep", True))

        def gen_late():
            return vlib.tlc("ProxyProtocol", pp_cfg(wd, "pp_gen_late.cfg", pp_open, tlv, [3], 3, "edges", emit=True, slowc=True),
                            PID, workers=2, timeout=1500, want_replay=True, replay_sink=sink_for("late", False))

        for g in par([gen_main, gen_sweep, gen_late]):
            rep.add_tlc(g)
            if g["violated"]:
                raise vlib.ToolError("generator run reported a violation: %s" % g["violated"])
        if thorough:
            g2 = vlib.tlc("ProxyProtocol", pp_cfg(wd, "pp_gen_all.cfg", pp_open, tlv, [2], 2, "all", emit=True, hdrlens=EDGE_LENS), PID,
                          workers=workers, timeout=2400, want_replay=True, replay_sink=sink_for("all", False))
            rep.add_tlc(g2)
    n_total = sum(n_beh.values())

    # ---- 4a. I->S driver, started now: it runs while the replayer does (both mostly wait) -----------
    trace = os.path.join(wd, "trace.ndjson")
    runs = 1200 if thorough else 70
    paced = 400 if thorough else 64
    drive_args = ["--seed", str(vlib.seed()), "--runs", str(runs), "--paced", str(paced), "--threads", "6",
                  "--big", "1" if thorough else "0"]

    def drive():
        return vlib.run_harness(bins["drive_tcp"], drive_args + ["--out", trace], timeout=2400)

    def replay_leg():
        return vlib.run_harness(bins["replay_tcp"],
                                ["--seed", str(vlib.seed()), "--threads", "8", "--per-class", "60" if thorough else "6",
                                 "--slow", "40" if thorough else "6", "--late", "600" if thorough else "96",
                                 "--late-threads", "24" if thorough else "16"],
                                stdin_path=beh, timeout=2400)

    out, dout = par([replay_leg, drive])
    summ = replay_violations(rep, out, "replay_tcp")
    vlib.log("replay_tcp: %d codec checks on %d classes, %d/%d behaviours executed, %d/%d segment separations confirmed, "
             "%d late-backend behaviours (%d confirmed slow connects), %.1fs" % (
                 summ["codec_checks"], summ["codec_classes"], summ["executed"], summ["behaviours_in"],
                 summ["separations_confirmed"], summ["separations"], summ.get("late_backend", 0),
                 summ.get("late_backend_confirmed", 0), summ["wall_s"]))
    rep.cov["evaluations"] += summ["codec_checks"]
    rep.add_samples(summ["samples"], 3)
    executed = summ["executed"] + summ.get("http_expect_executed", 0)
    rep.extra["http_expect_proxy_sessions"] = summ.get("http_expect_executed", 0)
    rep.extra["codec_checks"] = summ["codec_checks"]
    rep.extra["behaviours_generated"] = n_beh
    rep.extra["segment_separations"] = [summ["separations_confirmed"], summ["separations"]]
    rep.extra["late_backend_behaviours"] = [summ.get("late_backend_confirmed", 0), summ.get("late_backend", 0)]
    rep.extra["ipv6_used"] = summ["ipv6"]
    rep.extra["config_loader_modes"] = summ.get("config_modes")
    if "UnixRejected" in devs and summ.get("unix_closed", 0):
        rep.known_finding_seen("unix-family-rejected")
        rep.known["unix-family-rejected"]["n"] += summ["unix_closed"] - 1
    if summ.get("late_backend", 0) and summ.get("late_backend_confirmed", 0) * 2 < summ["late_backend"]:
        # pacing could not be established (accept queue trick does not work here): a coverage loss, not a verdict
        raise vlib.ToolError("late-backend behaviours: only %d of %d connections were really delayed" % (
            summ.get("late_backend_confirmed", 0), summ["late_backend"]))

    # ---- 4b. I->S -------------------------------------------------------------------------------
    ds = [o for o in dout if o.get("kind") == "summary"]
    if not ds:
        raise vlib.ToolError("drive_tcp produced no summary")
    ds = ds[0]
    if ds.get("setup_error"):
        raise vlib.ToolError("drive_tcp: setup failed: %s" % ds["setup_error"])
    if ds.get("worker_problem"):
        rep.violation("relay:worker", ds["worker_problem"], ds)
    if ds["errors"]:
        # a session that could not even be set up (no backend connection): data, not a tool error
        rep.violation("relay:session-setup", "; ".join(ds["errors"])[:250], ds)
    vlib.log("drive_tcp: %d sessions, %d events, %.1f MB relayed, %.1fs" % (ds["runs"], ds["events"], ds["bytes"] / 1e6, ds["wall_s"]))
    tv = validate(wd, trace, relay_open, "trace.cfg")
    rep.add_tlc(tv)
    accepted_runs = ds["runs"]
    # A rejection whose stuck events include a Stall ("nothing moved for 12 s") depends on time: the session is
    # driven again alone (same seed = same parameters) with 4x the patience. Reproduced: violation. Not
    # reproduced: the run is taken out and counted; more than 3 of them: inconclusive (exit 2), never a verdict.
    unreproduced = []
    while not tv["accepted"] and "Stall" in stuck_heads(tv["out"]) and len(unreproduced) <= 3:
        run = stuck_run(tv["out"])
        solo = os.path.join(wd, "trace_solo_%s.ndjson" % run)
        vlib.run_harness(bins["drive_tcp"], drive_args + ["--only", str(run), "--patience", "4", "--out", solo], timeout=900)
        ts = validate(wd, solo, relay_open, "trace_solo.cfg")
        rep.add_tlc(ts)
        if not ts["accepted"]:
            trace, tv = solo, ts
            break
        unreproduced.append(run)
        vlib.log("run %s: stalled under load, fine when driven alone with more patience" % run)
        trace = drop_run(trace, run, os.path.join(wd, "trace_minus_%d.ndjson" % len(unreproduced)))
        tv = validate(wd, trace, relay_open, "trace.cfg")
        rep.add_tlc(tv)
        accepted_runs -= 1
    rep.extra["stalls_not_reproduced"] = unreproduced
    if len(unreproduced) > 3:
        raise vlib.ToolError("%d sessions stalled under load and none did when driven alone: inconclusive" % len(unreproduced))
    if not tv["accepted"]:
        run = stuck_run(tv["out"])
        evs = run_events(trace, run) if run is not None else []
        head = evs[0] if evs else {}
        klass = "relay:%s/%s" % (head.get("mode", "?"), head.get("scenario", "?"))
        rep.violation(klass, "trace not explained by TcpRelay (run %s: %s of %s events): %s" % (
            run, tv["consumed"], tv["total"], stuck_heads(tv["out"])[:400]),
            "\n".join(json.dumps(e) for e in evs + [{"ev": "reset", "run": -1, "n": [0, 0, 0, 0]}]) + "\n",
            name="trace_run_%s.ndjson" % run)
        accepted_runs = 0
    # the open finding, reproduced: without the deviation the same trace must not be acceptable
    if "FrontFinDrops" in relay_open and tv["accepted"]:
        n_trunc = 0
        cur = None
        with open(trace) as f:
            for line in f:
                o = json.loads(line)
                if o["ev"] == "reset":
                    cur = o
                elif (o["ev"] == "Eof" and o.get("o") == 4 and cur and cur.get("scenario") == "front_fin"
                      and o.get("at", 0) < cur.get("n_c", 0)):
                    n_trunc += 1
        if n_trunc:
            t0 = validate(wd, trace, [x for x in relay_open if x != "FrontFinDrops"], "trace_nodev.cfg")
            rep.add_tlc(t0)
            if t0["accepted"]:
                raise vlib.ToolError("%d truncated client-half-close runs but the trace is accepted without the deviation" % n_trunc)
            run = stuck_run(t0["out"])
            evs = run_events(trace, run) if run is not None else []
            if not evs or evs[0].get("scenario") != "front_fin":
                rep.violation("relay:undeviated-rejection-elsewhere",
                              "without FrontFinDrops the trace is rejected at run %s, which is not a client half-close" % run, evs)
            else:
                rep.known_finding_seen("front-fin-drops")
                rep.known["front-fin-drops"]["n"] += n_trunc - 1
                rep.extra["front_fin_sample"] = {k: evs[0].get(k) for k in ("mode", "n_c", "p_c", "slow_backend_reader")}

    # ---- 5. canary: the trace spec must reject a corrupted trace -----------------------------------
    if tv["accepted"]:
        lines = open(trace).read().splitlines()
        idx = [i for i, l in enumerate(lines) if '"ev":"Rcvd"' in l and '"len":' in l]
        if idx:
            k = idx[(vlib.seed() * 7919) % len(idx)]
            o = json.loads(lines[k])
            o["off"] = o["off"] + 1          # one byte skipped
            lines[k] = json.dumps(o)
            canary = write(os.path.join(wd, "canary.ndjson"), "\n".join(lines) + "\n")
            tc = validate(wd, canary, relay_open, "trace_canary.cfg")
            if tc["accepted"]:
                raise vlib.ToolError("canary: a trace with a skipped byte was accepted by Trace_TcpRelay")
            rep.extra["canary_rejected_at_run"] = stuck_run(tc["out"])

    rep.cov["traces_validated_against_impl"] = executed + accepted_runs
    rep.cov["distinct_nontrivial"] = executed + len(ds.get("by_scenario", {}))
    rep.cov["exhaustive"] = False
    rep.cov["rule"] = ("replay leg: distinct (mode, header class, payload length, segmentation, accept point of the backend) "
                       "behaviours of ProxyProtocol.tla executed against the real worker (a seeded sample of %d generated; per "
                       "class always the unsplit stream and the split right after the header; every total header length "
                       "16..240 of every family); trace leg: distinct (mode, scenario) kinds among %d recorded sessions "
                       "(free-running and paced); distinct_nontrivial = behaviours executed + session kinds" % (n_total, ds["runs"]))
    with open(trace) as f:
        for line in f:
            o = json.loads(line)
            if o.get("ev") == "reset" and o.get("scenario") in ("back_fin", "paced_tail_fin") and o.get("n_b", 0) > 100000:
                rep.add_samples([{"relay_session": {k: o[k] for k in ("mode", "scenario", "subject", "n_c", "n_b", "p_b", "slow_client_reader",
                                                                      "slow_backend_reader", "rcvbuf", "natural_buffers", "sozu_sndbuf_forced",
                                                                      "fin_pause_ms", "resume_pause_ms", "notes") if k in o}}], 1)
                break
    rep.extra["relay_sessions"] = ds["by_scenario"]
    rep.extra["relay_bytes"] = ds["bytes"]
    rep.extra["trace_events"] = ds["events"]
    rep.assumptions += [
        "a header longer than 232 bytes is 'oversized' for the expect state only; relay mode forwards any header that parses",
        "sozu never half-closes: a FIN reaches the other peer when the whole session closes, which the code does once the "
        "finished direction is drained and nothing of the other one is buffered; bytes of the OTHER direction still in the "
        "kernel at that moment may be cut (modelled as the code's policy, see spec/TcpRelay.tla)",
        "black-box pacing: segment separation is confirmed through the kernel's receive-queue length of sozu's socket "
        "(sock_diag); TLS pipes and the splice(2) feature build are not driven (WebSocket-upgraded plain HTTP sessions are)",
        "a backend that accepts late is concretised by holding its accept queue full (listen backlog 0 + one connection "
        "of our own): the kernel drops sozu's SYN and its retransmission (1 s later) gets through once the queue was "
        "emptied; needs tcp_abort_on_overflow = 0 (the default); the listener's connect_timeout is 20 s on those clusters",
        "paced sessions shrink SO_SNDBUF of the worker's own sockets (found by address pair among the descriptors of "
        "the process, worker threads are in-process) in most sessions: kernel buffer sizes are environment (tcp_wmem); "
        "the other sessions use the host's defaults with 5-24 MB transfers; queue probes (TIOCOUTQ, sock_diag) only "
        "decide when a peer acts, never a verdict; a verdict that depends on a 12 s silence is re-examined alone with "
        "4x patience and otherwise dropped (more than 3: exit 2)",
        "partial writes of the generated/relayed header cannot be forced from outside (<= 232 bytes on a fresh socket); "
        "they are covered at model level only",
    ]
    rep.finish()
