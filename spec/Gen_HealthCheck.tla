-------------------------- MODULE Gen_HealthCheck --------------------------
(***************************************************************************)
(* S->I generator for HealthCheck.tla: TLC (simulation mode) writes random *)
(* schedules together with the specification's prediction after every     *)
(* step; harness/replay_health executes them on a real HealthChecker and a *)
(* real BackendMap, in-process, with sockets it serves itself.             *)
(*                                                                         *)
(* A schedule alternates one outside step (configuration command, server   *)
(* mode change, something a server does with a probe connection, a tick of *)
(* the clock) with one call of HealthChecker::poll.  A poll is the         *)
(* specification's fine-grained steps run to completion in the code's      *)
(* order: initiate_checks (every due cluster), then progress_checks (every *)
(* in-flight probe once: timed out, or - if its token is among the ones    *)
(* the schedule reports ready - its one enabled readiness step), then the  *)
(* kernel's answer to the new connection attempts (accepted into the       *)
(* backlog, or refused when nothing listens).  The replayer sees the       *)
(* outside steps and the polls; after each it compares the health records, *)
(* the probes started and the results credited.                            *)
(*                                                                         *)
(* Time: the replayer sleeps 1.4 s per tick and calls poll right after     *)
(* each step, so "age >= timeout" and "since >= interval" are exactly the   *)
(* code's conditions for the timeouts (1..3 s) and intervals (1..2 s) used. *)
(***************************************************************************)
EXTENDS MC_HealthCheck, Json, SequencesExt

CONSTANTS MaxSteps

VARIABLES phase,     \* "idle" / "rounds" / "progress" / "kernel"
          seenC,     \* clusters initiate_checks has looked at in this poll
          seenP,     \* probes progress_checks has looked at in this poll
          ready,     \* probes whose token the schedule reports ready for this poll
          readyKeys, \* ... as (cluster, id, address)
          srv0,      \* the servers' modes at the start
          started,   \* probes started in this poll (cluster, id, address), in order
          credits,   \* results credited in this poll
          autos,     \* what the quick server (address 1) did on its own right after this poll
          pick,      \* what kind of outside step comes next (weights)
          steps, hist, done

gvars == <<vars, phase, seenC, seenP, ready, readyKeys, srv0, started, credits, autos, pick, steps, hist, done>>

GenSlots == {[id |-> "b1", addr |-> 1], [id |-> "b2", addr |-> 2], [id |-> "b3", addr |-> 1], [id |-> "b4", addr |-> 3]}

\* ---- projections ------------------------------------------------------------------------------
PKey(p) == [c |-> inflight[p].c, id |-> inflight[p].id, addr |-> inflight[p].addr]
ClusterSeq == SetToSeq(Clusters)

Snapshot ==
  [clusters |-> [i \in 1..Len(ClusterSeq) |->
                   LET c == ClusterSeq[i] IN
                   [c |-> c, hascfg |-> HasCfg(c),
                    list |-> [j \in 1..Len(list[c]) |->
                               LET s == list[c][j] IN
                               [id |-> s.id, addr |-> s.addr, h |-> hs[c][s].healthy, cs |-> hs[c][s].cs, cf |-> hs[c][s].cf]]]],
   inflight |-> LET ps == SetToSortSeq(Pids, <) IN
                [i \in 1..Len(ps) |-> [c |-> inflight[ps[i]].c, id |-> inflight[ps[i]].id, addr |-> inflight[ps[i]].addr,
                                        phase |-> inflight[ps[i]].phase, wire |-> inflight[ps[i]].wire, age |-> inflight[ps[i]].age]]]

Entry(rec) == hist' = Append(hist, rec)

\* ---- outside steps (phase idle, one kind at a time) ---------------------------------------------
Outside(lbl) ==
  /\ phase = "idle" /\ steps < MaxSteps /\ steps' = steps + 1
  /\ phase' = "poll"
  /\ hist' = Append(hist, [step |-> lbl, post |-> Snapshot'])
  /\ UNCHANGED <<seenC, seenP, ready, readyKeys, srv0, started, credits, autos, done>>

\* (only commands that change something: the schedules are short)
G_Cfg ==
  /\ pick = 1
  /\ \/ \E c \in Clusters, k \in Configs :
          k # cfg[c] /\ Cfg_SetHealthCheck(c, k) /\ Outside([op |-> "cfg", kind |-> "SetHealthCheck", c |-> c, k |-> k, id |-> "", addr |-> 0])
     \/ \E c \in Clusters :
          HasCfg(c) /\ Cfg_RemoveHealthCheck(c) /\ Outside([op |-> "cfg", kind |-> "RemoveHealthCheck", c |-> c, k |-> NoCfg, id |-> "", addr |-> 0])
     \/ \E c \in Clusters :
          HasCfg(c) /\ Cfg_RemoveCluster(c) /\ Outside([op |-> "cfg", kind |-> "RemoveCluster", c |-> c, k |-> NoCfg, id |-> "", addr |-> 0])
     \/ \E c \in Clusters :
          HasCfg(c) /\ Cfg_AddClusterNoHc(c) /\ Outside([op |-> "cfg", kind |-> "AddClusterNoHc", c |-> c, k |-> NoCfg, id |-> "", addr |-> 0])
     \/ \E c \in Clusters, s \in Slots :
          Cfg_AddBackend(c, s) /\ Outside([op |-> "cfg", kind |-> "AddBackend", c |-> c, k |-> NoCfg, id |-> s.id, addr |-> s.addr])
     \/ \E c \in Clusters, a \in Addrs :
          (\E s \in Range(list[c]) : s.addr = a) /\ Cfg_RemoveBackend(c, a)
          /\ Outside([op |-> "cfg", kind |-> "RemoveBackend", c |-> c, k |-> NoCfg, id |-> "", addr |-> a])

\* (pick 8: a server recovers - otherwise four of the six modes fail and recoveries are rare)
G_Mode ==
  /\ pick \in {2, 8}
  /\ \E a \in Addrs \ Unroutable, m \in IF pick = 8 THEN {"s200"} ELSE Modes :
       Env_SetMode(a, m) /\ Outside([op |-> "mode", addr |-> a, m |-> m])

SrvRec(kind, p, good) == [op |-> "srv", kind |-> kind, c |-> inflight[p].c, id |-> inflight[p].id, addr |-> inflight[p].addr,
                          good |-> good, status |-> StatusOf(ModeOf(p))]
G_Srv ==
  /\ pick \in 3..5
  /\ \/ \E p \in Pids : Srv_Partial(p) /\ Outside(SrvRec("partial", p, FALSE))
     \/ \E p \in Pids, good \in BOOLEAN : Srv_Answer(p, good) /\ Outside(SrvRec("answer", p, good))
     \/ \E p \in Pids : Srv_Close(p) /\ Outside(SrvRec("close", p, FALSE))

G_Tick == pick \in 6..7 /\ Advance /\ Outside([op |-> "tick"])

\* ---- one poll -----------------------------------------------------------------------------------
ReadyNow == {p \in Pids : ReadyStep(p)}

G_PollBegin ==
  /\ phase = "poll"
  \* (mio reports every ready token, or all but one: a token reported later)
  /\ \E R \in {ReadyNow} \cup {ReadyNow \ {p} : p \in ReadyNow} : ready' = R /\ readyKeys' = {PKey(p) : p \in R}
  /\ phase' = "rounds" /\ seenC' = {} /\ seenP' = {} /\ started' = <<>> /\ credits' = {} /\ autos' = <<>>
  /\ UNCHANGED <<vars, srv0, pick, steps, hist, done>>

RoundsLeft == {c \in Clusters \ seenC : Due(c) /\ Len(TargetsSeq(c)) > 0}

G_Round ==
  /\ phase = "rounds"
  /\ \E c \in RoundsLeft :
       /\ HC_Poll_StartProbe(c)
       /\ seenC' = seenC \cup {c}
       /\ LET new == SetToSortSeq(DOMAIN inflight' \ Pids, <)
          IN started' = started \o [i \in 1..Len(new) |-> [c |-> c, id |-> inflight'[new[i]].id, addr |-> inflight'[new[i]].addr]]
       /\ credits' = credits \cup act'.credits
  /\ UNCHANGED <<phase, seenP, ready, readyKeys, srv0, autos, pick, steps, hist, done>>

G_RoundsDone ==
  /\ phase = "rounds" /\ RoundsLeft = {}
  /\ phase' = "progress"
  /\ UNCHANGED <<vars, seenC, seenP, ready, readyKeys, srv0, started, credits, autos, pick, steps, hist, done>>

ProgressLeft == {p \in Pids \ seenP : inflight[p].age >= inflight[p].timeout \/ (p \in ready /\ ReadyStep(p))}

G_Progress ==
  /\ phase = "progress"
  /\ \E p \in ProgressLeft :
       /\ IF inflight[p].age >= inflight[p].timeout THEN HC_ProbeTimeout(p)
          ELSE \/ HC_Ready_Connected(p) \/ HC_Ready_Partial(p)
               \/ \E kind \in ResultKinds \ {"timeout"} : HC_Result(p, kind)
       /\ seenP' = seenP \cup {p}
       /\ credits' = credits \cup act'.credits
  /\ UNCHANGED <<phase, seenC, ready, readyKeys, srv0, started, autos, pick, steps, hist, done>>

G_ProgressDone ==
  /\ phase = "progress" /\ ProgressLeft = {}
  /\ phase' = "kernel"
  /\ UNCHANGED <<vars, seenC, seenP, ready, readyKeys, srv0, started, credits, autos, pick, steps, hist, done>>

\* after the checker's pass: the kernel answers the new connection attempts, and the server at address 1 (the quick
\* one; address 2 only acts through explicit schedule steps) answers / closes as soon as it has the request
SynLeft == {p \in Pids : inflight[p].wire = "syn"}
AutoLeft == {p \in Pids : inflight[p].addr = 1 /\ inflight[p].wire = "estab" /\ inflight[p].phase = "sent"
                           /\ ModeOf(p) \in Answering \cup {"close"}}
G_Kernel ==
  /\ phase = "kernel"
  /\ \/ \E p \in SynLeft : (Srv_Refuse(p) \/ Srv_Accept(p)) /\ UNCHANGED autos
     \/ /\ SynLeft = {}
        /\ \E p \in AutoLeft :
             \/ Srv_Close(p) /\ autos' = Append(autos, SrvRec("close", p, FALSE))
             \/ \E good \in BOOLEAN : Srv_Answer(p, good) /\ autos' = Append(autos, SrvRec("answer", p, good))
  /\ UNCHANGED <<phase, seenC, seenP, ready, readyKeys, srv0, started, credits, pick, steps, hist, done>>

G_PollEnd ==
  /\ phase = "kernel" /\ SynLeft = {} /\ AutoLeft = {}
  /\ phase' = "idle"
  /\ \E n \in 1..8 : pick' = n
  /\ hist' = Append(hist, [step |-> [op |-> "poll", ready |-> SetToSeq(readyKeys),
                                     started |-> started, credits |-> SetToSeq(credits), autos |-> autos],
                           post |-> Snapshot])
  /\ UNCHANGED <<vars, seenC, seenP, ready, readyKeys, srv0, started, credits, autos, steps, done>>

\* a kind with nothing to do: pick again
G_Repick ==
  /\ phase = "idle" /\ steps < MaxSteps
  /\ ~ENABLED (G_Cfg \/ G_Mode \/ G_Srv \/ G_Tick)
  /\ \E n \in 1..8 : pick' = n /\ n # pick
  /\ UNCHANGED <<vars, phase, seenC, seenP, ready, readyKeys, srv0, started, credits, autos, steps, hist, done>>

G_Finish ==
  /\ phase = "idle" /\ steps = MaxSteps /\ ~done /\ done' = TRUE
  /\ UNCHANGED <<vars, phase, seenC, seenP, ready, readyKeys, srv0, started, credits, autos, pick, steps, hist>>

\* the schedules start from a populated worker (the replayer sets it up with the same commands, without polling):
\* cluster c1 checked, with three backends (two at one address) and sometimes the unroutable one; c2 with one or two
B(i, a) == [id |-> i, addr |-> a]
GenInit ==
  /\ cfg \in [Clusters -> Configs \cup {NoCfg}] /\ HasCfg("c1")
  /\ \E l1 \in {<<B("b1", 1), B("b2", 2), B("b3", 1)>>, <<B("b1", 1), B("b2", 2), B("b4", 3)>>, <<B("b2", 2), B("b1", 1)>>},
        l2 \in {<<B("b1", 1)>>, <<B("b2", 2), B("b3", 1)>>} :
        list = [c \in Clusters |-> IF c = "c1" THEN l1 ELSE l2]
  /\ hs = [c \in Clusters |-> [s \in Range(list[c]) |-> Fresh]]
  /\ inflight = [p \in {} |-> 0]
  /\ since = [c \in Clusters |-> Never]
  /\ srv \in [Addrs -> {"s200", "s500", "stall"}]
  /\ envSteps = 0 /\ cfgSteps = 0
  /\ act = Label("Init", "", {})
  /\ autos = <<>>
  /\ phase = "poll" /\ seenC = {} /\ seenP = {} /\ ready = {} /\ readyKeys = {} /\ srv0 = srv
  /\ started = <<>> /\ credits = {}
  /\ pick \in 1..8 /\ steps = 0 /\ done = FALSE
  /\ hist = <<[step |-> [op |-> "init", cfg |-> [i \in 1..Len(ClusterSeq) |-> [c |-> ClusterSeq[i], k |-> cfg[ClusterSeq[i]]]],
                         modes |-> SetToSeq({[addr |-> a, m |-> srv[a]] : a \in Addrs})],
               post |-> Snapshot]>>

GenNext ==
  \/ (G_Cfg \/ G_Mode \/ G_Srv \/ G_Tick) /\ UNCHANGED pick
  \/ G_PollBegin \/ G_Round \/ G_RoundsDone \/ G_Progress \/ G_ProgressDone \/ G_Kernel \/ G_PollEnd
  \/ G_Repick \/ G_Finish

GenSpec == GenInit /\ [][GenNext]_gvars

\* the initial server modes are part of the schedule
EmitHist == done => PrintT(<<"REPLAY", ToJson(hist)>>)
=============================================================================
