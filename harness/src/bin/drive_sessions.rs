//! C16 I->S: drives a real sozu worker (HTTP, HTTPS and TCP listeners, small max_connections, short
//! timeouts) with seeded waves of session outcomes and records one ndjson event per step of
//! spec/Sessions.tla, to be validated by spec/Trace_Sessions.tla:
//!   * worker-thread events come from the cfg(sozu_verif) hooks (check_limits / incr / decr, accept
//!     queue push and pop, per-(cluster, ip) gate + track / untrack, session close, loop_idle);
//!   * the harness's own observations: `connect` (written BEFORE the connect call), `served` (first
//!     byte received from sozu; written AFTER draining the hook channel, together with the set of
//!     sockets the harness still sees open, checked with poll(POLLRDHUP)), `client_close`;
//!   * `quiesce` after each wave: every gauge of QueryMetrics, compared by the spec with `baseline`.
//!   * `backend_saw`: the harness owns the backends; every request / first TCP payload carries the client's
//!     port and the number of table wipes acknowledged so far (`X-Verif: port.epoch`, `#port.epoch#`), and the
//!     backend that receives it says so. A connection reaches a backend only through the per-(cluster, ip)
//!     gate, so Trace_Sessions demands the matching `sm_track` earlier in the trace - whatever the limit was.
//!   * `set_override`: AddCluster for an existing cluster with another max_connections_per_ip; written where
//!     the worker handled the command (its `worker_cmd` hook event, matched by request id).
//! The driver never asserts what a response should be - it only records. The single trace is one
//! causally merged stream: a harness action is logged before it is performed, a harness observation
//! after every hook event that can have caused it (see design_notes/C16.md).
use std::collections::{BTreeMap, BTreeSet, HashMap};
use std::io::{Read, Write};
use std::net::{SocketAddr, TcpListener, TcpStream};
use std::os::fd::{AsRawFd, FromRawFd};
use std::sync::mpsc::{Receiver, Sender, channel};
use std::sync::{Arc, Mutex};
use std::time::{Duration, Instant};

use rand::rngs::StdRng;
use rand::{RngExt, SeedableRng};
use serde_json::{Map, Value, json};
use sozu_command_lib::config::ListenerBuilder;
use sozu_command_lib::proto::command::{
    ActivateListener, AddCertificate, CertificateAndKey, Cluster, ListenerType, QueryMetricsOptions, RemoveBackend, SoftStop,
    filtered_metrics, request::RequestType, response_content::ContentType,
};
use sozu_command_lib::scm_socket::Listeners;
use sozu_command_lib::state::ConfigState;
use vh::h2::{Frame, H2Conn, RecordingVerifier, TlsStream, request_block};
use vh::worker::{LOCAL_CERT, LOCAL_KEY, Worker, free_addr, ok, server_config};

const FRONT_TIMEOUT: u32 = 2;
const BACK_TIMEOUT: u32 = 2;
const CONNECT_TIMEOUT: u32 = 1;
const REQUEST_TIMEOUT: u32 = 2;
const ZOMBIE_INTERVAL: u32 = 3;
const QUEUE_TIMEOUT_S: u32 = 1;
/// deadline for anything that depends on a sozu timeout: >= 3x the largest configured timeout, >= 2 s
const RECLAIM_DEADLINE: Duration = Duration::from_secs(12);
const T: Duration = Duration::from_secs(3);
const KNOWN_HOOKS: [&str; 18] = [
    "loop_idle", "sm_check_limits", "sm_incr", "sm_decr", "sm_track", "sm_untrack_all", "sm_clear", "sm_set_per_ip_limit",
    "sm_at_limit", "accept_push", "create_pop", "create_done", "create_loop_end", "evict", "session_close", "close_sweep",
    "zombie_sweep", "gauge_underflow",
];

// ---------------------------------------------------------------------------------------------
// backends

/// what a backend reports: (cluster, client port, wipe epoch) read from the tag the client put into its request
type Saw = (String, u16, u64);

/// "<port>.<epoch>" -> (port, epoch)
fn parse_tag(t: &str) -> Option<(u16, u64)> {
    let (p, e) = t.trim().split_once('.')?;
    Some((p.parse().ok()?, e.parse().ok()?))
}

fn spawn_h1_backend(addr: SocketAddr, cluster: &'static str, tx: Sender<Saw>) {
    let l = TcpListener::bind(addr).expect("bind backend");
    std::thread::spawn(move || {
        for s in l.incoming() {
            let Ok(mut s) = s else { continue };
            let tx = tx.clone();
            std::thread::spawn(move || {
                s.set_read_timeout(Some(Duration::from_secs(15))).ok();
                let mut buf: Vec<u8> = Vec::new();
                loop {
                    // read one request head
                    let head_end = loop {
                        if let Some(p) = find(&buf, b"\r\n\r\n") {
                            break Some(p + 4);
                        }
                        let mut tmp = [0u8; 4096];
                        match s.read(&mut tmp) {
                            Ok(0) | Err(_) => break None,
                            Ok(n) => buf.extend_from_slice(&tmp[..n]),
                        }
                    };
                    let Some(end) = head_end else { return };
                    let head = String::from_utf8_lossy(&buf[..end]).to_string();
                    buf.drain(..end);
                    let path = head.split_whitespace().nth(1).unwrap_or("/").to_string();
                    if let Some((p, e)) = head.lines().find_map(|l| {
                        let (k, v) = l.split_once(':')?;
                        if k.trim().eq_ignore_ascii_case("x-verif") { parse_tag(v) } else { None }
                    }) {
                        let _ = tx.send((cluster.to_string(), p, e));
                    }
                    if path.ends_with("/close") {
                        return; // close without answering
                    } else if path.ends_with("/stall") {
                        // never answer; leave when the peer does
                        let mut tmp = [0u8; 256];
                        loop {
                            match s.read(&mut tmp) {
                                Ok(0) | Err(_) => return,
                                Ok(_) => {}
                            }
                        }
                    } else if path.ends_with("/half") {
                        // headers promise more than is sent, then close
                        let _ = s.write_all(b"HTTP/1.1 200 OK\r\nContent-Length: 100\r\n\r\npartial");
                        return;
                    } else if path.ends_with("/ws") {
                        let _ = s.write_all(b"HTTP/1.1 101 Switching Protocols\r\nUpgrade: websocket\r\nConnection: Upgrade\r\n\r\n");
                        let mut tmp = [0u8; 1024];
                        loop {
                            match s.read(&mut tmp) {
                                Ok(0) | Err(_) => return,
                                Ok(n) => {
                                    if tmp[..n].contains(&b'Q') {
                                        return; // backend side ends the websocket
                                    }
                                    if s.write_all(&tmp[..n]).is_err() {
                                        return;
                                    }
                                }
                            }
                        }
                    } else {
                        let body = b"hello";
                        let resp = format!("HTTP/1.1 200 OK\r\nContent-Length: {}\r\n\r\n", body.len());
                        if s.write_all(resp.as_bytes()).is_err() || s.write_all(body).is_err() {
                            return;
                        }
                    }
                }
            });
        }
    });
}

fn spawn_tcp_backend(addr: SocketAddr, cluster: &'static str, tx: Sender<Saw>) {
    let l = TcpListener::bind(addr).expect("bind tcp backend");
    std::thread::spawn(move || {
        for s in l.incoming() {
            let Ok(mut s) = s else { continue };
            let tx = tx.clone();
            std::thread::spawn(move || {
                s.set_read_timeout(Some(Duration::from_secs(15))).ok();
                let mut tmp = [0u8; 1024];
                let mut first = true;
                loop {
                    match s.read(&mut tmp) {
                        Ok(0) | Err(_) => return,
                        Ok(n) => {
                            if first {
                                first = false;
                                // "#<port>.<epoch>#" in front of the client's first payload
                                let txt = String::from_utf8_lossy(&tmp[..n]).to_string();
                                if let Some(tag) = txt.strip_prefix('#').and_then(|r| r.split_once('#')).and_then(|(t, _)| parse_tag(t)) {
                                    let _ = tx.send((cluster.to_string(), tag.0, tag.1));
                                }
                            }
                            if tmp[..n].contains(&b'C') {
                                return; // backend closes
                            }
                            if tmp[..n].contains(&b'S') {
                                continue; // stall: swallow
                            }
                            if s.write_all(&tmp[..n]).is_err() {
                                return;
                            }
                        }
                    }
                }
            });
        }
    });
}

fn find(h: &[u8], n: &[u8]) -> Option<usize> {
    h.windows(n.len()).position(|w| w == n)
}

// ---------------------------------------------------------------------------------------------
// client sockets bound to a chosen (address, port): the port is the socket's id in the trace

fn bound_connect(ip: [u8; 4], port: u16, dst: SocketAddr) -> std::io::Result<TcpStream> {
    unsafe {
        let fd = libc::socket(libc::AF_INET, libc::SOCK_STREAM | libc::SOCK_CLOEXEC, 0);
        if fd < 0 {
            return Err(std::io::Error::last_os_error());
        }
        let one: libc::c_int = 1;
        libc::setsockopt(fd, libc::SOL_SOCKET, libc::SO_REUSEADDR, &one as *const _ as *const libc::c_void, 4);
        let mk = |ip: [u8; 4], port: u16| libc::sockaddr_in {
            sin_family: libc::AF_INET as u16,
            sin_port: port.to_be(),
            sin_addr: libc::in_addr { s_addr: u32::from_ne_bytes(ip) },
            sin_zero: [0; 8],
        };
        let local = mk(ip, port);
        if libc::bind(fd, &local as *const _ as *const libc::sockaddr, std::mem::size_of::<libc::sockaddr_in>() as u32) != 0 {
            let e = std::io::Error::last_os_error();
            libc::close(fd);
            return Err(e);
        }
        let dip = match dst {
            SocketAddr::V4(a) => a.ip().octets(),
            _ => [127, 0, 0, 1],
        };
        let remote = mk(dip, dst.port());
        if libc::connect(fd, &remote as *const _ as *const libc::sockaddr, std::mem::size_of::<libc::sockaddr_in>() as u32) != 0 {
            let e = std::io::Error::last_os_error();
            libc::close(fd);
            return Err(e);
        }
        Ok(TcpStream::from_raw_fd(fd))
    }
}

/// (readable, peer_closed) right now
fn poll_fd(fd: i32, timeout_ms: i32) -> (bool, bool) {
    let mut p = libc::pollfd { fd, events: libc::POLLIN | libc::POLLRDHUP, revents: 0 };
    let r = unsafe { libc::poll(&mut p, 1, timeout_ms) };
    if r <= 0 {
        return (false, false);
    }
    (p.revents & libc::POLLIN != 0, p.revents & (libc::POLLRDHUP | libc::POLLHUP | libc::POLLERR) != 0)
}

fn has_data(s: &TcpStream) -> bool {
    let mut b = [0u8; 1];
    s.set_nonblocking(true).ok();
    let r = matches!(s.peek(&mut b), Ok(n) if n > 0);
    s.set_nonblocking(false).ok();
    r
}

#[derive(Clone, Copy, PartialEq, Debug)]
enum Kind {
    H1,
    Tls,
    Tcp,
    TcpDead,
    /// TCP listener whose cluster has no backend at all: the session passes the gate, then backend selection fails
    TcpNone,
    /// TCP listener whose only backend is removed / put back at run time
    TcpGone,
}

/// how a connection of the `enable` / `leak` waves talks
#[derive(Clone, Copy, PartialEq, Debug)]
enum Flavor {
    H1,
    TlsH1,
    TlsH2,
    Tcp,
}

struct Cli {
    port: u16,
    sock: Option<TcpStream>,
    tls: Option<H2Conn<TlsStream>>,
    served: bool,
    note: String,
    kind: Kind,
    /// TCP: the tag was sent with the first payload
    tagged: bool,
    /// H2: preface sent, next stream id
    h2_ready: bool,
    h2_sid: u32,
}

struct Driver {
    rng: StdRng,
    w: Worker,
    rx: Receiver<sozu_lib::verif::Event>,
    /// what the backends saw
    brx: Receiver<Saw>,
    /// kind of the last hook event written to the trace
    last_hook: &'static str,
    /// table wipes (SetMaxConnectionsPerIp(0)) acknowledged so far
    epoch: u64,
    /// AddCluster requests in flight that change a cluster's max_connections_per_ip: request id -> (cluster, value)
    pending_ovr: HashMap<String, (String, i64)>,
    tcp_none: SocketAddr,
    tcp_gone: SocketAddr,
    gone_backend: SocketAddr,
    /// enable waves run so far
    enable_count: u32,
    trace: Vec<Value>,
    last_idle: Option<Value>,
    /// latest loop_idle seen (kept or not) and whether a non-idle worker event came after it
    latest_idle: Option<BTreeMap<String, i64>>,
    connected: BTreeSet<u16>,
    accepted: BTreeSet<u16>,
    next_port: u16,
    clients: Vec<Cli>,
    http: SocketAddr,
    https: SocketAddr,
    tcp: SocketAddr,
    tcp_dead: SocketAddr,
    hook_events: u64,
    underflows: Vec<Value>,
    max_served: usize,
    max_conn: usize,
    statuses: BTreeMap<String, u64>,
    waves: Vec<Value>,
    failures: Vec<Value>,
    baseline_gauges: Option<BTreeMap<String, i64>>,
    /// debugging: force one scenario number in every wave (--only N)
    only: Option<u32>,
    /// debugging: force the random sub-choices of a scenario (--sub bits: 1 = reset stream, 2 = wait for sozu, 4 = close now)
    sub: Option<u32>,
}

impl Driver {
    fn log(&mut self, v: Value) {
        self.trace.push(v);
    }

    /// move every hook event emitted so far into the trace
    fn drain(&mut self) {
        // what the backends saw so far is taken FIRST: every hook event that led to it (the gate, the track) was
        // emitted before the backend could see anything, so it is in the hook channel by now and is written first
        let saws: Vec<Saw> = self.brx.try_iter().collect();
        self.drain_hooks();
        for (c, p, e) in saws {
            self.trace.push(json!({"ev": "backend_saw", "cluster": c, "port": p, "epoch": e}));
        }
    }

    fn drain_hooks(&mut self) {
        loop {
            let e = match self.rx.try_recv() {
                Ok(e) => e,
                Err(_) => {
                    // the end of a session ([sm_untrack_all] session_close sm_decr) and a wipe (sm_clear
                    // sm_set_per_ip_limit) are several events of ONE step of the worker, consumed as one action by
                    // the trace spec: never let a harness event fall in between
                    if !matches!(self.last_hook, "sm_untrack_all" | "session_close" | "sm_clear") {
                        break;
                    }
                    match self.rx.recv_timeout(Duration::from_millis(500)) {
                        Ok(e) => e,
                        Err(_) => break,
                    }
                }
            };
            if e.kind == "worker_cmd" {
                // the worker has handled one command: an override change takes effect exactly here
                let id = e.strs.iter().find(|(k, _)| *k == "id").map(|(_, v)| v.clone());
                if let Some((c, v)) = id.and_then(|id| self.pending_ovr.remove(&id)) {
                    self.hook_events += 1;
                    self.latest_idle = None;
                    self.last_idle = None;
                    self.trace.push(json!({"ev": "set_override", "cluster": c, "value": v}));
                }
                continue;
            }
            // hooks of other checks (worker_cmd, ...) are not part of this trace
            if !KNOWN_HOOKS.contains(&e.kind) {
                continue;
            }
            self.hook_events += 1;
            self.last_hook = e.kind;
            let mut m = Map::new();
            m.insert("ev".into(), json!(e.kind));
            for (k, v) in &e.nums {
                m.insert((*k).into(), json!(v));
            }
            for (k, v) in &e.strs {
                m.insert((*k).into(), json!(v));
            }
            let v = Value::Object(m);
            match e.kind {
                "loop_idle" => {
                    self.latest_idle = Some(e.nums.iter().map(|(k, v)| (k.to_string(), *v)).collect());
                    if self.last_idle.as_ref() != Some(&v) {
                        self.last_idle = Some(v.clone());
                        self.trace.push(v);
                    }
                    continue;
                }
                "gauge_underflow" => self.underflows.push(v.clone()),
                "accept_push" => {
                    if let Some(p) = v["port"].as_i64() {
                        self.accepted.insert(p as u16);
                    }
                }
                _ => {}
            }
            self.latest_idle = None;
            self.last_idle = None;
            self.trace.push(v);
        }
    }

    fn alloc_port(&mut self) -> u16 {
        let p = self.next_port;
        self.next_port += 1;
        p
    }

    fn target(&self, kind: Kind) -> SocketAddr {
        match kind {
            Kind::H1 => self.http,
            Kind::Tls => self.https,
            Kind::Tcp => self.tcp,
            Kind::TcpDead => self.tcp_dead,
            Kind::TcpNone => self.tcp_none,
            Kind::TcpGone => self.tcp_gone,
        }
    }

    /// open a client connection from 127.0.0.<ip>; returns its index
    fn open(&mut self, kind: Kind, ip: u8) -> Option<usize> {
        for _ in 0..50 {
            let port = self.alloc_port();
            // harness action: logged before it is performed
            self.log(json!({"ev": "connect", "port": port, "ip": format!("127.0.0.{ip}"), "kind": format!("{kind:?}")}));
            match bound_connect([127, 0, 0, ip], port, self.target(kind)) {
                Ok(s) => {
                    s.set_nodelay(true).ok();
                    s.set_read_timeout(Some(T)).ok();
                    s.set_write_timeout(Some(T)).ok();
                    self.connected.insert(port);
                    self.clients.push(Cli { port, sock: Some(s), tls: None, served: false, note: String::new(), kind, tagged: false, h2_ready: false, h2_sid: 1 });
                    self.max_conn = self.max_conn.max(self.clients.iter().filter(|c| c.sock.is_some() || c.tls.is_some()).count());
                    return Some(self.clients.len() - 1);
                }
                Err(_) => {
                    // port busy or connection refused: the connect did not happen
                    let n = self.trace.len();
                    self.trace[n - 1] = json!({"ev": "note", "what": "connect failed", "port": port});
                }
            }
        }
        None
    }

    fn fd_of(&self, i: usize) -> Option<i32> {
        let c = &self.clients[i];
        c.sock.as_ref().map(|s| s.as_raw_fd()).or_else(|| c.tls.as_ref().map(|t| t.s.sock.as_raw_fd()))
    }

    /// the sockets the harness still sees open and served, evaluated now
    fn open_served(&self) -> Vec<u16> {
        let mut out = Vec::new();
        for (i, c) in self.clients.iter().enumerate() {
            if !c.served {
                continue;
            }
            if let Some(fd) = self.fd_of(i) {
                let (_, closed) = poll_fd(fd, 0);
                if !closed {
                    out.push(c.port);
                }
            }
        }
        out
    }

    /// harness observation: client i has received its first byte from sozu
    fn mark_served(&mut self, i: usize) {
        if self.clients[i].served {
            return;
        }
        self.clients[i].served = true;
        self.drain();
        let open = self.open_served();
        self.max_served = self.max_served.max(open.len());
        let port = self.clients[i].port;
        self.log(json!({"ev": "served", "port": port, "open": open}));
    }

    /// wait until client i has a byte to read (-> served) or was closed by sozu; true if a byte came
    fn await_byte(&mut self, i: usize, deadline: Duration) -> bool {
        let Some(fd) = self.fd_of(i) else { return false };
        let end = Instant::now() + deadline;
        loop {
            let (readable, closed) = poll_fd(fd, 50);
            if readable {
                let data = match &self.clients[i].sock {
                    Some(s) => has_data(s),
                    None => true,
                };
                if data {
                    self.mark_served(i);
                    return true;
                }
                return false; // EOF without data
            }
            if closed || Instant::now() >= end {
                return false;
            }
        }
    }

    fn tag_of(&self, i: usize) -> String {
        format!("{}.{}", self.clients[i].port, self.epoch)
    }

    /// the bytes with the connection's tag: a header in a complete GET request, a prefix of the first TCP payload
    fn tagged(&mut self, i: usize, bytes: &[u8]) -> Vec<u8> {
        let tag = self.tag_of(i);
        match self.clients[i].kind {
            Kind::H1 | Kind::Tls => {
                if bytes.starts_with(b"GET ") && bytes.ends_with(b"\r\n\r\n") {
                    let mut v = bytes[..bytes.len() - 2].to_vec();
                    v.extend_from_slice(format!("X-Verif: {tag}\r\n\r\n").as_bytes());
                    v
                } else {
                    bytes.to_vec()
                }
            }
            _ => {
                if self.clients[i].tagged {
                    bytes.to_vec()
                } else {
                    self.clients[i].tagged = true;
                    [format!("#{tag}#").as_bytes(), bytes].concat()
                }
            }
        }
    }

    fn send(&mut self, i: usize, bytes: &[u8]) -> bool {
        let bytes = self.tagged(i, bytes);
        match self.clients[i].sock.as_mut() {
            Some(s) => s.write_all(&bytes).is_ok(),
            None => false,
        }
    }

    /// read one HTTP/1.1 response head (+ declared body); returns the status code
    fn read_h1(&mut self, i: usize, deadline: Duration) -> Option<u16> {
        if !self.await_byte(i, deadline) {
            return None;
        }
        let s = self.clients[i].sock.as_mut()?;
        s.set_read_timeout(Some(deadline.min(T))).ok();
        let mut buf = Vec::new();
        let mut tmp = [0u8; 4096];
        let end = Instant::now() + deadline;
        loop {
            if let Some(p) = find(&buf, b"\r\n\r\n") {
                let head = String::from_utf8_lossy(&buf[..p]).to_ascii_lowercase();
                let status = head.split_whitespace().nth(1).and_then(|x| x.parse::<u16>().ok());
                let cl = head.lines().find_map(|l| l.strip_prefix("content-length:").and_then(|v| v.trim().parse::<usize>().ok())).unwrap_or(0);
                let mut have = buf.len() - (p + 4);
                while have < cl && Instant::now() < end {
                    match s.read(&mut tmp) {
                        Ok(0) | Err(_) => break,
                        Ok(n) => have += n,
                    }
                }
                return status;
            }
            if Instant::now() >= end {
                return None;
            }
            match s.read(&mut tmp) {
                Ok(0) => return None,
                Ok(n) => buf.extend_from_slice(&tmp[..n]),
                Err(_) => return None,
            }
        }
    }

    fn status(&mut self, what: &str, st: Option<u16>) {
        let k = format!("{what}:{}", st.map(|s| s.to_string()).unwrap_or_else(|| "none".into()));
        *self.statuses.entry(k).or_default() += 1;
    }

    /// wait until sozu closes client i (EOF / reset). true if it did within the deadline
    fn await_closed(&mut self, i: usize, deadline: Duration) -> bool {
        let Some(fd) = self.fd_of(i) else { return true };
        let end = Instant::now() + deadline;
        loop {
            let (readable, closed) = poll_fd(fd, 50);
            if closed {
                return true;
            }
            if readable {
                // swallow data (a default answer such as 408 / 504 before the close)
                let mut got_eof = false;
                if let Some(s) = self.clients[i].sock.as_mut() {
                    if has_data(s) {
                        self.mark_served(i);
                    }
                    let s = self.clients[i].sock.as_mut().unwrap();
                    s.set_read_timeout(Some(Duration::from_millis(50))).ok();
                    let mut tmp = [0u8; 4096];
                    if let Ok(0) = s.read(&mut tmp) {
                        got_eof = true;
                    }
                } else {
                    self.mark_served(i);
                    if let Some(t) = self.clients[i].tls.as_mut() {
                        let _ = t.read_frame(Duration::from_millis(50));
                        got_eof = t.eof;
                    }
                }
                if got_eof {
                    return true;
                }
            }
            if Instant::now() >= end {
                return false;
            }
        }
    }

    fn close(&mut self, i: usize) {
        if self.clients[i].sock.is_none() && self.clients[i].tls.is_none() {
            return;
        }
        let port = self.clients[i].port;
        // harness action: logged before it is performed
        self.log(json!({"ev": "client_close", "port": port}));
        self.clients[i].sock = None;
        self.clients[i].tls = None;
        self.clients[i].served = false;
    }

    fn close_all(&mut self) {
        for i in 0..self.clients.len() {
            self.close(i);
        }
        self.clients.clear();
    }

    // ---- TLS --------------------------------------------------------------------------------

    /// TLS handshake on client i (ALPN as given); Ok(()) when established
    fn tls_handshake(&mut self, i: usize, alpn: &[&[u8]]) -> Result<(), String> {
        let _ = rustls::crypto::ring::default_provider().install_default();
        let verifier = Arc::new(RecordingVerifier { leaf: Mutex::new(None) });
        let mut config = rustls::ClientConfig::builder().dangerous().with_custom_certificate_verifier(verifier).with_no_client_auth();
        config.alpn_protocols = alpn.iter().map(|a| a.to_vec()).collect();
        let name = rustls::pki_types::ServerName::try_from("localhost".to_owned()).map_err(|e| e.to_string())?;
        let mut conn = rustls::ClientConnection::new(Arc::new(config), name).map_err(|e| e.to_string())?;
        {
            let s = self.clients[i].sock.as_mut().ok_or("no socket")?;
            conn.write_tls(s).map_err(|e| format!("hello: {e}"))?;
        }
        if !self.await_byte(i, T) {
            return Err("no ServerHello".into());
        }
        let sock = self.clients[i].sock.take().ok_or("no socket")?;
        let mut st = rustls::StreamOwned::new(conn, sock);
        while st.conn.is_handshaking() {
            if let Err(e) = st.conn.complete_io(&mut st.sock) {
                // keep the fd in the client record so that it is closed through close()
                self.clients[i].sock = Some(st.sock);
                return Err(format!("handshake: {e}"));
            }
        }
        self.clients[i].tls = Some(H2Conn::new(st));
        Ok(())
    }

    // ---- waves ------------------------------------------------------------------------------

    fn h1_scenario(&mut self, i: usize, which: u32) {
        let c = if self.rng.random_bool(0.5) { "c1" } else { "c2" };
        match which {
            0 => {
                self.send(i, format!("GET /{c}/ok HTTP/1.1\r\nHost: localhost\r\n\r\n").as_bytes());
                let st = self.read_h1(i, T);
                self.status("ok", st);
            }
            1 => {
                // keep-alive over both clusters: one connection, two (cluster, ip) slots
                self.send(i, b"GET /c1/ok HTTP/1.1\r\nHost: localhost\r\n\r\n");
                let st = self.read_h1(i, T);
                self.status("ka1", st);
                self.send(i, b"GET /c2/ok HTTP/1.1\r\nHost: localhost\r\n\r\n");
                let st = self.read_h1(i, T);
                self.status("ka2", st);
                self.send(i, b"GET /c1/ok HTTP/1.1\r\nHost: localhost\r\n\r\n");
                let st = self.read_h1(i, T);
                self.status("ka3", st);
            }
            2 => {
                self.send(i, b"GET /c1/ok HT");
                self.clients[i].note = "abort-partial".into();
            }
            3 => {
                self.send(i, format!("GET /{c}/stall HTTP/1.1\r\nHost: localhost\r\n\r\n").as_bytes());
                std::thread::sleep(Duration::from_millis(self.rng.random_range(20..150)));
                self.close(i);
            }
            4 => {
                self.send(i, format!("GET /{c}/close HTTP/1.1\r\nHost: localhost\r\n\r\n").as_bytes());
                let st = self.read_h1(i, RECLAIM_DEADLINE);
                self.status("backend-close", st);
            }
            5 => {
                self.send(i, format!("GET /{c}/stall HTTP/1.1\r\nHost: localhost\r\n\r\n").as_bytes());
                self.clients[i].note = "await-timeout".into();
            }
            6 => {
                self.send(i, b"GET /dead/x HTTP/1.1\r\nHost: localhost\r\n\r\n");
                let st = self.read_h1(i, RECLAIM_DEADLINE);
                self.status("refused", st);
            }
            7 => {
                self.clients[i].note = "await-timeout".into(); // idle: nothing sent
            }
            8 => {
                self.send(i, format!("GET /{c}/ws HTTP/1.1\r\nHost: localhost\r\nConnection: Upgrade\r\nUpgrade: websocket\r\n\r\n").as_bytes());
                let st = self.read_h1(i, T);
                self.status("ws", st);
                if st == Some(101) {
                    let quit = self.rng.random_bool(0.4);
                    self.send(i, if quit { b"byeQ" } else { b"ping" });
                    if quit {
                        self.clients[i].note = "await-timeout".into(); // backend ends it: sozu must close us
                    } else {
                        let mut tmp = [0u8; 16];
                        if let Some(s) = self.clients[i].sock.as_mut() {
                            let _ = s.read(&mut tmp);
                        }
                    }
                }
            }
            9 => {
                self.send(i, b"GET /nowhere HTTP/1.1\r\nHost: localhost\r\n\r\n");
                let st = self.read_h1(i, T);
                self.status("unknown", st);
            }
            10 => {
                self.send(i, format!("GET /{c}/half HTTP/1.1\r\nHost: localhost\r\n\r\n").as_bytes());
                let st = self.read_h1(i, T);
                self.status("half", st);
            }
            _ => {
                self.send(i, b"BOGUS\r\n\r\n");
                let st = self.read_h1(i, T);
                self.status("bogus", st);
            }
        }
    }

    /// sockets marked await-timeout must be closed by sozu itself within the deadline
    fn await_reclaimed(&mut self, wave: &str) {
        let idx: Vec<usize> = (0..self.clients.len()).filter(|i| self.clients[*i].note == "await-timeout" && self.fd_of(*i).is_some()).collect();
        let end = Instant::now() + RECLAIM_DEADLINE;
        for i in idx {
            let left = end.saturating_duration_since(Instant::now()).max(Duration::from_millis(100));
            if !self.await_closed(i, left) {
                self.drain();
                let port = self.clients[i].port;
                self.log(json!({"ev": "not_reclaimed", "port": port, "wave": wave, "deadline_ms": RECLAIM_DEADLINE.as_millis() as u64}));
                self.failures.push(json!({"class": "not-reclaimed", "port": port, "wave": wave}));
            }
        }
    }

    fn wave_h1(&mut self, n: usize) {
        for _ in 0..n {
            let ip = if self.rng.random_bool(0.7) { 1 } else { 2 };
            let Some(i) = self.open(Kind::H1, ip) else { continue };
            let which = self.only.unwrap_or_else(|| self.rng.random_range(0..12));
            self.h1_scenario(i, which);
            if self.rng.random_bool(0.5) && self.clients[i].note.is_empty() {
                self.close(i);
            }
        }
        self.await_reclaimed("h1");
    }

    fn wave_storm(&mut self, n: usize) {
        let mut idx = Vec::new();
        for k in 0..n {
            let ip = if k % 3 == 0 { 2 } else { 1 };
            if let Some(i) = self.open(Kind::H1, ip) {
                self.send(i, b"GET /c1/ok HTTP/1.1\r\nHost: localhost\r\n\r\n");
                idx.push(i);
            }
        }
        let mut served = 0;
        for &i in &idx {
            if self.read_h1(i, Duration::from_millis(700)).is_some() {
                served += 1;
            }
        }
        self.status("storm-served", Some(served as u16));
        // late arrivals: they knock while the cap is reached (accepting is switched off)
        for k in 0..(n / 6).max(2) {
            if let Some(i) = self.open(Kind::H1, if k % 2 == 0 { 1 } else { 2 }) {
                self.send(i, b"GET /c2/ok HTTP/1.1\r\nHost: localhost\r\n\r\n");
                idx.push(i);
            }
        }
        std::thread::sleep(Duration::from_millis(50));
        // free a few slots, then the survivors of the queue / new sockets must get through
        for &i in idx.iter().take(n / 2) {
            self.close(i);
        }
        for &i in &idx {
            if self.fd_of(i).is_some() && !self.clients[i].served {
                let _ = self.read_h1(i, Duration::from_millis(300));
            }
        }
    }

    fn wave_tls(&mut self, n: usize) {
        for _ in 0..n {
            let ip = if self.rng.random_bool(0.6) { 1 } else { 2 };
            let Some(i) = self.open(Kind::Tls, ip) else { continue };
            match self.only.unwrap_or_else(|| self.rng.random_range(0..8)) {
                0 => {
                    self.send(i, b"\x16\x03\x01\x00\x05garbage-not-tls\r\n\r\n");
                    self.clients[i].note = "await-timeout".into();
                }
                1 => {
                    // ClientHello, then vanish
                    let _ = self.tls_handshake_partial(i);
                    self.close(i);
                }
                2 => {
                    self.clients[i].note = "await-timeout".into(); // never says hello
                }
                3 => {
                    // HTTP/1.1 over TLS
                    if self.tls_handshake(i, &[b"http/1.1"]).is_ok() {
                        let ws = self.rng.random_bool(0.5);
                        let quit = self.rng.random_bool(0.5);
                        let mut st = None;
                        let req_ws = self.tagged(i, b"GET /c1/ws HTTP/1.1\r\nHost: localhost\r\nConnection: Upgrade\r\nUpgrade: websocket\r\n\r\n");
                        let req_ok = self.tagged(i, b"GET /c1/ok HTTP/1.1\r\nHost: localhost\r\n\r\n");
                        if let Some(t) = self.clients[i].tls.as_mut() {
                            if ws {
                                t.send_raw(&req_ws);
                            } else {
                                t.send_raw(&req_ok);
                            }
                            let mut tmp = [0u8; 2048];
                            t.s.sock.set_read_timeout(Some(T)).ok();
                            st = t.s.read(&mut tmp).ok().filter(|n| *n > 12).and_then(|_| String::from_utf8_lossy(&tmp[9..12]).parse::<u16>().ok());
                            if ws && st == Some(101) {
                                // websocket over TLS: either side ends it
                                t.send_raw(if quit { b"byeQ" } else { b"ping" });
                                if !quit {
                                    let _ = t.s.read(&mut tmp);
                                }
                            }
                        }
                        self.status(if ws { "tls-ws" } else { "tls-h1" }, st);
                        if ws && quit && st == Some(101) {
                            self.clients[i].note = "await-timeout".into();
                        }
                    }
                }
                k => {
                    if self.tls_handshake(i, &[b"h2"]).is_err() {
                        *self.statuses.entry("h2-handshake-failed".into()).or_default() += 1;
                        continue;
                    }
                    let streams = self.rng.random_range(1..4u32);
                    let stall = k == 7;
                    let mut got = Vec::new();
                    let tag = self.tag_of(i);
                    if let Some(t) = self.clients[i].tls.as_mut() {
                        t.client_preface(&[]);
                        for s in 0..streams {
                            let sid = 1 + 2 * s;
                            let path = if stall && s == 0 { "/c1/stall" } else if s % 2 == 0 { "/c1/ok" } else { "/c2/ok" };
                            let block = request_block(&mut t.hp, "GET", "https", "localhost", path, &[("x-verif", &tag)]);
                            t.send(&Frame::headers(sid, block, true, true));
                        }
                        let want = if stall { streams - 1 } else { streams };
                        let mut done = 0;
                        let frames = t.read_until(T, |f| {
                            if f.end_stream() || f.ty == vh::h2::RST_STREAM {
                                done += 1;
                            }
                            done >= want || f.ty == vh::h2::GOAWAY
                        });
                        for f in &frames {
                            if f.ty == vh::h2::SETTINGS && f.flags & vh::h2::FLAG_ACK == 0 {
                                t.send(&Frame::settings_ack());
                            }
                            if f.ty == vh::h2::HEADERS {
                                if let Ok(h) = t.hp.decode(&f.payload) {
                                    if let Some((_, v)) = h.iter().find(|(k, _)| k == b":status") {
                                        got.push(String::from_utf8_lossy(v).to_string());
                                    }
                                }
                            }
                        }
                        let r = self.rng.random_bool(0.5);
                        if stall && self.sub.map(|b| b & 1 != 0).unwrap_or(r) {
                            t.send(&Frame::rst(1, 8));
                        }
                    }
                    for g in got {
                        *self.statuses.entry(format!("h2:{g}")).or_default() += 1;
                    }
                    let r = self.rng.random_bool(0.5);
                    if stall && self.sub.map(|b| b & 2 != 0).unwrap_or(r) {
                        self.clients[i].note = "await-timeout".into();
                    }
                }
            }
            let r = self.rng.random_bool(0.5);
            if self.sub.map(|b| b & 4 != 0).unwrap_or(r) && self.clients[i].note.is_empty() {
                self.close(i);
            }
        }
        self.await_reclaimed("tls");
    }

    fn tls_handshake_partial(&mut self, i: usize) -> Result<(), String> {
        let _ = rustls::crypto::ring::default_provider().install_default();
        let verifier = Arc::new(RecordingVerifier { leaf: Mutex::new(None) });
        let config = rustls::ClientConfig::builder().dangerous().with_custom_certificate_verifier(verifier).with_no_client_auth();
        let name = rustls::pki_types::ServerName::try_from("localhost".to_owned()).map_err(|e| e.to_string())?;
        let mut conn = rustls::ClientConnection::new(Arc::new(config), name).map_err(|e| e.to_string())?;
        let s = self.clients[i].sock.as_mut().ok_or("no socket")?;
        conn.write_tls(s).map_err(|e| e.to_string())?;
        let _ = self.await_byte(i, Duration::from_millis(300));
        Ok(())
    }

    fn wave_tcp(&mut self, n: usize) {
        for _ in 0..n {
            let ip = if self.rng.random_bool(0.6) { 1 } else { 2 };
            let dead = if let Some(o) = self.only { o == 9 } else { self.rng.random_range(0..5) == 0 };
            let Some(i) = self.open(if dead { Kind::TcpDead } else { Kind::Tcp }, ip) else { continue };
            if dead {
                self.clients[i].note = "await-timeout".into(); // no backend: sozu must close us
                continue;
            }
            match self.only.unwrap_or_else(|| self.rng.random_range(0..4)) {
                0 => {
                    self.send(i, b"echo");
                    let _ = self.await_byte(i, T);
                }
                1 => {
                    self.send(i, b"xC"); // backend closes
                    self.clients[i].note = "await-timeout".into();
                }
                2 => {
                    self.send(i, b"xS"); // backend swallows: relay stays idle -> timeout
                    self.clients[i].note = "await-timeout".into();
                }
                _ => {} // connect and leave
            }
            if self.rng.random_bool(0.5) && self.clients[i].note.is_empty() {
                self.close(i);
            }
        }
        self.await_reclaimed("tcp");
    }

    fn set_limit(&mut self, n: u64) {
        let r = self.w.request(RequestType::SetMaxConnectionsPerIp(n), T);
        if !ok(&r) {
            self.failures.push(json!({"class": "tool", "what": "SetMaxConnectionsPerIp not acknowledged"}));
        } else if n == 0 {
            // the wipe was acknowledged: whatever is sent from now on passes the gate after it
            self.epoch += 1;
        }
    }

    /// AddCluster again for an existing cluster, with another max_connections_per_ip (-1 = inherit the global limit)
    fn set_override(&mut self, cluster: &str, value: i64) {
        let cl = Cluster { cluster_id: cluster.into(), max_connections_per_ip: if value < 0 { None } else { Some(value as u64) }, ..Worker::default_cluster(cluster) };
        let id = self.w.send_type(RequestType::AddCluster(cl));
        self.pending_ovr.insert(id.clone(), (cluster.to_string(), value));
        let answered = self.w.wait_for(&id, T).into_iter().any(|r| ok(&Some(r)));
        self.drain();
        if !answered || self.pending_ovr.contains_key(&id) {
            self.failures.push(json!({"class": "tool", "what": "AddCluster (override change) not acknowledged"}));
        }
    }

    // ---- connections that talk one of four ways (waves enable / leak) --------------------------------

    fn open_flavor(&mut self, f: Flavor, ip: u8, tcp_kind: Kind) -> Option<usize> {
        let kind = match f {
            Flavor::H1 => Kind::H1,
            Flavor::TlsH1 | Flavor::TlsH2 => Kind::Tls,
            Flavor::Tcp => tcp_kind,
        };
        let i = self.open(kind, ip)?;
        match f {
            Flavor::TlsH1 => self.tls_handshake(i, &[b"http/1.1"]).ok().map(|_| i),
            Flavor::TlsH2 => self.tls_handshake(i, &[b"h2"]).ok().map(|_| i),
            _ => Some(i),
        }
    }

    /// one request (TCP: one payload) on connection i towards `cluster`; what came back is only recorded
    fn ask(&mut self, i: usize, f: Flavor, cluster: &str, what: &str) {
        let st: Option<u16> = match f {
            Flavor::H1 => {
                self.send(i, format!("GET /{cluster}/ok HTTP/1.1\r\nHost: localhost\r\n\r\n").as_bytes());
                self.read_h1(i, T)
            }
            Flavor::TlsH1 => {
                let req = self.tagged(i, format!("GET /{cluster}/ok HTTP/1.1\r\nHost: localhost\r\n\r\n").as_bytes());
                let mut st = None;
                if let Some(t) = self.clients[i].tls.as_mut() {
                    t.send_raw(&req);
                    let mut tmp = [0u8; 2048];
                    t.s.sock.set_read_timeout(Some(T)).ok();
                    st = t.s.read(&mut tmp).ok().filter(|n| *n > 12).and_then(|_| String::from_utf8_lossy(&tmp[9..12]).parse::<u16>().ok());
                }
                st
            }
            Flavor::TlsH2 => {
                let tag = self.tag_of(i);
                let path = format!("/{cluster}/ok");
                let (ready, sid) = (self.clients[i].h2_ready, self.clients[i].h2_sid);
                self.clients[i].h2_ready = true;
                self.clients[i].h2_sid = sid + 2;
                let mut st = None;
                if let Some(t) = self.clients[i].tls.as_mut() {
                    if !ready {
                        t.client_preface(&[]);
                    }
                    let block = request_block(&mut t.hp, "GET", "https", "localhost", &path, &[("x-verif", &tag)]);
                    t.send(&Frame::headers(sid, block, true, true));
                    let frames = t.read_until(T, |f| (f.sid == sid && (f.end_stream() || f.ty == vh::h2::RST_STREAM)) || f.ty == vh::h2::GOAWAY);
                    for f in &frames {
                        if f.ty == vh::h2::SETTINGS && f.flags & vh::h2::FLAG_ACK == 0 {
                            t.send(&Frame::settings_ack());
                        }
                        if f.ty == vh::h2::HEADERS {
                            if let Ok(h) = t.hp.decode(&f.payload) {
                                if f.sid == sid {
                                    st = h.iter().find(|(k, _)| k == b":status").and_then(|(_, v)| String::from_utf8_lossy(v).parse().ok());
                                }
                            }
                        }
                    }
                }
                st
            }
            Flavor::Tcp => {
                self.send(i, b"echo");
                if self.await_byte(i, Duration::from_millis(1500)) { Some(200) } else { Some(0) }
            }
        };
        let k = format!("{what}-{f:?}");
        self.status(&k, st);
    }

    fn pick_flavor(&mut self, tcp_ok: bool) -> Flavor {
        match self.rng.random_range(0..if tcp_ok { 5 } else { 4 }) {
            0 | 1 => Flavor::H1,
            2 => Flavor::TlsH1,
            3 => Flavor::TlsH2,
            _ => Flavor::Tcp,
        }
    }

    /// A limit switched on at run time must find the connections that are already being served.
    /// The resolved limit is 0 (since boot, or since the last wipe) while the first connections are opened and
    /// served; they stay open; the limit is switched on - the global one (SetMaxConnectionsPerIp) or the
    /// cluster's own (AddCluster again); the same address comes again; the old ones ask again; one leaves and
    /// another comes; optionally off (a wipe for the global limit, none for a cluster's) and on again.
    /// Nothing is asserted here: every gate decision is compared with the spec's tables by Trace_Sessions.
    fn wave_enable(&mut self) {
        // the first wave of a run switches the global limit (and always goes through off = wipe / on again), the second
        // one a cluster's own limit; after that the seed chooses
        let via_override = match self.enable_count {
            0 => false,
            1 => true,
            _ => self.rng.random_bool(0.4),
        };
        self.enable_count += 1;
        let hc = if via_override { "c3" } else { "c1" };
        let tcp_too = self.rng.random_bool(0.6);
        let mut n = self.rng.random_range(1..3i64);
        let mut olds: Vec<(usize, Flavor)> = Vec::new();
        let cluster_of = |f: Flavor| if f == Flavor::Tcp { "t1" } else { hc };
        // A: served while the resolved limit is 0
        let k = self.rng.random_range(2..5usize);
        let mut visited_other = false;
        for j in 0..k {
            // at least one TCP connection when TCP takes part, at least one that is not
            let f = if j == 0 && tcp_too { Flavor::Tcp } else if j == 1 { self.pick_flavor(false) } else { self.pick_flavor(tcp_too) };
            let ip = if j == 3 { 2 } else { 1 };
            if let Some(i) = self.open_flavor(f, ip, Kind::Tcp) {
                self.ask(i, f, cluster_of(f), "enable-old");
                // ... and by a second cluster on the same connection: the first one always visits the other cluster
                // whose limit can be switched (c1: the global limit, c3: its own, "unlimited" for now)
                if f != Flavor::Tcp && (!visited_other || self.rng.random_bool(0.3)) {
                    let other = if !visited_other { if via_override { "c1" } else { "c3" } } else { "c2" };
                    visited_other = true;
                    self.ask(i, f, other, "enable-old2");
                }
                olds.push((i, f));
            }
        }
        for round in 0..2 {
            // B: the limit is switched on
            if via_override {
                self.set_override(hc, n);
                if tcp_too {
                    self.set_override("t1", n);
                }
            } else {
                self.set_limit(n as u64);
            }
            // C: the same address comes again
            let m = self.rng.random_range(2..4usize);
            let mut news: Vec<(usize, Flavor)> = Vec::new();
            for _ in 0..m {
                let f = self.pick_flavor(tcp_too);
                if let Some(i) = self.open_flavor(f, 1, Kind::Tcp) {
                    self.ask(i, f, cluster_of(f), "enable-new");
                    news.push((i, f));
                }
            }
            // D: the old ones ask again (they hold their slot)
            for (i, f) in olds.clone() {
                if f != Flavor::Tcp && self.fd_of(i).is_some() && self.rng.random_bool(0.7) {
                    self.ask(i, f, hc, "enable-again");
                }
            }
            // E: one leaves, another one comes
            if let Some((i, _)) = olds.first().copied() {
                self.close(i);
                olds.remove(0);
                std::thread::sleep(Duration::from_millis(60));
                let f = self.pick_flavor(tcp_too);
                if let Some(j) = self.open_flavor(f, 1, Kind::Tcp) {
                    self.ask(j, f, cluster_of(f), "enable-after-close");
                    news.push((j, f));
                }
            }
            if round == 1 || (via_override && self.rng.random_bool(0.5)) {
                break;
            }
            // F: off (global: the tables are wiped; cluster-level: nothing is), more connections, on again
            if via_override {
                self.set_override(hc, 0);
                if tcp_too {
                    self.set_override("t1", 0);
                }
            } else {
                self.set_limit(0);
            }
            for _ in 0..self.rng.random_range(1..3usize) {
                let f = self.pick_flavor(tcp_too);
                if let Some(i) = self.open_flavor(f, 1, Kind::Tcp) {
                    self.ask(i, f, cluster_of(f), "enable-off");
                    olds.push((i, f));
                }
            }
            // those that were open across the switch ask again while it is off (after a wipe they take their slot
            // again - a backend connection of the cluster is still attached to most of them): the first one always
            let mut first = true;
            for (i, f) in olds.clone().into_iter().chain(news) {
                if f != Flavor::Tcp && self.fd_of(i).is_some() && self.clients[i].served && (first || self.rng.random_bool(0.5)) {
                    first = false;
                    self.ask(i, f, hc, "enable-off-again");
                }
            }
            n = self.rng.random_range(1..3i64);
        }
        self.close_all();
        self.settle();
        self.set_limit(0);
        if via_override {
            self.set_override(hc, 0);
            if tcp_too {
                self.set_override("t1", -1);
            }
        }
    }

    /// Sessions that die AFTER the gate gave them a slot and before (or without) a backend connection: a TCP
    /// cluster without any backend, one whose backend was removed at run time, a backend that refuses, an HTTP
    /// cluster without backend (503, the connection goes on), a dead HTTP backend. Each is followed by traffic
    /// on another listener / cluster from the same address, which takes the slab slot just released, and by the
    /// same address coming back to the cluster of the failed session.
    fn wave_leak(&mut self) {
        let l = self.rng.random_range(0..3u64);
        if l > 0 {
            self.set_limit(l);
        }
        let gone = self.rng.random_bool(0.5);
        if gone {
            let r = self.w.request(RequestType::RemoveBackend(RemoveBackend { cluster_id: "tgone".into(), backend_id: "btg".into(), address: self.gone_backend.into() }), T);
            if !ok(&r) {
                self.failures.push(json!({"class": "tool", "what": "RemoveBackend not acknowledged"}));
            }
        }
        let rounds = self.rng.random_range(2..5usize);
        let first = self.rng.random_range(0..rounds);
        for r in 0..rounds {
            // every wave has at least one session on the cluster that has no backend at all
            let which = if r == first { 0 } else { self.rng.random_range(0..5) };
            let victim_kind = match which {
                0 => Some(Kind::TcpNone),
                1 => Some(Kind::TcpGone),
                2 => Some(Kind::TcpDead),
                _ => None,
            };
            for again in 0..2 {
                match victim_kind {
                    Some(k) => {
                        if let Some(i) = self.open(k, 1) {
                            self.send(i, b"echo");
                            if k == Kind::TcpGone && !gone {
                                let _ = self.await_byte(i, Duration::from_millis(800));
                                if self.rng.random_bool(0.5) {
                                    self.close(i);
                                }
                            } else {
                                self.clients[i].note = "await-timeout".into(); // sozu must close it
                                if again == 0 {
                                    let _ = self.await_closed(i, Duration::from_millis(if k == Kind::TcpDead { 1500 } else { 500 }));
                                }
                            }
                        }
                    }
                    None => {
                        if let Some(i) = self.open(Kind::H1, 1) {
                            let path = if which == 3 { "/none/x" } else { "/dead/x" };
                            self.send(i, format!("GET {path} HTTP/1.1\r\nHost: localhost\r\n\r\n").as_bytes());
                            let st = self.read_h1(i, RECLAIM_DEADLINE);
                            self.status("leak-503", st);
                            if self.rng.random_bool(0.5) {
                                self.close(i);
                            }
                        }
                    }
                }
                if again == 0 {
                    // traffic elsewhere, same address: the next session takes the slab slot that was just released
                    let f = self.pick_flavor(true);
                    if let Some(j) = self.open_flavor(f, 1, Kind::Tcp) {
                        let c = if f == Flavor::Tcp { "t1" } else if self.rng.random_bool(0.5) { "c1" } else { "c2" };
                        self.ask(j, f, c, "leak-other");
                        if self.rng.random_bool(0.3) {
                            self.close(j);
                        }
                    }
                }
            }
        }
        self.await_reclaimed("leak");
        self.close_all();
        self.settle();
        if gone {
            let r = self.w.request(RequestType::AddBackend(Worker::backend("tgone", "btg", self.gone_backend)), T);
            if !ok(&r) {
                self.failures.push(json!({"class": "tool", "what": "AddBackend not acknowledged"}));
            }
        }
        self.set_limit(0);
    }

    fn wave_perip(&mut self) {
        let l = self.rng.random_range(1..3u64);
        self.set_limit(l);
        // first a block from one address to one cluster, all kept open: more than the limit allows
        let c = if self.rng.random_bool(0.5) { "c1" } else { "c2" };
        for _ in 0..(l as usize + 2) {
            if let Some(i) = self.open(Kind::H1, 1) {
                self.send(i, format!("GET /{c}/ok HTTP/1.1\r\nHost: localhost\r\n\r\n").as_bytes());
                let st = self.read_h1(i, T);
                self.status("perip-block", st);
            }
        }
        for _ in 0..2 {
            if let Some(i) = self.open(Kind::Tcp, 1) {
                self.send(i, b"echo");
                let _ = self.await_byte(i, Duration::from_millis(500));
            }
        }
        let n = self.rng.random_range(4..8usize);
        for k in 0..n {
            let ip = if self.rng.random_bool(0.7) { 1 } else { 2 };
            let tcp = self.rng.random_range(0..4) == 0;
            let Some(i) = self.open(if tcp { Kind::Tcp } else { Kind::H1 }, ip) else { continue };
            if tcp {
                self.send(i, b"echo");
                let _ = self.await_byte(i, Duration::from_millis(800));
            } else {
                let c = if self.rng.random_bool(0.6) { "c1" } else { "c2" };
                self.send(i, format!("GET /{c}/ok HTTP/1.1\r\nHost: localhost\r\n\r\n").as_bytes());
                let st = self.read_h1(i, T);
                self.status("perip", st);
                if self.rng.random_bool(0.3) {
                    self.send(i, b"GET /c2/ok HTTP/1.1\r\nHost: localhost\r\n\r\n");
                    let st = self.read_h1(i, T);
                    self.status("perip2", st);
                }
            }
            if self.rng.random_range(0..4) == 0 {
                self.close(i);
            }
            if k == n / 2 {
                // change (or disable) the limit while connections hold slots
                let nl = self.rng.random_range(0..4u64);
                self.set_limit(nl);
            }
        }
        // a few of the open ones ask again after the change
        for i in 0..self.clients.len() {
            if self.clients[i].sock.is_some() && self.clients[i].served && self.rng.random_bool(0.5) {
                self.send(i, b"GET /c1/ok HTTP/1.1\r\nHost: localhost\r\n\r\n");
                let st = self.read_h1(i, Duration::from_millis(800));
                self.status("perip-again", st);
            }
        }
        self.close_all();
        self.set_limit(0);
    }

    /// after close_all: give the worker up to 3 s to end every session, so that a wipe that follows cannot hide
    /// what the sessions did (or failed to do) with their slots when they closed
    fn settle(&mut self) {
        let t0 = Instant::now();
        while t0.elapsed() < Duration::from_secs(3) {
            self.drain();
            if self.is_quiet() || self.w.is_finished() {
                break;
            }
            std::thread::sleep(Duration::from_millis(20));
        }
    }

    // ---- quiescence + metrics -------------------------------------------------------------------

    fn gauges(&mut self) -> Option<BTreeMap<String, i64>> {
        let r = self.w.request(
            RequestType::QueryMetrics(QueryMetricsOptions { list: false, cluster_ids: vec![], backend_ids: vec![], metric_names: vec![], no_clusters: false, workers: false }),
            T,
        )?;
        let ContentType::WorkerMetrics(m) = r.content?.content_type? else { return None };
        let mut out = BTreeMap::new();
        let mut put = |k: String, v: &sozu_command_lib::proto::command::FilteredMetrics| {
            if let Some(filtered_metrics::Inner::Gauge(g)) = v.inner.as_ref() {
                out.insert(k, *g as i64);
            }
        };
        for (k, v) in &m.proxy {
            put(k.clone(), v);
        }
        for (cid, cm) in &m.clusters {
            for (k, v) in &cm.cluster {
                put(format!("{cid}/{k}"), v);
            }
            for b in &cm.backends {
                for (k, v) in &b.metrics {
                    put(format!("{cid}/{}/{k}", b.backend_id), v);
                }
            }
        }
        Some(out)
    }

    /// true once every connected socket was accepted and the worker's last word is an idle loop
    /// with no session and an empty queue
    fn is_quiet(&self) -> bool {
        if !self.connected.iter().all(|p| self.accepted.contains(p)) {
            return false;
        }
        match &self.latest_idle {
            Some(m) => m.get("nb") == Some(&0) && m.get("queue") == Some(&0),
            None => false,
        }
    }

    fn quiesce(&mut self, wave: usize, name: &str) {
        self.close_all();
        let t0 = Instant::now();
        let mut quiet = false;
        while t0.elapsed() < RECLAIM_DEADLINE {
            self.drain();
            if self.w.is_finished() {
                break;
            }
            if self.is_quiet() {
                quiet = true;
                break;
            }
            std::thread::sleep(Duration::from_millis(20));
        }
        if self.w.is_finished() {
            let msg = match self.w.join_within(Duration::from_millis(100)) {
                Err(m) => m,
                Ok(_) => "worker thread exited".to_string(),
            };
            self.drain();
            self.log(json!({"ev": "worker_panic", "wave": name, "msg": msg}));
            self.failures.push(json!({"class": "panic", "msg": msg, "wave": name}));
            return;
        }
        if !quiet {
            self.drain();
            let idle = self.latest_idle.clone();
            self.log(json!({"ev": "not_quiescent", "wave": name, "idle": idle, "deadline_ms": RECLAIM_DEADLINE.as_millis() as u64}));
            self.failures.push(json!({"class": "not-quiescent", "wave": name, "idle": idle}));
            return;
        }
        // gauges may lag behind the loop by one metrics drain: poll a little before recording
        let base = self.baseline_gauges.clone();
        let mut g = self.gauges().unwrap_or_default();
        let t1 = Instant::now();
        while base.as_ref().is_some_and(|b| !same_gauges(b, &g)) && t1.elapsed() < Duration::from_secs(3) {
            std::thread::sleep(Duration::from_millis(150));
            g = self.gauges().unwrap_or_default();
        }
        self.drain();
        // always close with the worker's own view of the quiet state
        if let Some(v) = self.last_idle.clone() {
            let n = self.trace.len();
            if self.trace[n - 1] != v {
                self.trace.push(v);
            }
        }
        let ev = if base.is_none() { "baseline" } else { "quiesce" };
        if base.is_none() {
            self.baseline_gauges = Some(g.clone());
        }
        self.log(json!({"ev": ev, "wave": wave, "name": name, "gauges": g, "wait_ms": t0.elapsed().as_millis() as u64}));
        self.waves.push(json!({"wave": wave, "name": name, "wait_ms": t0.elapsed().as_millis() as u64}));
    }
}

/// gauges that legitimately do not return to their idle value (capacity / clock / configuration)
fn volatile_gauge(k: &str) -> bool {
    k.contains("capacity") || k.contains("uptime") || k.contains("percent") || k.contains("expires") || k.contains("connections_max")
        || k.contains("accept_threshold") || k.ends_with("server.live")
}

fn same_gauges(a: &BTreeMap<String, i64>, b: &BTreeMap<String, i64>) -> bool {
    let keys: BTreeSet<&String> = a.keys().chain(b.keys()).collect();
    keys.into_iter().filter(|k| !volatile_gauge(k)).all(|k| a.get(k).copied().unwrap_or(0) == b.get(k).copied().unwrap_or(0))
}

fn main() {
    let args: Vec<String> = std::env::args().collect();
    let arg = |k: &str, d: &str| -> String { args.iter().position(|a| a == k).and_then(|i| args.get(i + 1)).cloned().unwrap_or_else(|| d.to_string()) };
    let seed: u64 = arg("--seed", "1").parse().unwrap_or(1);
    let waves: usize = arg("--waves", "8").parse().unwrap_or(8);
    let max: usize = arg("--max", "8").parse().unwrap_or(8);
    let out = arg("--out", "/tmp/c16_trace.ndjson");
    // with an interval below the session timeouts idle sessions are reaped by the zombie sweep instead
    let zombie: u32 = arg("--zombie", &ZOMBIE_INTERVAL.to_string()).parse().unwrap_or(ZOMBIE_INTERVAL);
    let mut rng = StdRng::seed_from_u64(seed);
    let evict = rng.random_bool(0.5);

    let (tx, rx) = channel::<sozu_lib::verif::Event>();
    let tx = Mutex::new(tx);
    sozu_lib::verif::install(Box::new(move |e| {
        let _ = tx.lock().map(|t| t.send(e));
    }));

    let mut config = server_config(|fc| {
        fc.max_connections = Some(max);
        fc.min_buffers = Some(4);
        fc.max_buffers = Some(64);
        fc.zombie_check_interval = Some(zombie);
        fc.accept_queue_timeout = Some(QUEUE_TIMEOUT_S);
        fc.evict_on_queue_full = Some(evict);
    });
    config.max_connections = max as u64;
    let mut w = Worker::start("c16", config, &Listeners::default(), ConfigState::new());

    let (http, https, tcp, tcp_dead) = (free_addr(), free_addr(), free_addr(), free_addr());
    let (tcp_none, tcp_gone) = (free_addr(), free_addr());
    let (b1, b2, bdead, bt) = (free_addr(), free_addr(), free_addr(), free_addr());
    let (b3, btg) = (free_addr(), free_addr());
    let (btx, brx) = channel::<Saw>();
    spawn_h1_backend(b1, "c1", btx.clone());
    spawn_h1_backend(b2, "c2", btx.clone());
    spawn_h1_backend(b3, "c3", btx.clone());
    spawn_tcp_backend(bt, "t1", btx.clone());
    spawn_tcp_backend(btg, "tgone", btx.clone());
    let mut setup_ok = true;
    {
        let mut lb = ListenerBuilder::new_http(http.into());
        lb.with_front_timeout(Some(FRONT_TIMEOUT)).with_back_timeout(Some(BACK_TIMEOUT)).with_connect_timeout(Some(CONNECT_TIMEOUT)).with_request_timeout(Some(REQUEST_TIMEOUT));
        setup_ok &= ok(&w.request(RequestType::AddHttpListener(lb.to_http(None).expect("http listener")), T));
        setup_ok &= ok(&w.request(RequestType::ActivateListener(ActivateListener { address: http.into(), proxy: ListenerType::Http.into(), from_scm: false }), T));
        let mut lb = ListenerBuilder::new_https(https.into());
        lb.with_front_timeout(Some(FRONT_TIMEOUT)).with_back_timeout(Some(BACK_TIMEOUT)).with_connect_timeout(Some(CONNECT_TIMEOUT)).with_request_timeout(Some(REQUEST_TIMEOUT));
        setup_ok &= ok(&w.request(RequestType::AddHttpsListener(lb.to_tls(None).expect("https listener")), T));
        setup_ok &= ok(&w.request(RequestType::ActivateListener(ActivateListener { address: https.into(), proxy: ListenerType::Https.into(), from_scm: false }), T));
        setup_ok &= ok(&w.request(
            RequestType::AddCertificate(AddCertificate {
                address: https.into(),
                certificate: CertificateAndKey { certificate: LOCAL_CERT.to_string(), key: LOCAL_KEY.to_string(), certificate_chain: vec![], versions: vec![], names: vec![] },
                expired_at: None,
            }),
            T,
        ));
        for (addr, _) in [(tcp, "t1"), (tcp_dead, "tdead"), (tcp_none, "tnone"), (tcp_gone, "tgone")] {
            let mut lb = ListenerBuilder::new_tcp(addr.into());
            lb.with_front_timeout(Some(FRONT_TIMEOUT)).with_back_timeout(Some(BACK_TIMEOUT)).with_connect_timeout(Some(CONNECT_TIMEOUT));
            setup_ok &= ok(&w.request(RequestType::AddTcpListener(lb.to_tcp(None).expect("tcp listener")), T));
            setup_ok &= ok(&w.request(RequestType::ActivateListener(ActivateListener { address: addr.into(), proxy: ListenerType::Tcp.into(), from_scm: false }), T));
        }
        // c3: its own limit, "unlimited" to begin with and changed at run time; none / tnone: no backend at all
        for (cid, ovr) in [("c1", None), ("c2", Some(2u64)), ("c3", Some(0u64)), ("dead", None), ("none", None), ("t1", None), ("tdead", None), ("tnone", None), ("tgone", None)] {
            let cl = Cluster { cluster_id: cid.into(), max_connections_per_ip: ovr, ..Worker::default_cluster(cid) };
            setup_ok &= ok(&w.request(RequestType::AddCluster(cl), T));
        }
        for (cid, path) in [("c1", "/c1/"), ("c2", "/c2/"), ("c3", "/c3/"), ("dead", "/dead/"), ("none", "/none/")] {
            setup_ok &= ok(&w.request(RequestType::AddHttpFrontend(Worker::http_frontend(cid, http, "localhost", path)), T));
            setup_ok &= ok(&w.request(RequestType::AddHttpsFrontend(Worker::http_frontend(cid, https, "localhost", path)), T));
        }
        setup_ok &= ok(&w.request(RequestType::AddTcpFrontend(Worker::tcp_frontend("t1", tcp)), T));
        setup_ok &= ok(&w.request(RequestType::AddTcpFrontend(Worker::tcp_frontend("tdead", tcp_dead)), T));
        setup_ok &= ok(&w.request(RequestType::AddTcpFrontend(Worker::tcp_frontend("tnone", tcp_none)), T));
        setup_ok &= ok(&w.request(RequestType::AddTcpFrontend(Worker::tcp_frontend("tgone", tcp_gone)), T));
        for (cid, bid, addr) in [("c1", "b1", b1), ("c2", "b2", b2), ("c3", "b3", b3), ("dead", "bd", bdead), ("t1", "bt", bt), ("tdead", "btd", bdead), ("tgone", "btg", btg)] {
            setup_ok &= ok(&w.request(RequestType::AddBackend(Worker::backend(cid, bid, addr)), T));
        }
    }
    if !setup_ok {
        eprintln!("worker set-up failed");
        std::process::exit(3);
    }
    let base_port = 30_000 + ((std::process::id() * 131) % 250) as u16 * 100;
    let mut d = Driver {
        rng,
        w,
        rx,
        brx,
        last_hook: "",
        epoch: 0,
        pending_ovr: HashMap::new(),
        tcp_none,
        tcp_gone,
        gone_backend: btg,
        enable_count: 0,
        trace: Vec::new(),
        last_idle: None,
        latest_idle: None,
        connected: BTreeSet::new(),
        accepted: BTreeSet::new(),
        next_port: base_port,
        clients: Vec::new(),
        http,
        https,
        tcp,
        tcp_dead,
        hook_events: 0,
        underflows: Vec::new(),
        max_served: 0,
        max_conn: 0,
        statuses: BTreeMap::new(),
        waves: Vec::new(),
        failures: Vec::new(),
        baseline_gauges: None,
        only: args.iter().position(|a| a == "--only").and_then(|i| args.get(i + 1)).and_then(|v| v.parse().ok()),
        sub: args.iter().position(|a| a == "--sub").and_then(|i| args.get(i + 1)).and_then(|v| v.parse().ok()),
    };
    // configuration header; the set-up traffic of the command channel is not part of the trace
    std::thread::sleep(Duration::from_millis(300));
    while d.rx.try_recv().is_ok() {}
    d.trace.push(json!({"ev": "cfg", "max": max, "evict": evict, "queue_timeout_ms": QUEUE_TIMEOUT_S * 1000,
        "overrides": {"c2": 2, "c3": 0}, "seed": seed,
        "timeouts": {"front": FRONT_TIMEOUT, "back": BACK_TIMEOUT, "connect": CONNECT_TIMEOUT, "request": REQUEST_TIMEOUT, "zombie": zombie}}));
    // wake the loop so that a fresh loop_idle is seen, then take the baseline
    let _ = d.gauges();
    d.quiesce(0, "baseline");

    let kinds_arg = arg("--kinds", "");
    let forced: Vec<&str> = kinds_arg.split(',').filter(|x| !x.is_empty()).collect();
    let kinds = ["h1", "storm", "tls", "tcp", "perip", "h1", "tls", "storm", "enable", "leak"];
    for k in 0..waves {
        if d.w.is_finished() || d.failures.iter().any(|f| f["class"] == "panic") {
            break;
        }
        let name = if !forced.is_empty() { forced[k % forced.len()] } else if k < kinds.len() { kinds[(k + seed as usize) % kinds.len()] } else { kinds[d.rng.random_range(0..kinds.len())] };
        d.log(json!({"ev": "wave", "wave": k + 1, "name": name}));
        match name {
            "h1" => {
                let n = d.rng.random_range(4..10);
                d.wave_h1(n)
            }
            "storm" => d.wave_storm(3 * max),
            "tls" => {
                let n = d.rng.random_range(3..8);
                d.wave_tls(n)
            }
            "tcp" => {
                let n = d.rng.random_range(3..8);
                d.wave_tcp(n)
            }
            "enable" => d.wave_enable(),
            "leak" => d.wave_leak(),
            _ => d.wave_perip(),
        }
        d.quiesce(k + 1, name);
    }
    // stop the worker (not part of the trace)
    let n_trace = d.trace.len();
    if !d.w.is_finished() {
        let _ = d.w.request(RequestType::SoftStop(SoftStop {}), Duration::from_secs(5));
        let _ = d.w.join_within(Duration::from_secs(5));
    }
    sozu_lib::verif::uninstall();
    d.trace.truncate(n_trace);

    // make every gauge record cover the same keys (absent = 0), drop the volatile ones
    let mut keys: BTreeSet<String> = BTreeSet::new();
    for e in &d.trace {
        if let Some(g) = e["gauges"].as_object() {
            keys.extend(g.keys().filter(|k| !volatile_gauge(k)).cloned());
        }
    }
    for e in d.trace.iter_mut() {
        if e["gauges"].is_object() {
            let old = e["gauges"].as_object().cloned().unwrap_or_default();
            let mut m = Map::new();
            for k in &keys {
                m.insert(k.replace(['.', '/', '-'], "_"), old.get(k).cloned().unwrap_or(json!(0)));
            }
            e["gauges"] = Value::Object(m);
        }
    }
    // the universe of the run goes into the cfg event
    {
        let mut socks = BTreeSet::new();
        let mut toks = BTreeSet::new();
        let mut ips = BTreeSet::new();
        let mut clusters = BTreeSet::new();
        let mut sys = 0;
        for e in &d.trace {
            match e["ev"].as_str().unwrap_or("") {
                "connect" => {
                    socks.insert(e["port"].as_i64().unwrap_or(0));
                }
                "loop_idle" if sys == 0 => sys = e["base"].as_i64().unwrap_or(0),
                _ => {}
            }
            if let Some(t) = e["token"].as_i64() {
                toks.insert(t);
            }
            if let Some(ip) = e["ip"].as_str() {
                ips.insert(ip.to_string());
            }
            if let Some(c) = e["cluster"].as_str() {
                clusters.insert(c.to_string());
            }
        }
        d.trace[0]["socks"] = json!(socks);
        d.trace[0]["toks"] = json!(toks);
        d.trace[0]["ips"] = json!(ips);
        d.trace[0]["clusters"] = json!(clusters);
        d.trace[0]["sys"] = json!(sys);
    }
    let mut f = std::fs::File::create(&out).expect("trace file");
    for e in &d.trace {
        writeln!(f, "{e}").ok();
    }
    let kinds_seen: BTreeMap<String, u64> = d.trace.iter().fold(BTreeMap::new(), |mut m, e| {
        *m.entry(e["ev"].as_str().unwrap_or("?").to_string()).or_default() += 1;
        m
    });
    vh::util::emit(&json!({"kind": "summary", "seed": seed, "events": d.trace.len(), "hook_events": d.hook_events, "waves": d.waves,
        "max": max, "evict": evict, "max_served": d.max_served, "max_open": d.max_conn, "connections": d.connected.len(),
        "statuses": d.statuses, "underflows": d.underflows, "failures": d.failures, "event_kinds": kinds_seen, "trace": out}));
    std::process::exit(0);
}
