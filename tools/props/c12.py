"""C12 - traffic only goes to backends that are eligible right now (spec/Backends.tla).

1. TLC checks P_C12 (eligibility with the fail-open exception, backups last, sticky wins, traffic is served,
   affinity is a function, counters balance, retirement) on the spec with no deviation: exhaustively over all
   histories up to a bound, then by random simulation of long histories.
2. For every open deviation TLC is re-run with it switched on and must produce a counterexample.
3. S->I: spec/Gen_Backends.tla makes TLC print random mutation histories with, after every step, the predicted
   state and the admissible set of every query; harness/replay_backends executes them on a real BackendMap.
4. I->S: harness/drive_backends performs seeded random histories on a real BackendMap (two clusters interleaved,
   real connects incl. immediate connection errors, the real back-off policy on its own clock: time passes by
   moving last_try into the past before the next call) and
   TLC (spec/Trace_Backends.tla) accepts iff every call's result and post-state is what the spec allows.
   A corrupted copy of the trace must be rejected (self-test of the binding).
5. Self-test switches (ColdStartTable, FailKeepsClock, SucceedKeepsWait: classes of defects found by seeded changes)
   must each make TLC refute the property; two focused generators (Gen_Backends.tla FocusSpec: "aff" = the policy
   object installed again on a populated cluster whose eligible set moves; "backoff" = failure / time / success
   sequences with the real retry budget) feed the same replayer.
"""
import json
import os
import re

import vlib
from props import c12_health

PID = "C12"
ALL_OPS = ["Add", "Remove", "SetPolicy", "Health", "ResetHealth", "RetryFail", "RetrySucceed", "Elapse",
           "SetClosing", "Inc", "Dec", "ReqStart", "ReqEnd"]
INVS = ("TypeOK P_C12_OnlyEligible P_C12_BackupLast P_C12_StickyWins P_C12_Serves P_C12_Affinity "
        "P_C12_TableCurrent P_C12_WindowExact P_C12_Counters P_C12_Retired")

# switches that model a class of defect (found by seeded changes); TLC must refute one of the listed invariants
SELF_TESTS = {
    "ColdStartTable": dict(invs=["P_C12_Affinity"], steps=9, configs="MCConfigs1", stickies="{}"),
    "FailKeepsClock": dict(invs=["P_C12_OnlyEligible"], steps=4, configs="MCConfigsSticky", stickies='{"s1"}'),
    "SucceedKeepsWait": dict(invs=["P_C12_StickyWins", "P_C12_Serves"], steps=4, configs="MCConfigsSticky", stickies='{"s1"}'),
}

SELF_CFG = """SPECIFICATION Spec
CONSTANTS
  Ids = {"b1", "b2"}
  Addrs = {1, 2}
  Slots <- MCSlots2
  Configs <- %(configs)s
  Keys = {1}
  Stickies = %(stickies)s
  Policies = {"maglev"}
  Metrics = {"conns"}
  MaxTries = 2
  Thresholds = {1}
  HCap = 1
  MaxSteps = %(steps)d
  MaxLoad = 0
  Elapses = {1}
  AgeCap = 4
  Deviations = {"%(dev)s"}
VIEW view
INVARIANTS TypeOK %(invs)s
CHECK_DEADLOCK FALSE
"""

MC_CFG = """SPECIFICATION Spec
CONSTANTS
  Ids = {"b1", "b2", "b3"}
  Addrs = {1, 2, 3}
  Slots <- %(slots)s
  Configs <- %(configs)s
  Keys = %(keys)s
  Stickies = %(stickies)s
  Policies %(policies)s
  Metrics = %(metrics)s
  MaxTries = 2
  Thresholds = %(ths)s
  HCap = 2
  MaxSteps = %(steps)d
  MaxLoad = %(load)s
  Elapses = {1, 3}
  AgeCap = 4
  Deviations = %(dev)s
%(view)s
INVARIANTS %(invs)s
PROPERTY P_C12_GrowOnlyNormal
CHECK_DEADLOCK FALSE
"""

GEN_CFG = """SPECIFICATION %(spec)s
CONSTANTS
  Ids = {"b1", "b2", "b3"}
  Addrs = {1, 2, 3}
  Slots <- %(slots)s
  Configs <- %(configs)s
  Keys = {1, 2}
  Stickies = {"s1", "s2"}
  Policies %(policies)s
  Metrics = {"conns", "reqs"}
  MaxTries = %(tries)d
  Thresholds = {1, 2}
  HCap = 2
  MaxSteps = %(steps)d
  MaxLoad = 3
  Elapses = %(elapses)s
  AgeCap = %(agecap)d
  Focus = "%(focus)s"
  Deviations = %(dev)s
INVARIANTS EmitHist
CHECK_DEADLOCK FALSE
"""

# the three generators of the S->I leg: (name, cfg parameters, share of the histories, replayer's retry budget / age cap)
GENERATORS = [
    ("main", dict(spec="GenSpec", focus="none", slots="MCSlots4", configs="MCConfigsGen", policies="<- AllPolicies",
                  tries=2, elapses="{1, 2, 3}", agecap=4), 1.0),
    # the policy object (re)installed on a populated cluster, eligible set moving; three addresses, three weights
    ("aff", dict(spec="FocusSpec", focus="aff", slots="MCSlots4", configs="MCConfigsAff", policies='= {"hrw", "maglev"}',
                 tries=2, elapses="{1, 3}", agecap=4), 0.75),
    # failure / time / success sequences with the budget of Backend::new (6: windows up to 63 s)
    ("backoff", dict(spec="FocusSpec", focus="backoff", slots="MCSlots3", configs="MCConfigs", policies="<- AllPolicies",
                     tries=6, elapses="{1, 1, 2, 3, 4, 8, 16, 32, 64}", agecap=64), 0.5),
]

TRACE_CFG = """SPECIFICATION TraceSpec
CONSTANTS
  Ids = {"b1", "b2", "b3", "b4"}
  Addrs = {1, 2, 3, 4}
  Slots <- TraceSlots
  Configs = {}
  Keys = {1, 2, 3}
  Stickies = {"s1", "s2"}
  Policies = {"rr", "random", "leastLoaded", "p2c", "hrw", "maglev"}
  Metrics = {"conns", "reqs"}
  MaxTries = 6
  Thresholds = {1, 2, 3}
  HCap = 1000000
  MaxSteps = 1000000000
  MaxLoad = 1000000000
  Elapses = {}
  AgeCap = 64
  Deviations = %(dev)s
CONSTRAINT Track
INVARIANTS TypeOK P_C12_OnlyEligible P_C12_BackupLast P_C12_StickyWins P_C12_Serves P_C12_Counters P_C12_Retired%(aff)s
POSTCONDITION TraceAccepted
CHECK_DEADLOCK FALSE
"""


def sim_states(r):
    """TLC's simulation mode reports its state count in its own format."""
    m = re.search(r"The number of states generated: (\d+)", r["out"])
    return int(m.group(1)) if m else 0


def tla_set(xs):
    return "{" + ", ".join('"%s"' % x for x in xs) + "}"


def write(wd, name, text):
    path = os.path.join(wd, name)
    with open(path, "w") as f:
        f.write(text)
    return path


def mc_cfg(wd, name, steps, dev, slots="MCSlots3", policies=None, view=True, small=False):
    return write(wd, name, MC_CFG % {
        "slots": slots, "steps": steps, "dev": tla_set(dev), "invs": INVS,
        "keys": "{1}" if small else "{1, 2}", "stickies": "{}" if small else '{"s1"}',
        "metrics": '{"conns"}' if small else '{"conns", "reqs"}',
        "configs": "MCConfigsDev" if small else "MCConfigs", "ths": "{}" if small else "{2}", "load": "0" if small else "2",
        "policies": ("= " + tla_set(policies)) if policies else "<- AllPolicies",
        "view": "VIEW view" if view else ""})


def segment_of(trace_path, index):
    """The run (reset .. event `index`, 0-based) that contains event `index`, as ndjson text."""
    with open(trace_path) as f:
        lines = f.readlines()
    index = min(index, len(lines) - 1)
    start = index
    while start > 0 and '"ev":"reset"' not in lines[start]:
        start -= 1
    return "".join(lines[start:index + 1]), (json.loads(lines[index]) if lines else {})


def strip_post(e):
    e = dict(e)
    e.pop("post", None)
    return e


def validate_trace(rep, wd, trace, devs, label):
    """TLC trace validation; returns the tlc_trace result. A rejection becomes a violation."""
    cfg = write(wd, "trace_%s.cfg" % label, TRACE_CFG % {
        "dev": tla_set(devs), "aff": "" if devs else " P_C12_Affinity"})
    r = vlib.tlc_trace("Trace_Backends", cfg, PID, trace, timeout=1500)
    return r


def report_rejection(rep, r, trace, name):
    consumed = r["consumed"] if r["consumed"] is not None else 0
    seg, ev = segment_of(trace, consumed)
    why = ("invariant %s violated after the event" % r["violated"]) if r["violated"] else \
        "no action of Backends.tla explains the event (result or post-state differs from every admissible one)"
    klass = "trace:%s:%s" % ("invariant" if r["violated"] else "rejected", ev.get("ev", "?"))
    rep.violation(klass, "event %d of the recorded history: %s: %s" % (consumed + 1, json.dumps(strip_post(ev))[:160], why),
                  seg, name=name)


def run(tier, replay=None):
    rep = vlib.Report(PID, tier)
    wd = vlib.workdir(PID)
    bins = vlib.cargo_build(["drive_backends", "replay_backends"])
    devs = vlib.open_deviations(PID)
    thorough = tier == "thorough"
    workers = 16 if thorough else 8
    seed = vlib.seed()

    # --replay: a recorded trace (ndjson events) or a file of generated behaviours
    if replay:
        with open(replay) as f:
            first = f.read(1)
        if c12_health.handles(replay):
            c12_health.run_replay(rep, replay, devs)
            rep.finish()
        if first == "[":
            out = vlib.run_harness(bins["replay_backends"], ["--seed", str(seed), "--deviations", ",".join(devs)],
                                   stdin_path=replay)
            for v in out:
                if v.get("kind") == "violation":
                    rep.violation(v["class"], v["detail"]["what"][:250], v)
            rep.cov["traces_validated_against_impl"] = sum(o.get("histories", 0) for o in out if o.get("kind") == "summary")
        else:
            r = validate_trace(rep, wd, replay, devs, "replay")
            rep.add_tlc(r)
            if not r["accepted"]:
                report_rejection(rep, r, replay, "replayed_trace.ndjson")
            else:
                rep.cov["traces_validated_against_impl"] = 1
        rep.cov["rule"] = "replay of %s" % replay
        rep.finish()

    # the health-checker legs (spec/HealthCheck.tla) run in the background, merged into this report at the end
    health = c12_health.start(tier, devs)

    # 1. design level, no deviation: exhaustive over bounded histories, then long random histories
    # (with the clock in the state - age / wait / remaining back-off per backend - depth 5 is 508 k states, depth 6 > 5 M)
    depth = 5 if thorough else 4
    r = vlib.tlc("MC_Backends", mc_cfg(wd, "mc.cfg", depth, []), PID, workers=workers,
                 timeout=2400 if thorough else 400, xmx="6g" if thorough else "4g")
    rep.add_tlc(r)
    mc_states = r["distinct"]
    if r["violated"]:
        rep.violation("spec:" + r["violated"], "the specification itself violates %s" % r["violated"], r["out"])
    rs = vlib.tlc("MC_Backends", mc_cfg(wd, "mc_sim.cfg", 40, [], slots="MCSlots4", view=False), PID, workers=workers,
                  timeout=600, simulate="num=%d" % (400 if thorough else 40), depth=42)
    rep.cov["transitions"] += sim_states(rs)
    rep.extra["tlc_simulated_states"] = sim_states(rs)
    if rs["violated"]:
        rep.violation("spec:" + rs["violated"], "the specification itself violates %s (simulation)" % rs["violated"], rs["out"])

    # 2. each open deviation must still break the property in the model
    for d in devs:
        rd = vlib.tlc("MC_Backends", mc_cfg(wd, "mc_dev.cfg", 6, [d], policies=["maglev"], small=True), PID,
                      workers=workers, timeout=600)
        rep.add_tlc(rd)
        if not rd["violated"]:
            raise vlib.ToolError("deviation %s no longer violates P_C12 in the model" % d)
        vlib.log("deviation %s: TLC counterexample to %s as expected" % (d, rd["violated"]))
    for d, st in SELF_TESTS.items():
        rd = vlib.tlc("MC_Backends", write(wd, "mc_self_%s.cfg" % d, SELF_CFG % {
            "dev": d, "steps": st["steps"], "configs": st["configs"], "stickies": st["stickies"], "invs": " ".join(st["invs"])}),
            PID, workers=4, timeout=600)
        rep.add_tlc(rd)
        if rd["violated"] not in st["invs"]:
            raise vlib.ToolError("self-test switch %s: TLC did not refute %s (violated=%s)" % (d, st["invs"], rd["violated"]))
        vlib.log("self-test switch %s: TLC counterexample to %s as expected" % (d, rd["violated"]))
    rep.extra["self_test_switches_refuted"] = sorted(SELF_TESTS)

    # 3. S->I: TLC generates histories + oracle (one general and two focused generators), the replayer executes
    #    them on the real BackendMap
    gen_workers = 8
    n_hist = 4000 if thorough else 320
    histories = 0
    joint = 0
    by_op = {}
    backoff = {}
    inconclusive_total = 0
    for gname, gpar, share in GENERATORS:
        beh = os.path.join(wd, "behaviours_%s.ndjson" % gname)
        par = dict(gpar)
        par.update(steps=(16 if thorough else 12) + (8 if gname == "backoff" else 0), dev=tla_set(devs))
        with open(beh, "w") as f:
            g = vlib.tlc("Gen_Backends", write(wd, "gen_%s.cfg" % gname, GEN_CFG % par),
                         PID, workers=gen_workers, timeout=1500, simulate="num=%d" % max(1, int(n_hist * share) // gen_workers),
                         depth=par["steps"] + 4, want_replay=True, replay_sink=lambda o: f.write(json.dumps(o) + "\n"))
        rep.cov["transitions"] += sim_states(g)
        if g["violated"] or g["n_replays"] == 0:
            raise vlib.ToolError("generator %s failed: violated=%s histories=%d" % (gname, g["violated"], g["n_replays"]))
        for variant in ([0, 1, 2] if thorough else [0, 1]):
            out = vlib.run_harness(bins["replay_backends"],
                                   ["--seed", str(seed * 7 + variant), "--reps", "4", "--hcap", "2",
                                    "--max-tries", str(par["tries"]), "--age-cap", str(par["agecap"]),
                                    "--deviations", ",".join(devs)], stdin_path=beh, timeout=1500)
            summ = [o for o in out if o.get("kind") == "summary"]
            if not summ:
                raise vlib.ToolError("replay_backends produced no summary")
            summ = summ[0]
            histories += summ["histories"]
            joint = max(joint, summ["joint_state_combinations"])
            rep.cov["evaluations"] += summ["probes"]
            for k, v in summ["by_op"].items():
                by_op[k] = by_op.get(k, 0) + v
            for k, v in summ["backoff"].items():
                backoff[k] = max(backoff.get(k, 0), v) if k.startswith("max_") else backoff.get(k, 0) + v
            if variant == 0 and gname == "main":
                rep.add_samples(summ["samples"], 2)
                rep.extra["replay_probes_with_several_admissible"] = summ["probes_with_several_admissible"]
                rep.extra["replay_per_backend_state_combinations"] = summ["per_backend_state_combinations"]
            if variant == 0:
                rep.extra["replay_affinity_points_%s" % gname] = summ["affinity_points"]
            for _ in range(summ["deviation_explained"]):
                rep.known_finding_seen("maglev-rebuild")
            # verdicts first: a mismatch is reported; only then the inconclusive histories are weighed
            for v in out:
                if v.get("kind") == "violation" and not v["class"].startswith("harness:"):
                    # the replay file is the generated behaviour itself (./check C12 --replay re-executes it)
                    n = v["detail"].get("behaviour", 0)
                    rep.violation(v["class"], v["detail"]["what"][:250], _line(beh, n) or v,
                                  name="behaviour_%s_%d_v%d.ndjson" % (gname, n, variant))
            inconclusive = [v for v in out if v.get("kind") == "violation" and v["class"].startswith("harness:")]
            inconclusive_total += len(inconclusive)
            if len(inconclusive) * 20 > max(1, summ["histories"]) and not rep.violations:
                raise vlib.ToolError("replay_backends (%s): %d of %d histories inconclusive: %s"
                                     % (gname, len(inconclusive), summ["histories"], inconclusive[0]["detail"]["what"][:200]))
    rep.extra["replay_inconclusive_histories"] = inconclusive_total
    rep.extra["replay_backoff"] = backoff
    if not rep.violations:
        # vacuity of the time part: counted and ignored failures, windows beyond the first, selections next to a
        # backend inside its window, the policy object installed on a populated cluster
        if not (backoff.get("counted_failures") and backoff.get("ignored_failures") and backoff.get("max_window_seen", 0) >= 2
                and backoff.get("max_tries_seen", 0) >= 3 and backoff.get("selections_with_a_backend_in_its_window")
                and backoff.get("reinstalls_on_populated_cluster")):
            raise vlib.ToolError("vacuous generator run (back-off / re-install coverage): %s" % backoff)
    missing = [o for o in ALL_OPS if by_op.get(o, 0) == 0]
    if missing:
        raise vlib.ToolError("vacuous generator run: operations never generated: %s" % missing)

    # 4. I->S: seeded random histories on the real BackendMap, validated by TLC
    trace = os.path.join(wd, "trace.ndjson")
    runs = 1500 if thorough else 250
    out = vlib.run_harness(bins["drive_backends"], ["--seed", str(seed), "--runs", str(runs), "--steps", "80",
                                                    "--out", trace], timeout=1500)
    dsumm = [o for o in out if o.get("kind") == "summary"]
    if dsumm and dsumm[0]["slow_runs"] * 10 > runs:
        raise vlib.ToolError("drive_backends: %d of %d runs did not fit into the real-time slack (machine overloaded)"
                             % (dsumm[0]["slow_runs"], runs))
    summ = [o for o in out if o.get("kind") == "summary"]
    if not summ:
        raise vlib.ToolError("drive_backends produced no summary")
    summ = summ[0]
    for v in out:
        if v.get("kind") == "violation":
            evs = v.get("events")
            rep.violation(v["class"], "run %s cluster %s: %s" % (v["detail"]["run"], v["detail"].get("cluster"), v["detail"]["panic"][:200]),
                          "".join(json.dumps(e) + "\n" for e in evs) if evs else v,
                          name="panic_run_%s.ndjson" % v["detail"]["run"])
    missing = [o for o in ALL_OPS + ["Connect", "Keyed"] if summ["by_action"].get(o, 0) == 0]
    if missing:
        raise vlib.ToolError("vacuous driver run: actions never performed: %s" % missing)
    rep.add_samples(summ["samples"], 1)
    rep.extra["trace_events"] = summ["events"]
    rep.extra["trace_events_by_action"] = summ["by_action"]
    rep.extra["trace_immediate_connect_errors"] = summ["connect_fail"]
    rep.extra["trace_runs_by_profile"] = summ["runs_by_profile"]
    rep.extra["trace_slow_runs_dropped"] = summ["slow_runs"]
    rep.extra["trace_max_tries_seen"] = summ["max_tries_seen"]
    rep.extra["trace_max_window_seen"] = summ["max_window_seen"]
    if summ["max_tries_seen"] < 5 or summ["max_window_seen"] < 3:
        raise vlib.ToolError("vacuous driver run: no failure streak up to the retry budget (tries %s, window %s s)"
                             % (summ["max_tries_seen"], summ["max_window_seen"]))
    rt = validate_trace(rep, wd, trace, devs, "main")
    rep.add_tlc(rt)
    accepted_traces = 0
    if rt["accepted"]:
        accepted_traces = summ["traces"]
        m = [l for l in rt["out"].splitlines() if "DEVIATIONS-USED" in l]
        used = int("".join(c for c in m[-1] if c.isdigit()) or 0) if m else 0
        for _ in range(used):
            rep.known_finding_seen("maglev-rebuild")
    else:
        report_rejection(rep, rt, trace, "rejected_trace.ndjson")

    # self-test of the binding: one corrupted counter / one wrong selection must be rejected
    if rt["accepted"]:
        with open(trace) as f:
            lines = [next(f) for _ in range(min(1500, summ["events"]))]
        for canary, mutate in (("counter", _corrupt_counter), ("selection", _corrupt_selection)):
            bad, at = mutate([json.loads(l) for l in lines])
            if at is None:
                raise vlib.ToolError("canary %s: nothing to corrupt in the first events" % canary)
            cpath = os.path.join(wd, "canary_%s.ndjson" % canary)
            with open(cpath, "w") as f:
                for e in bad:
                    f.write(json.dumps(e) + "\n")
            rc = validate_trace(rep, wd, cpath, devs, "canary")
            if rc["accepted"] or rc["consumed"] != at:
                raise vlib.ToolError("canary %s: corrupted event %d not rejected there (accepted=%s consumed=%s)"
                                     % (canary, at, rc["accepted"], rc["consumed"]))
        rep.extra["canaries_rejected"] = 2

    rep.cov["traces_validated_against_impl"] = histories + accepted_traces
    rep.cov["distinct_nontrivial"] = joint
    rep.cov["exhaustive"] = False
    rep.cov["rule"] = ("TLC: every history of at most %d actions (incl. time steps of 1 and 3 s, failures drawing every window "
                       "the policy may draw) over 3 backend identities (two sharing an address), 4 "
                       "configurations, 6 policies, 2 keys, 1 sticky id (%d distinct states), plus random histories of 40 "
                       "actions; 3 defect-class switches refuted; S->I: %d TLC-generated histories replayed (general generator + "
                       "focused generators 'policy re-installed on a populated cluster' and 'failure / time / success "
                       "sequences with the real retry budget'; all queries probed 4x after every step); I->S: %d "
                       "recorded cluster histories (%d events) accepted by TLC. distinct_nontrivial = distinct "
                       "(policy, multiset of per-backend states: registered/detached x status x healthy x back-off x backup "
                       "x available) combinations in which the real code was probed by the replayer"
                       % (depth, mc_states, histories, accepted_traces, summ["events"]))
    rep.assumptions += [
        "back-off: fail() / succeed() / can_try() are the real ones on real Instants; time passes by moving last_try into the past (cfg(sozu_verif) hook verif_age_by) before the next call, windows and try counts are only read (verif_get); whole seconds only - the real time a history takes (bounded by a 400 ms slack, else repeated / dropped) adds to every age, so a boundary error of less than a second (e.g. > for >=) is not seen",
        "the length of a window is drawn by sozu's unseeded RNG: it is checked against the spec's range 1..2^tries-1 and, in the S->I leg only, then replaced by the length TLC drew (verif_set with the observed try count and age) so that the generated history can go on",
        "active_requests is a public field maintained by session code; the harness performs the same += 1 / saturating_sub(1) itself, so only its use by the load-based policies is checked here, not the sessions' bookkeeping",
        "the LoadMetric ConnectionTime (peak EWMA, floating point) is not driven; HealthState is driven through record_success / record_failure directly, not through the health checker's sockets",
        "selection is a relation: rr/random may return any eligible backend; leastLoaded a minimum; p2c one of the two least loaded; hrw/maglev the same address for the same key while the eligible set (ids, addresses, weights) is the same",
        "no end-to-end leg (real worker + mock backends) for selection in this check (the health legs run real workers); Backend::set_closing has no caller in sozu itself, the harness calls it as a public API",
    ]
    rep.cov["rule"] += c12_health.finish(health, rep)
    rep.finish()


def _line(path, n):
    """Line n (1-based) of a file, or None."""
    with open(path) as f:
        for i, l in enumerate(f, 1):
            if i == n:
                return l
    return None


def _corrupt_counter(evs):
    for i, e in enumerate(evs):
        if i > 40 and e.get("ev") == "Connect" and e.get("res") == "ok":
            for o in e["post"]["objs"]:
                if o["oid"] == e["oid"]:
                    o["conns"] += 1
                    return evs, i
    return evs, None


def _corrupt_selection(evs):
    """A keyed selection that returns a registered backend which is inside its back-off window."""
    for i, e in enumerate(evs):
        if i > 40 and e.get("ev") == "Keyed" and e.get("oid", -1) > 0:
            waiting = [o["oid"] for o in e["post"]["objs"] if o["wait"] and o["oid"] in e["post"]["list"]]
            if waiting:
                e["oid"] = waiting[0]
                return evs, i
    return evs, None
